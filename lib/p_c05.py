"""C05 - ONCE and POLL return exactly the matching snapshot, then sync."""
import p_subfam as fam

PID = "C05"
MODELS = [("CTreeMC.tla", "CTree_quick.cfg", False), ("Match.tla", "MatchRel.cfg", False)]
RULE = ("(a) exhaustive: every subscription path of length <=3 over {a,b,l,x,*} (globs at any position), with and without prefix origin, against one target and "
        "against '*', in ONCE and POLL mode (2 extra triggers, each sent after the previous sync was received, then client EOF), on unchanging caches with "
        "2 targets, origins, keyed paths and atomic containers: the responses of each walk must be exactly the matching leaves with current values, then "
        "one sync, ONCE ending with OK; (b) random scenarios with concurrent writers (profiles 'once' and 'static'): every leaf present for the whole walk is "
        "sent at least once with a value it held, nothing that never matched, one sync per walk. Verdicts by TLC on the recorded events (SubscribeTrace.tla). "
        "distinct_nontrivial = distinct non-auxiliary event lines")


def run(tier):
    if tier == "quick":
        runs = [("patterns", 3), ("once", 1500), ("static", 800), ("idle", 48)]
    else:
        runs = [("patterns", 24, ["-max", "3"]), ("once", 60000), ("static", 30000), ("idle", 960)]
    return fam.run_family(PID, tier, runs, MODELS, RULE,
                          ["the query relation itself (QueryMatch) is the one model-checked and replayed for C09 (CTree.tla)"],
                          shards=16 if tier == "quick" else 48)


def replay(path):
    return fam.replay_family(PID, path)
