#!/bin/bash
# Development aid: run checks against a seeded change WITHOUT touching /repo, evidence/ or replays/:
# the patch is applied to a scratch git worktree of /repo and the checks are pointed at it through
# VERIF_REPO / VERIF_WORK / VERIF_EVIDENCE / VERIF_REPLAYS (see lib/vlib.py).
# usage: lib/seedtest2.sh <patch> <tier> <check id>...
P=$1; TIER=$2; shift 2
TAG=$(basename "$P" .patch)-$$
WT=/tmp/seedrepo-$TAG
git -C /repo worktree add -q --detach $WT HEAD || exit 2
trap 'git -C /repo worktree remove --force $WT; find /tmp/seedwork-$TAG -delete 2>/dev/null' EXIT
git -C $WT apply "$P" || exit 2
export VERIF_REPO=$WT VERIF_WORK=/tmp/seedwork-$TAG/work VERIF_EVIDENCE=/tmp/seedwork-$TAG/evidence VERIF_REPLAYS=/tmp/seedwork-$TAG/replays
mkdir -p $VERIF_WORK $VERIF_EVIDENCE $VERIF_REPLAYS
for id in "$@"; do
  /verif/check $id --tier $TIER 2>&1 | grep -E 'VIOLATION|KNOWN-FINDING|^\[check\]|Infra|INFRA|signature|NOTE|Traceback' | cut -c1-220 | head -8
done
