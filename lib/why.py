#!/usr/bin/env python3
"""Debug aid: validate one trace file and show the rejected line.
usage: why.py SPEC.tla CFG TRACE [--deque]"""
import json, os, sys, tempfile, shutil
sys.path.insert(0, os.path.dirname(os.path.abspath(__file__)))
import vlib
spec, cfg, tr = sys.argv[1:4]
d = tempfile.mkdtemp(prefix="why-")
try:
    r = vlib._validate_one(spec, cfg, os.path.abspath(tr), d, 600, "3g", "--deque" in sys.argv)
    print("HWM", r["hwm"], "of", r["total"])
    if r["hwm"] < r["total"]:
        lines = vlib.read_lines(tr)
        for i in range(max(0, r["hwm"] - 2), r["hwm"] + 1):
            e = json.loads(lines[i])
            for k in ("proj",):
                if k in e and not os.environ.get("FULL"):
                    e[k] = [x for x in e[k] if not (x.get("p") and x["p"][0] == "meta")]
            print("--- line", i + 1, "(REJECTED)" if i == r["hwm"] else "")
            print(json.dumps(e, sort_keys=True)[:int(os.environ.get("W", "2500"))])
    if "Error:" in r["out"] and "Postcondition" not in r["out"]:
        print(r["out"][-3000:])
finally:
    shutil.rmtree(d, ignore_errors=True)
