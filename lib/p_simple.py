"""Generic shape of the sequential-component checks: model-check, drive the real
code, validate every recorded call with TLC."""
import json
import os
import time

import vlib


def run(pid, tier, models, drives, trace_spec, rule, assumptions, boundary=("reset",), prefix_filter=None,
        count_keys=("scenarios", "histories", "pairs", "sequences", "vectors", "configs"), exhaustive=False, sig=None, deque=False,
        trivial=None, sample_skip=None, crash_pkg=None, merge=False, stage="", mc_module=None):
    """models: [(spec, cfg, expect_violation)]; drives: [driver argv lists] (the output dir is appended by the caller)."""
    t0 = time.time()
    work = vlib.workdir(pid + stage)
    drv = vlib.build_driver()
    outcome = vlib.Outcome(pid, tier)
    states = trans = 0
    mutants = []
    for spec, cfg, expect in models:
        mc = vlib.model_check(spec, cfg, os.path.join(work, "mc"), expect_violation=expect)
        if expect:
            mutants.append(cfg)
        else:
            states += mc["distinct"]
            trans += mc["generated"]
    tr = os.path.join(work, "traces")
    nsc = 0
    dstats = {}
    for argv in drives:
        try:
            d = vlib.drv_stats(vlib.run_driver(drv, argv + ["-out", tr], env={"VERIF_GLOG_DIR": os.path.join(work, "glog")},
                                               timeout=3000, crash_ok=bool(crash_pkg)))
        except vlib.DriverCrash as ex:
            s = vlib.repo_panic(ex.stderr, crash_pkg)
            if not s:
                raise vlib.Infra("driver crashed outside the code under test:\n" + ex.stderr[-3000:])
            outcome.report("panic: " + s, dict(family=argv[0], panic=ex.stderr[-6000:]))
            d = {}
        for k, v in d.items():
            if isinstance(v, int):
                dstats[k] = dstats.get(k, 0) + v
        nsc += sum(v for k, v in d.items() if k in count_keys and isinstance(v, int))
    files = sorted(os.path.join(tr, f) for f in os.listdir(tr) if f.endswith(".ndjson") and not f.startswith("scenarios")) if os.path.isdir(tr) else []
    if prefix_filter:
        files = [f for f in files if os.path.basename(f).startswith(prefix_filter)]
    is_boundary = lambda e: e.get("ev") in boundary
    cfg = trace_spec.replace(".tla", ".cfg")
    stats, rejs = vlib.validate_traces(trace_spec, cfg, files, os.path.join(work, "val"), is_boundary, deque=deque) if files else (dict(events=0), [])
    for r in rejs:
        e = r.event
        s = sig(r) if sig else "%s %s" % (e.get("ev"), e.get("op", e.get("k", "")))
        outcome.report(s, dict(family=drives[0][0], events=r.scenario[-40:], rejected_event=e, reason=r.reason, spec=trace_spec))
    vlib.log("[validate] %d events, %d rejected" % (stats["events"], len(rejs)))
    triv = trivial or (lambda l: any((b'"ev":"%s"' % b.encode()) in l for b in boundary))
    total, distinct = vlib.distinct_lines(files, trivial=triv) if files else (0, 2)
    rc = outcome.finish()
    vlib.write_evidence(pid, tier, "model_checking", dict(
        states=max(1, states), transitions=max(1, trans), traces_validated_against_impl=nsc,
        samples=vlib.sample_lines(files, 3, skip=sample_skip or triv) if files else ["driver crashed"],
        evaluations=stats["events"], distinct_nontrivial=distinct, rule=rule, exhaustive=exhaustive,
        rejected=len(rejs), known_findings_hit=outcome.known, model_drift=0, mutant_configs_violated=mutants, driver=dstats,
        checker_cmd="tlc %s; tlc %s per shard" % (", ".join("%s/%s" % (m[0], m[1]) for m in models), trace_spec)),
        ["TLC and the TLA+ Json/IOUtils modules", "the driver logs calls/results of the real code faithfully (no oracle logic in Go)"] + assumptions,
        time.time() - t0, len(outcome.violations), merge=merge)
    vlib.cleanup(pid + stage)
    return rc


def replay_events(pid, path, trace_spec, boundary=("reset",), deque=False):
    with open(path) as f:
        rp = json.load(f)
    work = vlib.workdir(pid + "-replay")
    out = os.path.join(work, "replay.ndjson")
    with open(out, "w") as f:
        for e in rp.get("events", []):
            f.write(json.dumps(e) + "\n")
    outcome = vlib.Outcome(pid, "replay")
    stats, rejs = vlib.validate_traces(trace_spec, trace_spec.replace(".tla", ".cfg"), [out], os.path.join(work, "val"),
                                       lambda e: e.get("ev") in boundary, deque=deque)
    for r in rejs:
        outcome.report("%s" % r.event.get("ev"), dict(events=r.scenario, rejected_event=r.event))
    vlib.log("[replay] %d recorded events re-validated, %d rejected (deterministic components: re-run ./check %s to re-execute)" % (
        stats["events"], len(rejs), pid))
    return outcome.finish()
