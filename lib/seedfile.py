#!/usr/bin/env python3
"""Development aid: file a confirmed seeded change under /verif/seeded/<id>/.
usage: seedfile.py ID PROPERTY DEMO_DEST NEEDS CONFIRMED DETECTED_BY"""
import json, os, shutil, sys
sid, prop, dest, needs, confirmed, detected = sys.argv[1:7]
d = "/verif/seeded/" + os.environ.get("SEEDNAME", sid)
os.makedirs(d, exist_ok=True)
shutil.copy(os.environ.get("SEEDDIR","/tmp/seed")+"/%s.patch" % sid, d + "/patch.diff")
shutil.copy(os.environ.get("SEEDDIR","/tmp/seed")+"/%s_demo_test.go" % sid, d + "/demo_test.go.txt")
json.dump({"id": os.environ.get("SEEDNAME", sid), "property": prop,
           "patch": "patch.diff (git -C /repo apply)",
           "demonstration": "demo_test.go.txt: copy to %s and run the go test command in its header; fails with the change, passes without" % dest,
           "needs_to_manifest": needs,
           "confirmed_by": confirmed,
           "detected_by": detected,
           "origin": "written by a fresh sub-agent that saw only the property text and a scratch worktree"},
          open(d + "/meta.json", "w"), indent=1)
print("filed", d)
