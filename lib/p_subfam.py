"""Subscribe family (C04, C05, C06 server part, C07, C08, C14 stream clause):
one driver (real cache.Cache + subscribe.Server + in-memory streams + writer
goroutines, random delays at the hook points), one property-level acceptance
specification (SubscribeTrace.tla) and the implementation-shaped model
Subscribe.tla with mutant configurations. A rejected event is attributed to the
property it breaks from the kind of event (this classification only routes the
report; the verdict is TLC's)."""
import json
import os
import time

import vlib


def is_boundary(e):
    return e.get("ev") == "config"


_DIAG = None


def diagnose(rej, scratch):
    """Re-validate the rejected scenario with DIAG=1; failing aspects of the last (quiesce) line."""
    import re
    os.makedirs(scratch, exist_ok=True)
    p = os.path.join(scratch, "diag-%d.ndjson" % (abs(hash((rej.file, rej.line_no))) % 10**9))
    with open(p, "w") as f:
        for e in rej.scenario:
            f.write(json.dumps(e) + "\n")
    try:
        r = vlib._validate_one("SubscribeTrace.tla", "SubscribeTrace.cfg", p, os.path.join(scratch, "d"), 300, "3g", False,
                               extra_env={"DIAG": "1"})
    except vlib.Infra:
        return None
    m = re.search(r'<<\s*"DIAG",\s*\[(.*?)\]\s*>>', r["out"], re.S)
    if not m:
        return None
    return {part.partition("|->")[0].strip() for part in m.group(1).split(",") if part.partition("|->")[2].strip() == "FALSE"}


def classify(rej, scratch=None):
    """Which properties does this rejected event break?"""
    e = rej.event
    ev = e.get("ev")
    cfg = rej.scenario[0] if rej.scenario and rej.scenario[0].get("ev") == "config" else {}
    subs = {}
    stalls = False
    for x in rej.scenario:
        if x.get("ev") == "substart":
            subs[x["s"]] = x
        if x.get("ev") == "stall":
            stalls = True
    s = subs.get(e.get("s"), {})
    mode = s.get("mode", "")
    if ev == "send":
        if cfg.get("acl_on") and "t" in e:
            allowed = any(a["u"] == s.get("user") and a["t"] == e["t"] for a in cfg.get("acl", []))
            if not allowed:
                return {"C07"}
        if cfg.get("acl_on") and s and (s.get("user") in cfg.get("acl_err", []) or
                                        (s.get("t") != "*" and not any(a["u"] == s.get("user") and a["t"] == s.get("t") for a in cfg.get("acl", [])))):
            return {"C07"}
        if e.get("k") == "sync" and s.get("uo"):
            return {"C04"}
        return {"C04"} if mode == "stream" else {"C05"}
    if ev == "quiesce":
        failing = diagnose(rej, scratch) if scratch else None
        if failing:
            props = set()
            if "conv" in failing:
                props |= {"C08", "C04"} if stalls else {"C04"}
                if "convkept" not in failing:
                    props |= {"C14"}   # only the view of a removed/reset target is wrong
            elif "cons" in failing:
                props |= {"C06", "C08"}
            elif "late" in failing:
                props |= {"C06"}
            if props:
                return props
        return {"C08", "C04"} if stalls else {"C04"}
    if ev == "subend":
        if cfg.get("acl_on") and e.get("code") in ("PermissionDenied", "Unauthenticated"):
            return {"C07"}
        if cfg.get("acl_on") and s and (s.get("user") in cfg.get("acl_err", []) or
                                        (s.get("t") != "*" and not any(a["u"] == s.get("user") and a["t"] == s.get("t") for a in cfg.get("acl", [])))):
            return {"C07"}
        if stalls:
            return {"C08"}
        props = {"C14", "C04"} if mode == "stream" else {"C05"}
        if e.get("code") not in ("OK", "Canceled", "NotFound"):
            props |= {"C08"}   # ended with an error although none of its sends was blocked (the timeout clause)
            if cfg.get("acl_on"):
                props |= {"C07"}   # an authorised subscriber's stream was ended: what it was owed is not delivered
        return props
    if ev == "hang":
        what = e.get("what", "")
        if "target was removed" in what:
            return {"C14"}
        if "ONCE" in what or "poll" in what:
            return {"C05"}
        if stalls or "writer" in what or "timed out" in what or "blocked" in what:
            return {"C08"}
        return {"C04"}
    if ev == "wret":
        # constraints on a writer's return: no notification offered twice to one client (C06); offered to exactly the
        # registered streams whose paths agree (C06) - a stream that is not offered what it is owed does not converge (C04)
        if any(f.get("maxoff", 0) > 1 for f in e.get("fed", [])):
            return {"C06"}
        return {"C06", "C04"}
    if ev in ("dupcheck", "offer"):
        return {"C06", "C08"} if ev == "dupcheck" else {"C06"}
    return set()


def signature(rej):
    e = rej.event
    ev = e.get("ev")
    if ev == "send":
        return "subscribe send k=%s aux=%s" % (e.get("k"), e.get("aux", False))
    if ev == "hang":
        return "subscribe hang: %s" % e.get("what")
    if ev == "subend":
        return "subscribe subend code=%s" % e.get("code")
    return "subscribe %s" % ev


def load_scenarios(tr_dir):
    sc = {}
    p = os.path.join(tr_dir, "scenarios.ndjson")
    if os.path.exists(p):
        with open(p) as f:
            for line in f:
                d = json.loads(line)
                sc[d["sc"]] = d
    return sc


def run_family(pid, tier, runs, models, rule, assumptions, shards=16, merge=False):
    """runs: list of (profile, n[, extra driver args]); models: list of (spec, cfg, expect_violation)."""
    t0 = time.time()
    work = vlib.workdir(pid + ("-sub" if merge else ""))
    drv = vlib.build_driver()
    outcome = vlib.Outcome(pid, tier)
    states = trans = 0
    mutants = []
    for spec, cfg, expect in models:
        mc = vlib.model_check(spec, cfg, os.path.join(work, "mc"), expect_violation=expect)
        if expect:
            mutants.append(cfg)
        else:
            states += mc["distinct"]
            trans += mc["generated"]
    files, scen, nsc, hangs = [], {}, 0, 0
    for i, run in enumerate(runs):
        profile, n = run[0], run[1]
        extra = list(run[2]) if len(run) > 2 else []
        tr = os.path.join(work, "traces-%d-%s" % (i, profile))
        mode = "patterns" if profile == "patterns" else "random"
        args = ["subscribe", mode, "-n", str(n), "-out", tr, "-shards", str(shards)] + extra
        if mode == "random":
            args += ["-profile", profile]
        d = vlib.drv_stats(vlib.run_driver(drv, args, env={"VERIF_GLOG_DIR": os.path.join(work, "glog")}, timeout=3000))
        nsc += d.get("scenarios", 0)
        hangs += d.get("hangs", 0)
        files += sorted(os.path.join(tr, f) for f in os.listdir(tr) if f.startswith("sub-"))
        for k, v in load_scenarios(tr).items():
            scen[(tr, k)] = v
    tv = time.time()
    stats, rejs = vlib.validate_traces("SubscribeTrace.tla", "SubscribeTrace.cfg", files, os.path.join(work, "val"), is_boundary,
                                       timeout=1800)
    other = {}
    for r in rejs:
        props = classify(r, os.path.join(work, "diag"))
        if not props:
            props = {pid}
        if pid in props:
            sc = scen.get((os.path.dirname(r.file), r.scenario[0].get("sc")), {})
            outcome.report(signature(r), dict(family="subscribe", scenario=sc, events=r.scenario, rejected_event=r.event,
                                              reason=r.reason, spec="SubscribeTrace.tla", trace_file=os.path.basename(r.file), line=r.line_no))
        else:
            k = ",".join(sorted(props))
            other[k] = other.get(k, 0) + 1
            if os.environ.get("VERIF_DEBUG_REJ"):   # development aid: keep what another property's check would report
                os.makedirs(os.environ["VERIF_DEBUG_REJ"], exist_ok=True)
                with open(os.path.join(os.environ["VERIF_DEBUG_REJ"], "%s-foreign-%s-%d.json" % (pid, k, other[k])), "w") as f:
                    json.dump(dict(props=sorted(props), rejected_event=r.event, reason=r.reason, events=r.scenario,
                                   scenario=scen.get((os.path.dirname(r.file), r.scenario[0].get("sc")), {})), f)
    for k, c in sorted(other.items()):
        vlib.log("NOTE: %d rejected event(s) break %s, not %s (run ./check %s)" % (c, k, pid, k.split(",")[0]))
    vlib.log("[validate] %d events in %d files, %d TLC runs, %d rejected (%.1fs)" % (
        stats["events"], stats["files"], stats["tlc_runs"], len(rejs), time.time() - tv))
    total, distinct = vlib.distinct_lines(files, trivial=lambda l: b'"aux":true' in l or b'"config"' in l or b'"end"' in l)
    rc = outcome.finish()
    vlib.write_evidence(pid, tier, "model_checking", dict(
        states=max(states, 1), transitions=max(trans, 1), traces_validated_against_impl=nsc,
        samples=vlib.sample_lines(files, 3, skip=lambda l: b'"send"' not in l or b'"aux":true' in l),
        evaluations=stats["events"], distinct_nontrivial=distinct, rule=rule, exhaustive=False,
        hangs=hangs, rejected=len(rejs), rejected_other_property=other, known_findings_hit=outcome.known, model_drift=0,
        mutant_configs_violated=mutants,
        checker_cmd="tlc %s; tlc SubscribeTrace.tla per shard" % ", ".join("%s/%s" % (m[0], m[1]) for m in models)),
        ["TLC and the TLA+ Json/IOUtils modules", "events are emitted under one mutex (file order = real-time order); a response is logged at Send entry",
         "quiescence is established by the driver with two awaited sentinel updates per target through the FIFO queues (no timing assumption); bound 10 s",
         "one writer goroutine per target (as in the collector); schedules are sampled with seeded delays at the hook points, not enumerated",
         "within a scenario a path holds either plain leaves or atomic containers (a queued leaf handle whose leaf changed kind in place is outside the stream properties)",
         "metadata and sentinel leaves are subject to the ACL rule only; no path-level origins (DESIGN note N1)"] + assumptions,
        time.time() - t0, len(outcome.violations), merge=merge)
    vlib.cleanup(pid + ("-sub" if merge else ""))
    return rc


def replay_family(pid, path):
    with open(path) as f:
        rp = json.load(f)
    work = vlib.workdir(pid + "-replay")
    drv = vlib.build_driver()
    outcome = vlib.Outcome(pid, "replay")
    files = []
    # 1. the recorded events are decisive by themselves
    rec = os.path.join(work, "recorded.ndjson")
    with open(rec, "w") as f:
        for e in rp.get("events", []):
            f.write(json.dumps(e) + "\n")
    files.append(rec)
    # 2. re-run the scenario (schedules vary) on the current tree
    if rp.get("scenario"):
        sc = os.path.join(work, "scenario.json")
        with open(sc, "w") as f:
            json.dump(rp["scenario"], f)
        out = os.path.join(work, "replay.ndjson")
        vlib.run_driver(drv, ["subscribe", "replay", "-scenario", sc, "-out", out, "-times", "30"],
                        env={"VERIF_GLOG_DIR": os.path.join(work, "glog")})
        files = [out]
    stats, rejs = vlib.validate_traces("SubscribeTrace.tla", "SubscribeTrace.cfg", files, os.path.join(work, "val"), is_boundary)
    for r in rejs:
        outcome.report(signature(r), dict(events=r.scenario, rejected_event=r.event))
    vlib.log("[replay] %d events, %d rejected" % (stats["events"], len(rejs)))
    return outcome.finish()


def race_stage(pid, tier, runs, pkgs=("subscribe", "coalesce", "match", "cache", "ctree")):
    """The subscribe driver built with -race: the detector monitors the same kind of executions; every report whose
    stacks run through the code under test is a violation (shared state written without synchronisation is how one
    subscriber's handling leaks into another's)."""
    import racelib
    t0 = time.time()
    work = vlib.workdir(pid + "-race")
    drv = vlib.build_driver(race=True)
    outcome = vlib.Outcome(pid, tier)
    nsc = 0
    sigs = {}
    for i, (profile, n) in enumerate(runs):
        rlog = os.path.join(work, "race%d" % i)
        d = vlib.drv_stats(vlib.run_driver(drv, ["subscribe", "random", "-profile", profile, "-n", str(n), "-out", os.path.join(work, "tr%d" % i), "-shards", "16"],
                                           env={"VERIF_GLOG_DIR": os.path.join(work, "glog"), "GORACE": "log_path=%s halt_on_error=0 exitcode=0" % rlog}, timeout=6000))
        nsc += d.get("scenarios", 0)
        for sig, cnt in racelib.parse_reports(rlog).items():
            sigs[sig] = sigs.get(sig, 0) + cnt
    for sig, cnt in sorted(sigs.items()):
        if any((p + ".") in sig for p in pkgs):
            outcome.report(sig, dict(family="race", signature=sig, count=cnt, report=racelib.REPORTS.get(sig, ""), note="Go race detector report while running 'verifdrv-race subscribe random'"))
        else:
            vlib.log("NOTE: race report outside the code under test ignored: %s" % sig)
    vlib.log("[race] %d subscribe scenarios under the race detector, %d distinct report signature(s)" % (nsc, len(sigs)))
    rc = outcome.finish()
    vlib.write_evidence(pid, tier, "model_checking", dict(
        states=1, transitions=1, traces_validated_against_impl=nsc, evaluations=nsc, distinct_nontrivial=nsc,
        rule="race stage: %s scenarios of the same driver executed by the race-detector build" % ", ".join("%d %s" % (n, p) for p, n in runs),
        exhaustive=False, race_signatures=sorted(sigs), known_findings_hit=outcome.known, model_drift=0,
        checker_cmd="verifdrv-race subscribe random"),
        ["the Go race detector reports only races that occur in the executions it monitors"],
        time.time() - t0, len(outcome.violations), merge=True)
    vlib.cleanup(pid + "-race")
    return rc
