#!/bin/sh
# Development aid: run the thorough tier of the given checks once; print verdict lines and wall time.
# usage: lib/sweepT.sh "C02 C03" [seed]
cd "$(dirname "$0")/.."
for p in $1; do
  VERIF_SEED=${2:-1} ./check $p --tier thorough 2>&1 | grep -E 'VIOLATION|signature|NOTE|KNOWN|INFRA|check\]' | cut -c1-220 | sed "s/^/[$p thorough] /"
done
