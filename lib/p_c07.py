"""C07 - subscribers never receive data for targets their ACL denies."""
import p_subfam as fam

PID = "C07"
MODELS = [("Subscribe.tla", "Subscribe_none.cfg", False)]
RULE = ("random scenarios with an ACL installed (random user x target tables over 2 users and 1-3 targets, occasionally a user whose per-call authorisation "
        "fails), all modes (ONCE/POLL/STREAM, updates_only), single-target and '*' subscriptions, writers on allowed and denied targets incl. deletes, Reset "
        "and Remove; TLC checks on every response handed to Send - data, deletes, metadata and the driver's sentinel leaves alike - that its target is "
        "authorised for the subscription's user, that a denied single-target call ends PermissionDenied (Unauthenticated when authorisation cannot be "
        "established) before anything was sent, and that allowed targets still converge/snapshot as in C04/C05. distinct_nontrivial = distinct non-auxiliary event lines")


def run(tier):
    runs = [("acl", 3000), ("idle", 64)] if tier == "quick" else [("acl", 120000), ("idle", 1280)]
    return fam.run_family(PID, tier, runs, MODELS, RULE, [], shards=16 if tier == "quick" else 48)


def replay(path):
    return fam.replay_family(PID, path)
