"""C19 - path indexing and value conversion are deterministic, faithful and total."""
import p_simple

PID = "C19"
EVS = ("tostrings", "complete", "query", "scalar", "equal")
RULE = ("%d random gNMI paths (elem or deprecated element form, 0-6 keys per element, UTF-8/empty/glob/slash names, target/origin present or not, nil path) each "
        "indexed 30 times on fresh proto objects (fresh maps, so Go's map-order randomisation is exercised) with and without the prefix header; %d "
        "prefix/path pairs over all origin combinations through CompletePath; %d client queries of plain elements (with '/', leading '/', '//') through "
        "ToSubscribeRequest -> wire -> ToStrings; %d Go scalars of every supported kind incl. extreme widths through FromScalar/ToScalar; all 32x32 pairs of a "
        "TypedValue universe (every oneof arm x 2 payloads, nil, empty, nil inner messages, nested lists) through Equal under recover(). TLC validates every "
        "line against the operators of PathValue.tla. distinct_nontrivial = distinct input/output lines")


def sig(r):
    e = r.event
    if e.get("ev") == "query" and any(x.endswith("/") for x in e.get("elems", [])):
        return "pathvalue query element-ending-in-slash"
    if e.get("ev") == "equal":
        return "pathvalue equal ab=%s ba=%s" % (e.get("ab"), e.get("ba"))
    return "pathvalue %s" % e.get("ev")


def run(tier):
    n = 3000 if tier == "quick" else 150000
    sh = "16" if tier == "quick" else "48"
    return p_simple.run(PID, tier, [("PathValue.tla", "PathValue.cfg", False)], [["pathvalue", "run", "-n", str(n), "-shards", sh]],
                        "PathValueTrace.tla", RULE % (n, n, n, n),
                        ["string order of key names is supplied as ranks computed by the driver (byte order)",
                         "float round trips are compared at the precision of the source type; IEEE semantics and Decimal64 rendering are opaque tokens",
                         "query elements are 'plain': non-empty, no whitespace, no [ ] \\\\"],
                        boundary=EVS, exhaustive=False, sig=sig, trivial=lambda l: False, sample_skip=lambda l: len(l) > 700)


def replay(path):
    return p_simple.replay_events(PID, path, "PathValueTrace.tla", boundary=EVS)
