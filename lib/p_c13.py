"""C13 - target manager: strict per-target session discipline; silence after Remove.

1. Manager.tla (implementation-shaped session automaton of one target with
   Remove/Reconnect/receive-timeout goroutines) is model-checked against the
   callback discipline ManagerDisc (shared with the trace acceptance),
   SilenceAfterRemove, and the liveness properties RemoveTerminates and
   Retried; three mutant configurations must yield counterexamples.
2. A real manager.Manager runs against scripted gNMI servers over localhost
   gRPC (k messages then error / EOF / silence beyond the receive timeout /
   long-lived), a connection manager that refuses some dials, 1-3 targets on
   1-2 servers, and a controller issuing Add / Remove / Reconnect (also for
   unknown and duplicate targets) at random moments; every callback and call
   is validated by TLC against ManagerTrace.tla.
"""
import json
import os
import time

import vlib

PID = "C13"
TIERS = {"quick": dict(n=600, shards=32), "thorough": dict(n=12000, shards=64)}


def is_boundary(e):
    return e.get("ev") == "reset"


def run(tier):
    t0 = time.time()
    T = TIERS[tier]
    work = vlib.workdir(PID)
    drv = vlib.build_driver()
    outcome = vlib.Outcome(PID, tier)
    mc = vlib.model_check("Manager.tla", "Manager_none.cfg", os.path.join(work, "mc"))
    mutants = ["connect_on_open", "no_reset_on_eof", "remove_no_wait", "remove_unlocks_early"]
    for m in mutants:
        vlib.model_check("Manager.tla", "Manager_%s.cfg" % m, os.path.join(work, "mcm"), expect_violation=True)
    tr = os.path.join(work, "traces")
    d = vlib.drv_stats(vlib.run_driver(drv, ["manager", "random", "-n", str(T["n"]), "-out", tr, "-shards", str(T["shards"])],
                                       env={"VERIF_GLOG_DIR": os.path.join(work, "glog")}, timeout=3000))
    files = sorted(os.path.join(tr, f) for f in os.listdir(tr) if f.startswith("mgr-"))
    stats, rejs = vlib.validate_traces("ManagerTrace.tla", "ManagerTrace.cfg", files, os.path.join(work, "val"), is_boundary)
    for r in rejs:
        e = r.event
        sig = "manager hang: %s" % e.get("what") if e.get("ev") == "hang" else "manager %s %s" % (e.get("ev"), e.get("k", e.get("op", "")))
        outcome.report(sig, dict(family="manager", events=r.scenario, rejected_event=e, reason=r.reason, spec="ManagerTrace.tla"))
    vlib.log("[validate] %d events, %d rejected" % (stats["events"], len(rejs)))
    total, distinct = vlib.distinct_lines(files, trivial=lambda l: b'"reset"' in l or b'"srv"' in l)
    rc = outcome.finish()
    vlib.write_evidence(PID, tier, "model_checking", dict(
        states=mc["distinct"], transitions=mc["generated"], traces_validated_against_impl=d.get("scenarios", 0),
        samples=vlib.sample_lines(files, 4, skip=lambda l: b'"cb"' not in l),
        evaluations=stats["events"], distinct_nontrivial=distinct,
        rule="%d scenarios: 1-3 targets on 1-2 scripted gRPC servers, 1-4 scripted sessions each (0-3 updates/syncs then error/EOF/silence/long), dial refusal "
             "0-40 %%, receive timeout 60 ms, back-off 5-20 ms, 2-8 controller steps (Reconnect/Remove/re-Add/unknown target) 0-40 ms apart, then a forced "
             "reconnect per managed target (a new session must open within 5 s) and Remove of everything; distinct_nontrivial = distinct callback/call event lines" % T["n"],
        exhaustive=False, hangs=d.get("hangs", 0), rejected=len(rejs), known_findings_hit=outcome.known, model_drift=0,
        mutant_configs_violated=["Manager_%s.cfg" % m for m in mutants],
        checker_cmd="tlc Manager.tla (4 cfgs incl. liveness); tlc ManagerTrace.tla per shard"),
        ["TLC and the TLA+ Json/IOUtils modules", "callbacks are logged inside the callback under one mutex (file order = real-time order)",
         "Add/Remove/Reconnect are issued by one controller goroutine (not from inside callbacks)",
         "timing bounds: 5 s for a retry with a 20 ms maximum back-off, 10 s for any call to return"],
        time.time() - t0, len(outcome.violations))
    vlib.cleanup(PID)
    return rc


def replay(path):
    with open(path) as f:
        rp = json.load(f)
    work = vlib.workdir(PID + "-replay")
    out = os.path.join(work, "replay.ndjson")
    with open(out, "w") as f:
        for e in rp["events"]:
            f.write(json.dumps(e) + "\n")
    outcome = vlib.Outcome(PID, "replay")
    stats, rejs = vlib.validate_traces("ManagerTrace.tla", "ManagerTrace.cfg", [out], os.path.join(work, "val"), is_boundary)
    for r in rejs:
        outcome.report("manager %s" % r.event.get("ev"), dict(events=r.scenario, rejected_event=r.event))
    vlib.log("[replay] %d recorded events re-validated, %d rejected" % (stats["events"], len(rejs)))
    return outcome.finish()
