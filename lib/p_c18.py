"""C18 - client Subscribe/Close always terminate; reconnect keeps callback discipline.

1. Reconnect.tla (Subscribe loop x Close, one action per step / locked
   section) is model-checked incl. liveness (Close returns, Subscribe returns
   whatever the moment Close is called, an unclosed client keeps retrying) and
   two mutant configurations must yield counterexamples.
2. Real client.Reconnect(&client.BaseClient{}) with (a) a scripted Impl whose
   New/Subscribe/Recv follow a script and honour cancellation, Close fired at
   every kind of point (before Subscribe, inside New/Subscribe/Recv, while
   blocked, in the disconnect/reset callbacks, during the back-off sleep), and
   (b) the real gnmi Impl against a scripted gRPC server; TLC validates the
   recorded events against ReconnectTrace.tla; overdue calls are 'hang' events.
"""
import json
import os
import time

import vlib

PID = "C18"
TIERS = {"quick": dict(n=448, real=96, shards=32), "thorough": dict(n=9000, real=1500, shards=48)}


def is_boundary(e):
    return e.get("ev") == "reset"


def run(tier):
    t0 = time.time()
    T = TIERS[tier]
    work = vlib.workdir(PID)
    drv = vlib.build_driver()
    outcome = vlib.Outcome(PID, tier)
    mc = vlib.model_check("Reconnect.tla", "Reconnect_none.cfg", os.path.join(work, "mc"))
    mutants = ["no_closed_check", "no_disconnect_on_cancel"]
    for m in mutants:
        vlib.model_check("Reconnect.tla", "Reconnect_%s.cfg" % m, os.path.join(work, "mcm"), expect_violation=True)
    tr = os.path.join(work, "traces")
    d = vlib.drv_stats(vlib.run_driver(drv, ["reconnect", "random", "-n", str(T["n"]), "-real", str(T["real"]), "-out", tr, "-shards", str(T["shards"])],
                                       env={"VERIF_GLOG_DIR": os.path.join(work, "glog")}, timeout=3000))
    files = sorted(os.path.join(tr, f) for f in os.listdir(tr) if f.startswith("rec-"))
    stats, rejs = vlib.validate_traces("ReconnectTrace.tla", "ReconnectTrace.cfg", files, os.path.join(work, "val"), is_boundary)
    for r in rejs:
        e = r.event
        sig = "client hang: %s" % e.get("what") if e.get("ev") == "hang" else "client %s %s" % (e.get("ev"), e.get("k", e.get("op", "")))
        outcome.report(sig, dict(family="reconnect", events=r.scenario, rejected_event=e, reason=r.reason, spec="ReconnectTrace.tla"))
    vlib.log("[validate] %d events, %d rejected" % (stats["events"], len(rejs)))
    total, distinct = vlib.distinct_lines(files, trivial=lambda l: b'"reset"' in l or b'"srv"' in l)
    # scenarios as event-kind words: distinct words = distinct non-trivial cases
    rc = outcome.finish()
    vlib.write_evidence(PID, tier, "model_checking", dict(
        states=mc["distinct"], transitions=mc["generated"], traces_validated_against_impl=d.get("scenarios", 0),
        samples=vlib.sample_lines(files, 4, skip=lambda l: b'"reset"' in l or b'"srv"' in l),
        evaluations=stats["events"], distinct_nontrivial=distinct,
        rule="%d scenarios with a scripted Impl (1-3 failing attempts: dial error / subscribe error / 0-2 messages then error or EOF; then a blocking one; "
             "Close fired at one of: before Subscribe, new_k, sub_k, recv_k, block, D_k, R_k, during sleep_k) and %d with the real gnmi Impl against a "
             "scripted gRPC server (1-3 sessions of 0-3 messages ending in error/EOF, Close after 0-1.5 s); RetryBaseDelay 20 ms, RetryMaxDelay 40 ms; "
             "distinct_nontrivial = distinct event lines other than markers" % (T["n"], T["real"]),
        exhaustive=False, hangs=d.get("hangs", 0), rejected=len(rejs), known_findings_hit=outcome.known, model_drift=0,
        mutant_configs_violated=["Reconnect_%s.cfg" % m for m in mutants],
        checker_cmd="tlc Reconnect.tla (3 cfgs incl. liveness); tlc ReconnectTrace.tla per shard"),
        ["TLC and the TLA+ Json/IOUtils modules", "the scripted Impl honours context cancellation and Close like a real transport",
         "termination bound after Close: 750 ms (first back-off, DESIGN note N5) + 20x RetryMaxDelay + 5 s",
         "events are logged under one mutex (file order = real-time order)"],
        time.time() - t0, len(outcome.violations))
    vlib.cleanup(PID)
    return rc


def replay(path):
    with open(path) as f:
        rp = json.load(f)
    work = vlib.workdir(PID + "-replay")
    out = os.path.join(work, "replay.ndjson")
    with open(out, "w") as f:
        for e in rp["events"]:
            f.write(json.dumps(e) + "\n")
    outcome = vlib.Outcome(PID, "replay")
    stats, rejs = vlib.validate_traces("ReconnectTrace.tla", "ReconnectTrace.cfg", [out], os.path.join(work, "val"), is_boundary)
    for r in rejs:
        outcome.report("client %s" % r.event.get("ev"), dict(events=r.scenario, rejected_event=r.event))
    vlib.log("[replay] %d recorded events re-validated, %d rejected" % (stats["events"], len(rejs)))
    return outcome.finish()
