#!/bin/sh
# Development aid: run the quick tier of the given checks with several seeds; print only verdict lines.
# usage: lib/sweep.sh "C02 C03" "1 2 3"
cd "$(dirname "$0")/.."
for p in $1; do for s in $2; do
  VERIF_SEED=$s ./check $p --tier quick 2>&1 | grep -E 'VIOLATION|signature|NOTE|KNOWN|INFRA|check\]' | sed "s/^/[$p seed=$s] /"
done; done
