"""C04 - STREAM subscribers converge to the cache; sync marks the initial snapshot."""
import p_subfam as fam

PID = "C04"
MODELS = [("Subscribe.tla", "Subscribe_none.cfg", False), ("Subscribe.tla", "Subscribe_register_after_walk.cfg", True),
          ("Subscribe.tla", "Subscribe_sync_before_walk.cfg", True), ("Subscribe.tla", "Subscribe_queue_values.cfg", True),
          # updates_only subscriptions: no walk, the sync marker queued before the registration (UOSyncFirst)
          ("Subscribe.tla", "Subscribe_uo.cfg", False), ("Subscribe.tla", "Subscribe_uo_sync_after_register.cfg", True)]
RULE = ("random scenarios on a real cache.Cache + subscribe.Server: 1-3 targets each with its own writer goroutine (updates, deletes, wildcard deletes, "
        "multi/atomic notifications, re-adds, Reset, lifecycle calls), 1-3 subscribers (STREAM incl. updates_only, some ONCE/POLL) over 1-2 subscription "
        "paths with globs, single target or '*', started at arbitrary moments in 1-3 phases, random delays at the hook points (registration, walk begin/end, "
        "feed, dequeue); after every phase the driver establishes quiescence and TLC checks on the recorded events that each response carries a value the "
        "leaf held, that exactly one sync follows the snapshot, and that replaying each live subscriber's responses equals the cache's matching content. "
        "distinct_nontrivial = distinct non-auxiliary event lines")


def run(tier):
    runs = ([("stream", 3000), ("remove", 600), ("idle", 48), ("stall", 300)] if tier == "quick"
            else [("stream", 120000), ("remove", 20000), ("idle", 960), ("stall", 10000)])
    return fam.run_family(PID, tier, runs, MODELS, RULE, [], shards=16 if tier == "quick" else 48)


def replay(path):
    return fam.replay_family(PID, path)
