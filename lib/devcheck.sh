#!/bin/bash
# Development aid: run checks on /repo without touching .work/, evidence/ or replays/ (e.g. while a sweep is running).
# usage: lib/devcheck.sh <tier> <check id>...
TIER=$1; shift
export VERIF_WORK=/tmp/devwork-$$/work VERIF_EVIDENCE=/tmp/devwork-$$/evidence VERIF_REPLAYS=/tmp/devwork-$$/replays
mkdir -p $VERIF_WORK $VERIF_EVIDENCE $VERIF_REPLAYS
trap 'find /tmp/devwork-$$ -delete 2>/dev/null' EXIT
for id in "$@"; do
  /verif/check $id --tier $TIER 2>&1 | grep -E 'VIOLATION|KNOWN-FINDING|^\[check\]|Infra|INFRA|signature|NOTE|Traceback|Error' | cut -c1-260 | head -12
  [ -n "$KEEPREPLAY" ] && cp $VERIF_REPLAYS/* /tmp/ 2>/dev/null
done
