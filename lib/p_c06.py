"""C06 - streaming filter consistent with queries; one delivery per notification.

Stage 1 (match.Match): Match.tla model-checked (offers only to registered
clients, at most once, removal isolated; QueryMatch => Agree over all paths to
length 4); on the real registry the full (query, update path) pair space and
random add/remove/update sequences are validated against MatchTrace.tla.
Stage 2 (subscribe.Server): scenarios with overlapping subscription paths;
deliveries incl. duplicates must equal the offers per leaf, and a subscription's
queue must not be offered anything after its RPC returned ('offer' hook).
"""
import os
import time

import vlib
import p_subfam as sub

PID = "C06"


def is_boundary(e):
    return e.get("ev") in ("reset", "pair")


def run(tier):
    t0 = time.time()
    work = vlib.workdir(PID)
    drv = vlib.build_driver()
    outcome = vlib.Outcome(PID, tier)
    mc1 = vlib.model_check("Match.tla", "Match.cfg", os.path.join(work, "mc"))
    mc2 = vlib.model_check("Match.tla", "MatchRel.cfg", os.path.join(work, "mc"))
    tr = os.path.join(work, "traces")
    sh = "16" if tier == "quick" else "48"
    d1 = vlib.drv_stats(vlib.run_driver(drv, ["match", "pairs", "-names", "a,b,*", "-max", "4", "-out", tr, "-shards", sh]))
    n, ln = (600, 120) if tier == "quick" else (30000, 150)
    d2 = vlib.drv_stats(vlib.run_driver(drv, ["match", "rand", "-n", str(n), "-len", str(ln), "-out", tr, "-shards", sh]))
    files = sorted(os.path.join(tr, f) for f in os.listdir(tr) if f.endswith(".ndjson"))
    stats, rejs = vlib.validate_traces("MatchTrace.tla", "MatchTrace.cfg", files, os.path.join(work, "val"), is_boundary)
    for r in rejs:
        e = r.event
        outcome.report("match %s" % e.get("ev"), dict(family="match", events=r.scenario[-30:], rejected_event=e, reason=r.reason,
                                                       spec="MatchTrace.tla"))
    vlib.log("[validate] %d events, %d rejected" % (stats["events"], len(rejs)))
    total, distinct = vlib.distinct_lines(files, trivial=lambda l: b'"reset"' in l)
    rc1 = outcome.finish()
    vlib.write_evidence(PID, tier, "model_checking", dict(
        states=mc1["distinct"] + mc2["distinct"], transitions=mc1["generated"] + mc2["generated"],
        traces_validated_against_impl=d1.get("pairs", 0) + d2.get("sequences", 0),
        samples=vlib.sample_lines(files, 3, skip=lambda l: b'"reset"' in l),
        evaluations=stats["events"], distinct_nontrivial=distinct,
        rule="stage 1: all 121x121 (query, update path) pairs of length <=4 over {a,b,*} on a fresh match.Match (exhaustive) and %d random sequences of "
             "AddQuery/remove/Update/UpdateOnce by 1-4 clients (idempotent and repeated removes included), per-client delivery counts validated by TLC "
             "against MatchTrace.tla; distinct_nontrivial = distinct event lines other than reset" % n,
        exhaustive=True, rejected=len(rejs), known_findings_hit=outcome.known, model_drift=0,
        checker_cmd="tlc Match.tla (Match.cfg, MatchRel.cfg); tlc MatchTrace.tla per shard"),
        ["TLC and the TLA+ Json/IOUtils modules", "counting clients record every invocation of Client.Update"],
        time.time() - t0, len(outcome.violations))
    vlib.cleanup(PID)
    rc2 = sub.run_family(PID, tier, [("overlap", 2000 if tier == "quick" else 80000), ("remove", 800 if tier == "quick" else 30000)], [("Subscribe.tla", "Subscribe_none.cfg", False)],
                         "stage 2: random subscribe scenarios whose subscribers carry overlapping subscription paths (a path, one of its prefixes, a glob "
                         "variant) plus multi-update notifications; between quiescent points the deliveries per leaf incl. the reported duplicates must equal "
                         "the updates offered (each notification offered to a subscriber at most once), and the 'offer' hook must see no offer to a "
                         "subscription's queue after its RPC returned - also not after a stream that lost the race with the removal of its target was refused and the "
                         "target came back (profile 'remove') (SubscribeTrace.tla)", [], shards=int(sh), merge=True)
    return max(rc1, rc2)


def replay(path):
    import json
    with open(path) as f:
        rp = json.load(f)
    if rp.get("family") == "subscribe":
        return sub.replay_family(PID, path)
    work = vlib.workdir(PID + "-replay")
    out = os.path.join(work, "replay.ndjson")
    with open(out, "w") as f:
        for e in rp["events"]:
            f.write(json.dumps(e) + "\n")
    outcome = vlib.Outcome(PID, "replay")
    stats, rejs = vlib.validate_traces("MatchTrace.tla", "MatchTrace.cfg", [out], os.path.join(work, "val"), is_boundary)
    for r in rejs:
        outcome.report("match %s" % r.event.get("ev"), dict(events=r.scenario, rejected_event=r.event))
    return outcome.finish()
