"""C11 - coalescing queue: first-insertion order, exact duplicate counts, no
loss at close, no lost wake-up.

1. TLC: Coalesce.tla (sequential semantics, conservation, FIFO stability) and
   CoalesceChan.tla (mutex + token channel + closed broadcast, producers x
   consumer x closer x canceller; safety and liveness), plus two mutant
   configurations that must produce counterexamples.
2. Real coalesce.Queue: every sequence of length L over {Insert a/b/c, Next,
   Close, IsClosed}, seeded random long sequences (validated linearly against
   CoalesceTrace.tla), and concurrent histories with hook-point delays
   (validated against CoalesceLin.tla, TLC infers the linearization points);
   a consumer that is not woken within 5 s is logged as a 'hang' event, which
   no specification action accepts.
"""
import json
import os
import time

import vlib

PID = "C11"
TIERS = {
    "quick": dict(seq_len=5, rand_n=200, rand_len=200, conc_n=6000, shards=16),
    "thorough": dict(seq_len=6, rand_n=4000, rand_len=300, conc_n=150000, shards=48),
}


def is_boundary(e):
    return e.get("ev") == "reset"


def signature(kind, rej):
    e = rej.event
    if e.get("ev") == "hang":
        return "coalesce hang: %s" % e.get("what")
    if kind == "conc":
        return "coalesce history: %s %s %s" % (e.get("ev"), e.get("op", ""), json.dumps(e.get("res", ""), sort_keys=True))
    return "coalesce sequential: %s %s" % (e.get("ev"), e.get("res", e.get("kind", "")))


def run(tier):
    t0 = time.time()
    T = TIERS[tier]
    work = vlib.workdir(PID)
    drv = vlib.build_driver()
    outcome = vlib.Outcome(PID, tier)

    mc1 = vlib.model_check("Coalesce.tla", "Coalesce.cfg", os.path.join(work, "mc1"))
    mc2 = vlib.model_check("CoalesceChan.tla", "CoalesceChan_none.cfg", os.path.join(work, "mc2"))
    for m in ("token_before_insert", "no_len_recheck"):
        vlib.model_check("CoalesceChan.tla", "CoalesceChan_%s.cfg" % m, os.path.join(work, "mcm"), expect_violation=True)

    tr = os.path.join(work, "traces")
    sh = str(T["shards"])
    d = {}
    d.update(vlib.drv_stats(vlib.run_driver(drv, ["coalesce", "seq", "-len", str(T["seq_len"]), "-out", tr, "-shards", sh])))
    seqs = d.get("sequences", 0)
    d2 = vlib.drv_stats(vlib.run_driver(drv, ["coalesce", "rand", "-n", str(T["rand_n"]), "-len", str(T["rand_len"]), "-out", tr, "-shards", sh]))
    d3 = vlib.drv_stats(vlib.run_driver(drv, ["coalesce", "conc", "-n", str(T["conc_n"]), "-out", tr, "-shards", sh]))
    # bounded exhaustive enumeration of schedules on the real queue (gate scheduler at the call boundaries and the three hook points)
    d4 = vlib.drv_stats(vlib.run_driver(drv, ["coalesce", "enum", "-out", tr, "-shards", sh] + (["-big", "-max", "20000"] if tier == "thorough" else []), timeout=3000))
    # duels: producers released together by a spin barrier inserting (mostly) the same item; distinct outcomes only
    d5 = vlib.drv_stats(vlib.run_driver(drv, ["coalesce", "duel", "-n", str(60000 if tier == "quick" else 1500000), "-out", tr, "-shards", sh], timeout=3000))
    lin_files = sorted(os.path.join(tr, f) for f in os.listdir(tr) if f.startswith(("seq-", "rand-")))
    conc_files = sorted(os.path.join(tr, f) for f in os.listdir(tr) if f.startswith(("conc-", "enum-", "duel-")))

    tv = time.time()
    s1, r1 = vlib.validate_traces("CoalesceTrace.tla", "CoalesceTrace.cfg", lin_files, os.path.join(work, "v1"), is_boundary)
    s2, r2 = vlib.validate_traces("CoalesceLin.tla", "CoalesceLin.cfg", conc_files, os.path.join(work, "v2"), is_boundary, deque=True)
    for kind, rejs in (("seq", r1), ("conc", r2)):
        for r in rejs:
            outcome.report(signature(kind, r), dict(family="coalesce", kind=kind, events=r.scenario, rejected_event=r.event,
                                                    reason=r.reason, trace_file=os.path.basename(r.file), line=r.line_no,
                                                    spec="CoalesceTrace.tla" if kind == "seq" else "CoalesceLin.tla"))
    vlib.log("[validate] %d sequential events, %d history events, %d rejected (%.1fs)" % (
        s1["events"], s2["events"], len(r1) + len(r2), time.time() - tv))
    total, distinct = vlib.distinct_lines(lin_files + conc_files, trivial=lambda l: b'"reset"' in l)
    # distinct histories (as event-sequence hashes) are the non-trivial cases of the concurrent part
    rc = outcome.finish()
    vlib.write_evidence(PID, tier, "model_checking", dict(
        states=mc1["distinct"] + mc2["distinct"], transitions=mc1["generated"] + mc2["generated"],
        traces_validated_against_impl=seqs + d2.get("sequences", 0) + d3.get("histories", 0) + d4.get("histories", 0),
        enumerated_schedules=d4.get("schedules", 0), enumerated_distinct_histories=d4.get("histories", 0),
        duel_rounds=d5.get("rounds", 0), duel_distinct_histories=d5.get("histories", 0),
        samples=vlib.sample_lines(conc_files, 3, skip=lambda l: b'"reset"' in l or b'"inv"' in l),
        evaluations=s1["events"] + s2["events"], distinct_nontrivial=distinct,
        rule="every sequence of length %d over {Insert a/b/c, Next, Close, IsClosed} (exhaustive), %d random sequences of length %d over up to 8 items, "
             "and %d concurrent histories (1-4 producers x 1-4 inserts over 1-3 items, one consumer, close/cancel at arbitrary moments or right after the last "
             "insert, random delays at the hook points insert.checked / insert.done / next.empty); plus EVERY schedule (%d runs, %d distinct histories) of %d small "
             "programs (1-2 producers with 1-2 inserts, a consumer with 2-3 Next calls, a closer) under a gate scheduler that parks every goroutine before each call "
             "and at the three hook points and lets exactly one run at a time (stateless depth-first search over the choices); distinct_nontrivial = distinct event lines other than reset"
             % (T["seq_len"], T["rand_n"], T["rand_len"], T["conc_n"], d4.get("schedules", 0), d4.get("histories", 0), d4.get("programs", 0)),
        exhaustive=True, hangs=d3.get("hangs", 0) + d4.get("hangs", 0), rejected=len(r1) + len(r2), known_findings_hit=outcome.known, model_drift=0,
        mutant_configs_violated=["CoalesceChan_token_before_insert.cfg", "CoalesceChan_no_len_recheck.cfg"],
        checker_cmd="tlc Coalesce.tla; tlc CoalesceChan.tla (3 cfgs); tlc CoalesceTrace.tla / CoalesceLin.tla per shard (StateDeque)"),
        ["TLC and the TLA+ Json/IOUtils modules", "events are emitted under one mutex, so the file order is a real-time order",
         "a consumer still inside Next 5 s after everything else finished is a hang",
         "enumeration: a goroutine released from the next.empty gate that has not parked again within 2 ms is taken to be inside Next's select (the only blocking point); "
         "a consumer asleep there for 200 ms with items pending or the queue closed is a hang",
         "an Insert overlapping Close may be accepted and never delivered (the property grants it, DESIGN note N4)"],
        time.time() - t0, len(outcome.violations))
    vlib.cleanup(PID)
    return rc


def replay(path):
    """Re-validate the recorded events (concurrent schedules do not recur on demand)."""
    with open(path) as f:
        rp = json.load(f)
    work = vlib.workdir(PID + "-replay")
    out = os.path.join(work, "replay.ndjson")
    with open(out, "w") as f:
        for e in rp["events"]:
            f.write(json.dumps(e) + "\n")
    spec = rp.get("spec", "CoalesceLin.tla")
    outcome = vlib.Outcome(PID, "replay")
    stats, rejs = vlib.validate_traces(spec, spec.replace(".tla", ".cfg"), [out], os.path.join(work, "val"), is_boundary, deque=True)
    for r in rejs:
        outcome.report(signature("conc" if "Lin" in spec else "seq", r), dict(events=r.scenario, rejected_event=r.event))
    vlib.log("[replay] %d recorded events re-validated, %d rejected" % (stats["events"], len(rejs)))
    return outcome.finish()
