"""C15 - see p_cachefam.py (cache family) and DESIGN.md section 5/C15."""
import p_cachefam as fam

PID = "C15"
RULE = "seeded random call sequences (profile 'meta': updates/deletes interleaved with Sync/Connect/ConnectError/Reset/UpdateMetadata/UpdateSize and empty notifications); after every call the metadata counters of every target (leaves, added, deleted, updated, suppressed, stale, future, empty, sync, connected, connectError) are read through Cache.Metadata() and the exported meta/... leaves are read through Query, and TLC validates them against the counters of Cache.tla. distinct_nontrivial = distinct (call, result, feed, content) lines with non-empty content"


def run(tier):
    n, length = (480, 60) if tier == "quick" else (12000, 80)
    cfg = "CacheMC_C15.cfg" if tier == "quick" else "CacheMC_C15_thorough.cfg"
    return fam.run_family(PID, tier, 'meta', n, length, cfg, RULE, shards=16 if tier == "quick" else 48)


def replay(path):
    return fam.replay_family(PID, path)
