"""C15 - per-target metadata counters and latency statistics are truthful.

Stage 1: cache family (p_cachefam.py, CacheTrace.tla): counters, leaf count, latest timestamp, lifecycle
metadata and the UpdateMetadata/UpdateSize exports after every call.
Stage 2: latency clause.  Latency.tla (batch, slots, slide, export - shaped like latency.Latency) is
model-checked for Bounded (every exported statistic lies between the extremes of the samples observed in the
window, the average up to the precision) and Window (the samples accounted to a window are all those inside it
and none from before the update preceding its left edge), with three mutants that must violate them; the real
latency.Latency is then driven with a stubbed clock and every export validated by LatencyTrace.tla, which states
Bounded over the recorded samples only (it does not replay the implementation's slots).
Stage 3: concurrent-refresh clause (conc_stage).
Stage 4: latency clause at cache level (cache lat driver, CacheLatTrace.tla): what the cache feeds into its latency
windows - only the target's own post-sync updates - judged on the latency leaves it exports after each refresh.
"""
import json
import os
import time

import p_cachefam as fam
import p_simple
import racelib
import vlib

PID = "C15"
RULE = "seeded random call sequences (profile 'meta': updates/deletes interleaved with Sync/Connect/ConnectError/Reset/UpdateMetadata/UpdateSize and empty notifications); after every call the metadata counters of every target (leaves, added, deleted, updated, suppressed, stale, future, empty, sync, connected, connectError) are read through Cache.Metadata() and the exported meta/... leaves are read through Query, and TLC validates them against the counters of Cache.tla. distinct_nontrivial = distinct (call, result, feed, content) lines with non-empty content"
LAT_RULE = ("latency clause: %d scenarios on the real latency.Latency with a stubbed clock: 1-3 windows (1-8 update periods), averaging precision 1/10/1000 ns, "
            "10-50 calls mixing Compute (latencies around a scenario base, with zero, negative (device clock ahead) and outlier values, at clock advances of "
            "0, 1 ns, 1/4 and 1/2 period) and UpdateReset/UpdateLast at regular or irregular advances (0 .. 5 periods); TLC validates every exported "
            "avg/max/min against the extremes of the samples recorded since the update that precedes the window's left edge (LatencyTrace.tla)")
CLAT_RULE = ("latency clause at cache level: %d scenarios on a real cache.Cache created with latency windows 2s/4s/6s (refresh period 2 s), manual clock behind "
             "cache.Now/latency.Now, 20-80 calls mixing target updates whose timestamps lie a chosen latency (a band of the scenario, 0.2-7 s) behind the clock, "
             "Sync/Connect/Reset, clock advances and the periodic UpdateMetadata (+UpdateSize); after every refresh the exported meta/latency/window/<w>/{avg,max,min} "
             "leaves are read back and TLC (CacheLatTrace.tla) requires each to lie between the smallest and largest latency of the target's own updates accepted "
             "while in sync, and nothing to be exported before there is one")


def run(tier):
    n, length = (480, 60) if tier == "quick" else (12000, 80)
    cfg = "CacheMC_C15.cfg" if tier == "quick" else "CacheMC_C15_thorough.cfg"
    rc1 = fam.run_family(PID, tier, 'meta', n, length, cfg, RULE, shards=16 if tier == "quick" else 48)
    ln = 1500 if tier == "quick" else 60000
    models = [("LatencyMC.tla", "Latency.cfg" if tier == "quick" else "Latency_thorough.cfg", False), ("LatencyMC.tla", "Latency_prec.cfg" if tier == "quick" else "Latency_prec_thorough.cfg", False),
              ("LatencyMC.tla", "Latency_no_reset.cfg", True), ("LatencyMC.tla", "Latency_late_slide.cfg", True),
              ("LatencyMC.tla", "Latency_unscaled_avg.cfg", True)]
    rc2 = p_simple.run(PID, tier, models, [["latency", "run", "-n", str(ln), "-shards", "16" if tier == "quick" else "48"]],
                       "LatencyTrace.tla", LAT_RULE % ln,
                       ["latency clause: 'observed in that window' is taken at the granularity of the update calls (a slot that straddles the window's "
                        "left edge counts as inside, as the implementation's slots do); the initial-coverage rule only delays exports and is not checked",
                        "values stay below 2^31 (TLC integers): period 1000 ns, latencies up to ~10^5 ns",
                        ],
                       boundary=("cfg",), count_keys=("scenarios",), sig=lambda r: "latency %s" % r.event.get("ev"),
                       trivial=lambda l: b'"ev":"cfg"' in l, merge=True, stage="-lat")
    rc3 = conc_stage(tier)
    cn = 300 if tier == "quick" else 12000
    rc4 = p_simple.run(PID, tier, [], [["cache", "lat", "-n", str(cn), "-shards", "8" if tier == "quick" else "32"]],
                       "CacheLatTrace.tla", CLAT_RULE % cn,
                       ["cache-level latency clause: the bound is over all samples of the scenario so far, not per window (the window arithmetic is decided on "
                        "latency.Latency by the latency stage); an accepted update while in sync is a possible sample whether or not the implementation records it"],
                       boundary=("latcfg",), count_keys=("scenarios",), sig=lambda r: "cache latency %s" % r.event.get("ev"),
                       trivial=lambda l: b'"ev":"latcfg"' in l or b'"exports":[]' in l, merge=True, stage="-clat", crash_pkg="cache")
    return max(rc1, rc2, rc3, rc4)


def conc_stage(tier):
    """Concurrent-refresh clause: one update stream per target concurrently with UpdateMetadata/UpdateSize/readers, run with the
    race-detector build (its reports are observations of these executions); the counters read back at rest are validated by TLC."""
    t0 = time.time()
    work = vlib.workdir(PID + "-conc")
    drv_race = vlib.build_driver(race=True)
    outcome = vlib.Outcome(PID, tier)
    n = 400 if tier == "quick" else 20000
    rlog = os.path.join(work, "race")
    tr = os.path.join(work, "traces")
    try:
        d = vlib.drv_stats(vlib.run_driver(drv_race, ["cache", "conc", "-n", str(n), "-out", tr, "-shards", "8"],
                                           env={"GORACE": "log_path=%s halt_on_error=0 exitcode=0" % rlog}, timeout=6000, crash_ok=True))
    except vlib.DriverCrash as ex:
        # e.g. the runtime's "fatal error: concurrent map read and map write" inside the code under test
        s = vlib.repo_panic(ex.stderr, "cache") or vlib.repo_panic(ex.stderr, "metadata") or vlib.repo_panic(ex.stderr, "latency")
        if not s:
            raise vlib.Infra("concurrent cache driver crashed outside the code under test:\n" + ex.stderr[-3000:])
        outcome.report("crash: " + s, dict(family="cacheconc", panic=ex.stderr[-6000:]))
        d = {}
    races = racelib.parse_reports(rlog)
    for sig, cnt in sorted(races.items()):
        outcome.report(sig, dict(family="race", signature=sig, count=cnt, report=racelib.REPORTS.get(sig, ""), note="Go race detector report while running 'verifdrv-race cache conc'"))
    files = sorted(os.path.join(tr, f) for f in os.listdir(tr) if f.endswith(".ndjson")) if os.path.isdir(tr) else []
    stats, rejs = vlib.validate_traces("CacheConcTrace.tla", "CacheConcTrace.cfg", files, os.path.join(work, "val"), lambda e: True)
    for r in rejs:
        outcome.report("cache conc final counters", dict(family="cacheconc", rejected_event=r.event, reason=r.reason, spec="CacheConcTrace.tla"))
    vlib.log("[race] %d concurrent scenarios under the race detector, %d distinct report signature(s); %d final states validated, %d rejected" % (
        d.get("scenarios", 0), len(races), stats["events"], len(rejs)))
    rc = outcome.finish()
    vlib.write_evidence(PID, tier, "model_checking", dict(
        states=1, transitions=1, traces_validated_against_impl=d.get("scenarios", 0), samples=vlib.sample_lines(files, 1),
        evaluations=stats["events"], distinct_nontrivial=stats["events"],
        rule="concurrent-refresh clause: %d scenarios with one update stream per target (60 calls each: updates, deletes, Sync/Connect/ConnectError/Reset) "
             "concurrently with goroutines looping over UpdateMetadata, UpdateSize and Query/Metadata reads, latency windows on in half of them, "
             "executed by the race-detector build; afterwards leaf count = non-metadata leaves stored = added - deleted per target (CacheConcTrace.tla)" % n,
        exhaustive=False, race_signatures=sorted(races), rejected=len(rejs), known_findings_hit=outcome.known, model_drift=0,
        checker_cmd="verifdrv-race cache conc; tlc CacheConcTrace.tla per shard"),
        ["the Go race detector reports only races that occur in the executions it monitors",
         "caches are created one at a time (creating a cache registers metadata names in package-level maps: start-up work)"],
        time.time() - t0, len(outcome.violations), merge=True)
    vlib.cleanup(PID + "-conc")
    return rc


def replay(path):
    with open(path) as f:
        rp = json.load(f)
    if rp.get("spec") == "CacheLatTrace.tla":
        return p_simple.replay_events(PID, path, "CacheLatTrace.tla", boundary=("latcfg",))
    if rp.get("family") == "latency":
        return p_simple.replay_events(PID, path, "LatencyTrace.tla", boundary=("cfg",))
    return fam.replay_family(PID, path)
