"""Shared machinery of /verif/check: building the driver, running TLC (model
checking, generation, trace validation in parallel shards), rejection triage
against known_findings.json, replay files and evidence files.

Python standard library only.
"""
import hashlib
import json
import os
import re
import shutil
import subprocess
import sys
import time
from concurrent.futures import ThreadPoolExecutor

VERIF = os.path.dirname(os.path.dirname(os.path.abspath(__file__)))
SPECS = os.environ.get("VERIF_SPECS") or os.path.join(VERIF, "specs")   # override: development of a specification in a scratch copy
HARNESS = os.path.join(VERIF, "harness")
# The registered commands use the defaults.  The overrides exist for development only: running a check against a
# scratch copy of the repository (a seeded change) while /repo itself is in use, without touching evidence/ or replays/.
REPO = os.environ.get("VERIF_REPO") or "/repo"
WORKROOT = os.environ.get("VERIF_WORK") or os.path.join(VERIF, ".work")
EVIDENCE = os.environ.get("VERIF_EVIDENCE") or os.path.join(VERIF, "evidence")
REPLAYS = os.environ.get("VERIF_REPLAYS") or os.path.join(VERIF, "replays")
TLA_CP = "/opt/veriftools/tla/tla2tools.jar:/opt/veriftools/tla/CommunityModules-deps.jar"
NCPU = os.cpu_count() or 4

GOENV = dict(GOFLAGS="-mod=mod", GOPROXY="off", GOSUMDB="off", GOTOOLCHAIN="local")


class Infra(Exception):
    """Infrastructure problem: exit 2, never a violation."""


def log(*a):
    print(*a, flush=True)


def seed():
    try:
        return int(os.environ.get("VERIF_SEED", "1"))
    except ValueError:
        return 1


def workdir(pid, fresh=True):
    d = os.path.join(WORKROOT, pid)
    if fresh and os.path.isdir(d):
        shutil.rmtree(d, ignore_errors=True)
    os.makedirs(d, exist_ok=True)
    return d


def cleanup(pid):
    """Remove bulky scratch of a finished run (traces, TLC metadirs)."""
    d = os.path.join(WORKROOT, pid)
    if os.environ.get("VERIF_KEEP"):
        return
    shutil.rmtree(d, ignore_errors=True)


# ---------------------------------------------------------------- Go driver

def _modfile():
    """-modfile argument that points the harness module at REPO when it is not /repo (development only)."""
    if REPO == "/repo":
        return []
    os.makedirs(WORKROOT, exist_ok=True)
    alt = os.path.join(WORKROOT, "alt.mod")
    with open(os.path.join(HARNESS, "go.mod")) as f:
        mod = f.read()
    with open(alt, "w") as f:
        f.write(mod.replace("=> /repo", "=> " + REPO))
    shutil.copyfile(os.path.join(REPO, "go.sum"), os.path.join(WORKROOT, "alt.sum"))
    return ["-modfile=" + alt]


def build_driver(race=False):
    """Build verifdrv from /repo's working tree (replace directive) with hooks on."""
    os.makedirs(os.path.join(WORKROOT, "bin"), exist_ok=True)
    out = os.path.join(WORKROOT, "bin", "verifdrv-race" if race else "verifdrv")
    gosum = os.path.join(HARNESS, "go.sum")
    try:
        shutil.copyfile("/repo/go.sum", gosum)
    except OSError:
        pass
    cmd = ["go", "build", "-tags", "verif"] + _modfile() + (["-race"] if race else []) + ["-o", out, "./cmd/verifdrv"]
    env = dict(os.environ, **GOENV)
    t0 = time.time()
    p = subprocess.run(cmd, cwd=HARNESS, env=env, stdout=subprocess.PIPE, stderr=subprocess.STDOUT, text=True)
    if p.returncode != 0:
        raise Infra("driver build failed:\n" + p.stdout[-4000:])
    log("[build] verifdrv%s built in %.1fs" % ("-race" if race else "", time.time() - t0))
    return out


def build_repo_binaries(pkgs):
    """Build commands of /repo's working tree (no verif tag: the binaries a user runs) into WORKROOT/bin/repo."""
    out = os.path.join(WORKROOT, "bin", "repo")
    os.makedirs(out, exist_ok=True)
    env = dict(os.environ, **GOENV)
    t0 = time.time()
    for pkg in pkgs:
        p = subprocess.run(["go", "build"] + _modfile() + ["-o", os.path.join(out, os.path.basename(pkg)), "github.com/openconfig/gnmi/" + pkg],
                           cwd=HARNESS, env=env, stdout=subprocess.PIPE, stderr=subprocess.STDOUT, text=True)
        if p.returncode != 0:
            raise Infra("build of %s failed:\n%s" % (pkg, p.stdout[-4000:]))
    log("[build] %s built in %.1fs" % (", ".join(os.path.basename(x) for x in pkgs), time.time() - t0))
    return out


class DriverCrash(Exception):
    """The driver process died; .stderr holds its last output (e.g. a Go panic of the code under test)."""

    def __init__(self, rc, stderr):
        Exception.__init__(self, "driver exited with %d" % rc)
        self.rc, self.stderr = rc, stderr


def repo_panic(stderr, pkg):
    """If stderr is a Go panic whose stack runs through /repo/<pkg>/, return a short signature."""
    if "panic:" not in stderr and "fatal error:" not in stderr:
        return None
    stderr = stderr.replace(REPO + "/", "/repo/")
    frames = [ln.strip() for ln in stderr.splitlines() if ln.strip().startswith("/repo/")]
    if not any(("/repo/%s/" % pkg) in f for f in frames):
        return None
    first = next(ln for ln in stderr.splitlines() if ln.startswith("panic:") or ln.startswith("fatal error:"))
    where = next(f for f in frames if ("/repo/%s/" % pkg) in f).split(" +")[0]
    return "%s at %s" % (first.strip()[:120], re.sub(r":\d+$", "", where.replace("/repo/", "")))


def run_driver(binary, args, env=None, timeout=3600, cwd=None, crash_ok=False):
    e = dict(os.environ)
    e["VERIF_SEED"] = str(seed())
    if env:
        e.update(env)
    t0 = time.time()
    try:
        p = subprocess.run([binary] + args, env=e, stdout=subprocess.PIPE, stderr=subprocess.PIPE, text=True,
                           timeout=timeout, cwd=cwd)
    except subprocess.TimeoutExpired:
        raise Infra("driver timed out: %s" % " ".join(args))
    if p.returncode != 0:
        if crash_ok:
            raise DriverCrash(p.returncode, p.stderr[-20000:])
        raise Infra("driver failed (%d): %s\n%s" % (p.returncode, " ".join(args), (p.stdout + p.stderr)[-4000:]))
    for line in p.stdout.splitlines():
        if line.startswith("DRV "):
            log("[drive] " + line[4:] + " (%.1fs)" % (time.time() - t0))
    return p.stdout


def drv_stats(out):
    """Parse 'DRV family mode k=v k=v' lines into a dict of ints."""
    d = {}
    for line in out.splitlines():
        if line.startswith("DRV "):
            for kv in line.split()[3:]:
                if "=" in kv:
                    k, v = kv.split("=", 1)
                    try:
                        d[k] = d.get(k, 0) + int(v)
                    except ValueError:
                        d[k] = v
    return d


# ---------------------------------------------------------------- TLC

def _stage_specs(dst):
    os.makedirs(dst, exist_ok=True)
    for f in os.listdir(SPECS):
        if f.endswith(".tla") or f.endswith(".cfg"):
            shutil.copyfile(os.path.join(SPECS, f), os.path.join(dst, f))


def tlc(spec, cfg, scratch, workers=NCPU, timeout=900, env=None, heap="8g", extra=None, gcthreads=None, deque=False):
    """Run TLC in scratch (a directory that receives a copy of the specs).
    Returns (returncode, output). Timeout -> Infra."""
    _stage_specs(scratch)
    md = os.path.join(scratch, "md-%s-%d" % (os.path.splitext(cfg)[0], int(time.time() * 1000) % 100000000))
    if gcthreads:
        # small single-worker runs (trace validation shards run 16 at a time):
        # serial GC and C1 only, otherwise JIT/GC threads oversubscribe the cores
        # a small fixed young generation: fresh-page faults are very expensive in
        # this VM when 16 JVMs grow their heaps at once (measured 26 s -> 6 s)
        java = ["java", "-XX:+UseSerialGC", "-XX:TieredStopAtLevel=1", "-Xss256m", "-Xmx" + heap, "-Xmn128m", "-XX:-UsePerfData"]
    else:
        # small young generation + few GC threads: heap growth page faults dominate otherwise (36 s -> 10 s measured)
        java = ["java", "-XX:+UseParallelGC", "-XX:ParallelGCThreads=4", "-Xmx" + heap, "-Xmn512m", "-Xss64m"]
    if deque:
        java.append("-Dtlc2.tool.queue.IStateQueue=StateDeque")
    cmd = java + ["-cp", TLA_CP, "tlc2.TLC", "-workers", str(workers), "-metadir", md, "-config", cfg] + (extra or []) + [spec]
    e = dict(os.environ)
    e.pop("JAVA_TOOL_OPTIONS", None)
    if env:
        e.update(env)
    try:
        p = subprocess.run(cmd, cwd=scratch, env=e, stdout=subprocess.PIPE, stderr=subprocess.STDOUT, text=True,
                           timeout=timeout)
    except subprocess.TimeoutExpired:
        subprocess.run(["pkill", "-f", md], check=False)
        raise Infra("TLC timed out after %ds: %s %s" % (timeout, spec, cfg))
    finally:
        shutil.rmtree(md, ignore_errors=True)
    return p.returncode, p.stdout


_STATES = re.compile(r"(\d[\d,]*) states generated, (\d[\d,]*) distinct states found")


def tlc_counts(out):
    m = None
    for m in _STATES.finditer(out):
        pass
    if not m:
        return 0, 0
    return int(m.group(1).replace(",", "")), int(m.group(2).replace(",", ""))


def tlc_ok(out):
    return "Model checking completed. No error has been found." in out or \
        "Finished in" in out and "Error:" not in out


def model_check(spec, cfg, scratch, workers=NCPU, timeout=1200, heap="12g", extra=None, expect_violation=False, quiet_prefix=None):
    """Exhaustive TLC run. Returns dict(generated, distinct, out). A property
    violated *in the model* is a defect of the specification/design layer and
    is reported as Infra (exit 2): verdicts come from the real code only."""
    t0 = time.time()
    rc, out = tlc(spec, cfg, scratch, workers=workers, timeout=timeout, heap=heap, extra=extra)
    gen, dist = tlc_counts(out)
    violated = ("is violated" in out) or ("Error:" in out)
    log("[tlc] %s/%s: %d generated, %d distinct, %s (%.1fs)" % (
        spec, cfg, gen, dist, "counterexample" if violated else "no error", time.time() - t0))
    if expect_violation:
        if not violated:
            raise Infra("mutant configuration %s did not produce a counterexample (vacuous invariant?)" % cfg)
    elif violated or rc != 0:
        raise Infra("model check %s/%s failed:\n%s" % (spec, cfg, _tail(out, quiet_prefix)))
    if gen == 0 and not expect_violation:
        raise Infra("model check %s/%s produced no states:\n%s" % (spec, cfg, out[-3000:]))
    return dict(generated=gen, distinct=dist, out=out, wall=time.time() - t0)


def _tail(out, quiet_prefix=None, n=60):
    lines = out.splitlines()
    if quiet_prefix:
        lines = [l for l in lines if not l.startswith(quiet_prefix)]
    return "\n".join(lines[-n:])


_PRINT = re.compile(r'^<<"([A-Z]+)", "(.*)">>\s*$')


def tlc_printed_json(out, tag):
    """Extract JSON strings printed with PrintT(<<tag, ToJson(x)>>)."""
    res = []
    for line in out.splitlines():
        m = _PRINT.match(line)
        if m and m.group(1) == tag:
            s = m.group(2)
            # TLC prints the string with TLA+ escapes (\" and \\).
            s = s.replace('\\"', '"').replace("\\\\", "\\")
            res.append(s)
    return res


# ---------------------------------------------------------------- trace validation

_HWM = re.compile(r'^<<"HWM", (\d+), (\d+)>>', re.M)


def _validate_one(spec, cfg, trace_file, scratch, timeout, heap, deque, extra_env=None):
    env = {"TRACE": trace_file}
    if extra_env:
        env.update(extra_env)
    rc, out = tlc(spec, cfg, scratch, workers=1, timeout=timeout, env=env, heap=heap, gcthreads=2, deque=deque)
    if "Invariant NotDone is violated" in out:
        # early-exit acceptance of the history specifications (see NotDone)
        with open(trace_file, "rb") as f:
            total = sum(1 for _ in f)
        gen, dist = tlc_counts(out)
        return dict(file=trace_file, hwm=total, total=total, out=out, generated=gen, distinct=dist, inv_violated=False, other_error=None)
    m = None
    for m in _HWM.finditer(out):
        pass
    if not m:
        errs = [ln[:600] for ln in out.splitlines() if ln.startswith("Error:") or "Exception" in ln or ln.startswith("line ")]
        raise Infra("trace validation produced no verdict for %s:\n%s\n...\n%s" % (trace_file, "\n".join(errs[:12]), out[-1500:]))
    hwm, total = int(m.group(1)), int(m.group(2))
    other_error = None
    if hwm == total and ("Error:" in out and "Postcondition" not in out):
        other_error = out[-2000:]
    if "is violated" in out:
        # an INVARIANT of the trace spec failed on a real-code state
        other_error = None
    gen, dist = tlc_counts(out)
    return dict(file=trace_file, hwm=hwm, total=total, out=out, generated=gen, distinct=dist,
                inv_violated=("is violated" in out), other_error=other_error)


def read_lines(path):
    with open(path, "rb") as f:
        return f.read().splitlines()


class Rejection(object):
    def __init__(self, file, line_no, scenario_lines, event, reason):
        self.file = file
        self.line_no = line_no          # 1-based index of the rejected line within file
        self.scenario = scenario_lines  # decoded events from scenario start up to and including the rejected one
        self.event = event
        self.reason = reason


def validate_traces(spec, cfg, files, scratch, is_boundary, timeout=900, heap="3g", deque=False, parallel=None,
                    max_rejections=3, extra_env=None, scenario_timeout=None):
    """Validate every trace file with TLC (one process per file, in parallel).
    A rejected line ends its scenario; validation resumes at the next scenario
    boundary (is_boundary(event_dict) -> bool) so the rest is still checked.
    Returns (stats, rejections)."""
    parallel = parallel or max(1, min(NCPU, len(files)))
    rejections = []
    stats = dict(events=0, files=len(files), tlc_runs=0, generated=0, distinct=0, undecided=0)

    def work(item):
        idx, path = item
        out_rej = []
        local = dict(events=0, tlc_runs=0, generated=0, distinct=0)
        cur = path
        offset = 0          # lines of the original file before cur's first line
        sub = os.path.join(scratch, "v%03d" % idx)
        n = 0
        while True:
            if os.path.getsize(cur) == 0:
                break
            try:
                r = _validate_one(spec, cfg, cur, sub, timeout, heap, deque, extra_env)
            except Infra as ex:
                if "timed out" not in str(ex) or not scenario_timeout:
                    raise
                # Inference got expensive for this file: validate its scenarios one by one; a scenario that
                # still exceeds its own budget is undecided (counted, never a verdict).
                lines = read_lines(cur)
                starts = [i for i, ln in enumerate(lines) if is_boundary(json.loads(ln))] or [0]
                if starts[0] != 0:
                    starts = [0] + starts
                for a, b in zip(starts, starts[1:] + [len(lines)]):
                    one = os.path.join(sub, "one.ndjson")
                    with open(one, "wb") as f:
                        f.write(b"\n".join(lines[a:b]) + b"\n")
                    try:
                        r1 = _validate_one(spec, cfg, one, sub, scenario_timeout, heap, deque, extra_env)
                    except Infra as ex1:
                        if "timed out" in str(ex1):
                            local["undecided"] = local.get("undecided", 0) + 1
                            continue
                        raise
                    local["tlc_runs"] += 1
                    if r1["hwm"] == r1["total"]:
                        local["events"] += r1["total"]
                    else:
                        scen = [json.loads(x) for x in lines[a:a + r1["hwm"] + 1]]
                        out_rej.append(Rejection(path, offset + a + r1["hwm"] + 1, scen, scen[-1], "event not allowed by the specification"))
                        local["events"] += r1["hwm"]
                break
            local["tlc_runs"] += 1
            local["generated"] += r["generated"]
            local["distinct"] += r["distinct"]
            if r["other_error"]:
                raise Infra("TLC error while validating %s:\n%s" % (cur, r["other_error"]))
            if r["hwm"] == r["total"] and not r["inv_violated"]:
                local["events"] += r["total"]
                break
            # rejected at line hwm+1 of cur (or invariant violated at state hwm)
            lines = read_lines(cur)
            bad = r["hwm"] if r["hwm"] < r["total"] else r["total"] - 1
            if r["inv_violated"] and r["hwm"] >= 1:
                bad = r["hwm"] - 1
            start = bad
            while start > 0 and not is_boundary(json.loads(lines[start])):
                start -= 1
            scen = [json.loads(x) for x in lines[start:bad + 1]]
            reason = "invariant of the trace specification violated" if r["inv_violated"] else "event not allowed by the specification"
            out_rej.append(Rejection(path, offset + bad + 1, scen, scen[-1], reason))
            local["events"] += bad
            nxt = bad + 1
            while nxt < len(lines) and not is_boundary(json.loads(lines[nxt])):
                nxt += 1
            if nxt >= len(lines) or len(out_rej) >= max_rejections:
                break
            n += 1
            newp = os.path.join(sub, "rest-%d.ndjson" % n)
            with open(newp, "wb") as f:
                f.write(b"\n".join(lines[nxt:]) + b"\n")
            offset += nxt
            cur = newp
        return local, out_rej

    with ThreadPoolExecutor(max_workers=parallel) as ex:
        for local, rej in ex.map(work, list(enumerate(files))):
            for k in ("events", "tlc_runs", "generated", "distinct", "undecided"):
                stats[k] += local.get(k, 0)
            rejections.extend(rej)
    return stats, rejections


# ---------------------------------------------------------------- known findings

def load_known():
    p = os.path.join(VERIF, "known_findings.json")
    if not os.path.exists(p):
        return []
    with open(p) as f:
        return json.load(f).get("findings", [])


def classify(pid, signature):
    """Return the open known finding matching signature, or None."""
    for k in load_known():
        if k.get("property") == pid and k.get("status") == "open" and re.search(k["signature_regex"], signature):
            return k
    return None


def write_replay(pid, tier, n, payload):
    os.makedirs(REPLAYS, exist_ok=True)
    path = os.path.join(REPLAYS, "%s-%s-%d-%d.json" % (pid, tier, seed(), n))
    with open(path, "w") as f:
        json.dump(payload, f, indent=1, sort_keys=True)
    return path


_REPLAY_SEQ = {}   # property -> replay files written by this process (stages of one check share the numbering)


class Outcome(object):
    """Collects violations / known findings of one check run (or of one stage of it)."""

    def __init__(self, pid, tier):
        self.pid, self.tier = pid, tier
        self.violations = []
        self.known = {}
        self.drift = []

    def report(self, signature, payload):
        k = classify(self.pid, signature)
        if k is not None:
            e = self.known.setdefault(k["id"], dict(count=0, what=k["what"]))
            e["count"] += 1
            return
        for v in self.violations:
            if v["signature"] == signature:
                v["count"] += 1          # same failure class: one replay is enough
                return
        payload = dict(payload, property=self.pid, tier=self.tier, seed=seed(), signature=signature)
        _REPLAY_SEQ[self.pid] = _REPLAY_SEQ.get(self.pid, 0) + 1
        path = write_replay(self.pid, self.tier, _REPLAY_SEQ[self.pid], payload)
        self.violations.append(dict(signature=signature, replay=path, count=1))
        log("VIOLATION property=%s replay=%s" % (self.pid, path))
        log("  signature: %s" % signature)

    def finish(self):
        for kid, e in sorted(self.known.items()):
            log("KNOWN-FINDING: property=%s %s [%s, %d occurrence(s) this run]" % (self.pid, e["what"], kid, e["count"]))
        for d in self.drift[:5]:
            log("MODEL-DRIFT: property=%s %s" % (self.pid, d))
        return 1 if self.violations else 0


# ---------------------------------------------------------------- evidence

def distinct_lines(files, trivial=None):
    """Count events and distinct non-trivial event lines over trace files."""
    seen = set()
    total = 0
    for p in files:
        with open(p, "rb") as f:
            for line in f:
                total += 1
                if trivial is not None and trivial(line):
                    continue
                seen.add(hashlib.blake2b(line, digest_size=8).digest())
    return total, len(seen)


def sample_lines(files, k=3, skip=None):
    out = []
    for p in files:
        with open(p, "rb") as f:
            for i, line in enumerate(f):
                if skip is not None and skip(line):
                    continue
                if len(line) < 600:
                    out.append(json.loads(line))
                    break
        if len(out) >= k:
            break
    return out


def write_evidence(pid, tier, level, coverage, assumptions, wall, violations, extra=None, merge=False):
    """merge=True: a check made of two stages adds the second stage's numbers to the first's."""
    os.makedirs(EVIDENCE, exist_ok=True)
    path = os.path.join(EVIDENCE, pid + ".json")
    if merge and os.path.exists(path):
        with open(path) as f:
            old = json.load(f)
        oc = old.get("coverage", {})
        for k, v in list(coverage.items()):
            if isinstance(v, bool):
                coverage[k] = v and oc.get(k, v)
            elif isinstance(v, int) and isinstance(oc.get(k), int):
                coverage[k] = v + oc[k]
            elif isinstance(v, list) and isinstance(oc.get(k), list):
                coverage[k] = oc[k] + v
            elif isinstance(v, str) and isinstance(oc.get(k), str) and k in ("rule", "checker_cmd"):
                coverage[k] = oc[k] + " || " + v
            elif isinstance(v, dict) and isinstance(oc.get(k), dict):
                d = dict(oc[k])
                d.update(v)
                coverage[k] = d
        for k, v in oc.items():
            coverage.setdefault(k, v)
        assumptions = list(dict.fromkeys(old.get("assumptions", []) + assumptions))
        wall += old.get("wall_s", 0)
        violations += old.get("violations", 0)
    ev = dict(property_id=pid, tier=tier, seed=seed(), level=level, coverage=coverage,
              assumptions=assumptions, wall_s=round(wall, 2), violations=violations)
    if extra:
        ev.update(extra)
    with open(path, "w") as f:
        json.dump(ev, f, indent=1, sort_keys=True)
        f.write("\n")
