"""C17 - target config loads are monotonic and announced as exact diffs."""
import p_simple

PID = "C17"
RULE = ("(a) every valid base configuration of the small universe (2 target names x {absent, nil message, no address, no request, 2 requests x 2 settings}, "
        "2 request names x {absent, 2 contents}, revisions 0-2) - installed alternately by Load and by NewConfigWithBase - followed by %s second "
        "configurations of that universe (valid and invalid, lower/equal/higher revision); (b) %d random histories of 12 loads over up to 8 targets / 4 "
        "requests (renamed+edited requests, re-pointed/added/removed/edited targets, dangling requests, empty names, failed loads between good ones). Each "
        "Load is logged with its result, the set of handler calls and Current(); TLC validates against TargetConfigTrace.tla (accept/reject, exact call set, "
        "Current = loaded config, replay of calls = Current). distinct_nontrivial = distinct load lines")


def run(tier):
    second, n = ("120", 1500) if tier == "quick" else ("0", 60000)
    sh = "16" if tier == "quick" else "48"
    return p_simple.run(PID, tier, [("TargetConfig.tla", "TargetConfig.cfg", False)],
                        [["targetcfg", "pairs", "-second", second, "-shards", sh], ["targetcfg", "random", "-n", str(n), "-shards", sh]],
                        "TargetConfigTrace.tla", RULE % ("120 random" if tier == "quick" else "all 1728", n),
                        ["callers do not mutate a configuration object after loading it (every load uses a fresh proto object)"],
                        exhaustive=(tier == "thorough"))


def replay(path):
    return p_simple.replay_events(PID, path, "TargetConfigTrace.tla")
