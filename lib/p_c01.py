"""C01 - what a client sees through the collector is what the targets sent (end to end, real binaries)."""
import p_simple
import vlib

PID = "C01"
RULE = ("Pipeline.tla model-checked (targets, collector sessions with Reset on reconnect, cache registration, subscriber views) with the mutants "
        "'collector never registers its targets' and 'no reset on reconnect' violating Faithful; then %d random configurations run with the REAL binaries "
        "built from the working tree: 1-3 scripted TLS gNMI targets (8-32 notifications each: updates of all scalar kinds and leaf-lists under keyed, "
        "origin-carrying, prefix-split and deprecated-element paths, leaf and subtree deletes, optionally one stream drop forcing a redial and replay), "
        "a gnmi_collector process configured for them, and as clients the client library (STREAM and ONCE) and gnmi_cli invoked with flags, with -proto, "
        "with -proto_file, and with the group display; every view is taken after a sentinel leaf sent last by every target has arrived, and TLC "
        "(PipelineTrace.tla) requires each view to equal the final state of the targets exactly - no missing, extra or stale leaf, typed values preserved. "
        "distinct_nontrivial = distinct tsend/view lines")


def run(tier):
    n, par = (24, 6) if tier == "quick" else (600, 8)
    bins = vlib.build_repo_binaries(["cmd/gnmi_collector", "cmd/gnmi_cli"])
    return p_simple.run(PID, tier,
                        [("Pipeline.tla", "Pipeline_none.cfg", False), ("Pipeline.tla", "Pipeline_no_register.cfg", True),
                         ("Pipeline.tla", "Pipeline_no_reset.cfg", True), ("Pipeline.tla", "Pipeline_mixed_drops_delete.cfg", True),
                         ("Pipeline.tla", "Pipeline_refused_update_skips_deletes.cfg", True)],
                        [["pipeline", "run", "-n", str(n), "-bin", bins, "-par", str(par)]],
                        "PipelineTrace.tla", RULE % n,
                        ["targets are scripted in-process gRPC/TLS servers (the fake agent of testing/fake is covered by C20)",
                         "quiescence is decided by a sentinel leaf sent last through the same ordered pipeline",
                         "data trees have no node that is both leaf and branch; leaf-list values are not compared in the CLI group display",
                         "each configuration runs one collector process on a free localhost port"],
                        boundary=("config",), count_keys=("configs",),
                        sig=lambda r: "pipeline %s %s %s" % (r.event.get("ev"), r.event.get("who", ""), r.event.get("kind", "")),
                        trivial=lambda l: b'"ev":"config"' in l or b'"ev":"redial"' in l)


def replay(path):
    return p_simple.replay_events(PID, path, "PipelineTrace.tla", boundary=("config",))
