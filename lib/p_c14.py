"""C14 - see p_cachefam.py (cache family) and DESIGN.md section 5/C14."""
import json

import p_cachefam as fam
import p_subfam as sub

PID = "C14"
RULE = "seeded random call sequences over 2-4 targets with overlapping path sets incl. names that are prefixes of each other (dev1/dev10) (profile 'multi': Reset, Remove, Add, lifecycle calls, HasTarget, Query on known/unknown/'*'); TLC validates against CacheTrace.tla that every call changes only the addressed target (content and metadata of every other target are re-read and compared after every call), that Reset/Remove clear and announce exactly what they must, and that removed targets are unknown. distinct_nontrivial = distinct (call, result, feed, content) lines with non-empty content"


def run(tier):
    n, length = (480, 60) if tier == "quick" else (12000, 80)
    cfg = "CacheMC_C14.cfg" if tier == "quick" else "CacheMC_C14_thorough.cfg"
    rc1 = fam.run_family(PID, tier, 'multi', n, length, cfg, RULE, shards=16 if tier == "quick" else 48)
    # stream clause: removing a target ends single-target subscriptions to it cleanly; '*' subscriptions continue
    rc2 = sub.run_family(PID, tier, [("remove", 1500 if tier == "quick" else 60000)], [("Subscribe.tla", "Subscribe_none.cfg", False)],
                         "stream clause: random subscribe scenarios in which targets are Reset and Removed while single-target and '*' STREAM subscriptions "
                         "are attached at arbitrary points; a single-target stream must deliver the whole-target delete and end OK (or be refused NotFound), "
                         "a '*' stream continues and converges (SubscribeTrace.tla)", [], shards=16 if tier == "quick" else 48, merge=True)
    return max(rc1, rc2)


def replay(path):
    with open(path) as f:
        family = json.load(f).get("family")
    return sub.replay_family(PID, path) if family == "subscribe" else fam.replay_family(PID, path)
