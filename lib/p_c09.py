"""C09 - ctree.Tree used from one goroutine is a prefix-free map with
consistent wildcard query/delete.

1. TLC model-checks CTree.tla exhaustively (all trees with stored paths <= 2
   over {a,b,*}) and prints every distinct reachable tree.
2. The driver rebuilds each tree in a real ctree.Tree and applies every
   operation with every argument (one implementation test per specification
   transition), plus seeded random long sequences over larger alphabets.
3. TLC validates every recorded call (result + content read back) against
   CTreeTrace.tla.  A rejected line is a real execution the property forbids.
"""
import json
import os
import time

import vlib

PID = "C09"

TIERS = {
    "quick": dict(cfg="CTree_quick.cfg", values="v1", rand_n=400, rand_len=150, shards=16),
    "thorough": dict(cfg="CTree_thorough.cfg", values="v1,v2", rand_n=6000, rand_len=200, shards=48),
}


def is_boundary(e):
    return e.get("ev") in ("reset", "jump")


def signature(rej):
    e = rej.event
    ev = e.get("ev")
    pre_empty = len(rej.scenario) >= 2 and rej.scenario[-2].get("proj") == [] if len(rej.scenario) >= 2 else False
    q = e.get("q", e.get("p", []))
    shape = "/".join("*" if x == "*" else "x" for x in q)
    return "ctree %s path-shape=%s pre-empty=%s" % (ev, shape, str(bool(pre_empty)).lower())


def scenario_of(rej):
    pre = []
    ops = []
    for e in rej.scenario:
        ev = e["ev"]
        if ev == "jump":
            pre = e["proj"]
        elif ev == "reset":
            pre = []
        else:
            o = {"op": ev, "p": e.get("p", e.get("q", []))}
            if "v" in e:
                o["v"] = e["v"]
            if "cond" in e:
                o["cond"] = e["cond"]
            ops.append(o)
    return {"pre": pre, "ops": ops}


def validate(files, scratch, outcome, tier):
    stats, rejs = vlib.validate_traces("CTreeTrace.tla", "CTreeTrace.cfg", files, scratch, is_boundary)
    for r in rejs:
        outcome.report(signature(r), dict(
            family="ctree", scenario=scenario_of(r), events=r.scenario[-6:], rejected_event=r.event,
            reason=r.reason, spec="CTreeTrace.tla", trace_file=os.path.basename(r.file), line=r.line_no))
    return stats, rejs


def run(tier):
    t0 = time.time()
    T = TIERS[tier]
    work = vlib.workdir(PID)
    drv = vlib.build_driver()
    outcome = vlib.Outcome(PID, tier)

    # 1. model check + universe
    mc = vlib.model_check("CTreeMC.tla", T["cfg"], os.path.join(work, "mc"), quiet_prefix='<<"STATE"')
    states = vlib.tlc_printed_json(mc["out"], "STATE")
    if len(states) != mc["distinct"]:
        raise vlib.Infra("universe dump incomplete: %d printed, %d distinct" % (len(states), mc["distinct"]))
    sf = os.path.join(work, "states.txt")
    with open(sf, "w") as f:
        f.write("\n".join(states) + "\n")

    # 2. drive
    tr = os.path.join(work, "traces")
    o1 = vlib.run_driver(drv, ["ctree", "universe", "-states", sf, "-names", "a,b,*", "-values", T["values"],
                               "-maxq", "3", "-maxs", "2", "-out", tr, "-shards", str(T["shards"])])
    o2 = vlib.run_driver(drv, ["ctree", "random", "-n", str(T["rand_n"]), "-len", str(T["rand_len"]),
                               "-out", tr, "-shards", str(T["shards"])])
    d1, d2 = vlib.drv_stats(o1), vlib.drv_stats(o2)
    files = sorted(os.path.join(tr, f) for f in os.listdir(tr) if f.endswith(".ndjson"))

    # 3. validate
    tv = time.time()
    stats, rejs = validate(files, os.path.join(work, "val"), outcome, tier)
    vlib.log("[validate] %d events in %d files, %d TLC runs, %d rejected (%.1fs)" % (
        stats["events"], stats["files"], stats["tlc_runs"], len(rejs), time.time() - tv))

    total, distinct = vlib.distinct_lines(files, trivial=lambda l: l.startswith(b'{"ev":"reset"') or l.startswith(b'{"ev":"jump"') or b'"proj":[]' in l)
    rc = outcome.finish()
    vlib.write_evidence(PID, tier, "model_checking", dict(
        states=mc["distinct"], transitions=mc["generated"],
        traces_validated_against_impl=d1.get("trees", 0) + d2.get("sequences", 0),
        samples=vlib.sample_lines(files, 3, skip=lambda l: b'"proj":[]' in l or b'"jump"' in l or b'"reset"' in l),
        evaluations=stats["events"], distinct_nontrivial=distinct,
        rule="every distinct tree reachable in CTree.tla (stored paths <=2 over {a,b,*}, values {%s}) is rebuilt in a real ctree.Tree and "
             "every public operation is applied with every argument of length <=3 (one call per specification transition), plus seeded random "
             "sequences over alphabets of 2-8 names, depth <=5; every call is validated by TLC against CTreeTrace.tla (result and content read "
             "back). distinct_nontrivial = distinct (call, result, resulting content) lines whose resulting content is non-empty" % T["values"],
        exhaustive=True, spec_transitions_replayed=d1.get("transitions", 0), random_sequences=d2.get("sequences", 0),
        rejected=len(rejs), known_findings_hit=outcome.known, model_drift=0,
        checker_cmd="tlc CTreeMC.tla (%s); tlc CTreeTrace.tla per shard" % T["cfg"]),
        ["TLC and the TLA+ Json/IOUtils modules", "the driver logs calls/results of the real ctree.Tree faithfully (no oracle logic in Go)",
         "nil values are not stored (a nil leaf is indistinguishable from an empty node by construction)"],
        time.time() - t0, len(outcome.violations))
    vlib.cleanup(PID)
    return rc


def replay(path):
    with open(path) as f:
        rp = json.load(f)
    work = vlib.workdir(PID + "-replay")
    drv = vlib.build_driver()
    sc = os.path.join(work, "scenario.json")
    with open(sc, "w") as f:
        json.dump(rp["scenario"], f)
    out = os.path.join(work, "replay.ndjson")
    vlib.run_driver(drv, ["ctree", "replay", "-scenario", sc, "-out", out])
    outcome = vlib.Outcome(PID, "replay")
    stats, rejs = validate([out], os.path.join(work, "val"), outcome, "replay")
    vlib.log("[replay] %d events re-executed on the current tree, %d rejected" % (stats["events"], len(rejs)))
    return outcome.finish()
