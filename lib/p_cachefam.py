"""Cache family (C02, C03, C14, C15): one driver, one trace specification
(CacheTrace.tla over Cache.tla); each property has its own generator profile,
its own bounded model-check configuration and reports only the rejected calls
whose failing aspect belongs to it (aspects are computed by TLC itself in a
diagnostic re-run of the rejected scenario)."""
import json
import os
import re
import time

import vlib

# aspect -> properties, by kind of call
DATA_CALLS = {"GnmiUpdate"}
LIFE_CALLS = {"Sync", "Connect", "ConnectError", "UpdateMetadata", "UpdateSize"}
TARGET_CALLS = {"Reset", "Remove", "Add", "HasTarget", "Query"}


def owners(ev, aspect):
    if aspect in ("feed", "mirror", "unmod"):
        return {"C03"} | ({"C14"} if ev in ("Reset", "Remove") else set())
    if aspect == "iso":
        return {"C15"} if ev in ("UpdateMetadata", "UpdateSize") else {"C14"}
    if aspect == "meta":
        return {"C15"} | ({"C14"} if ev == "Reset" else set())
    if aspect in ("res", "proj"):
        if ev in DATA_CALLS:
            return {"C02"}
        if ev in LIFE_CALLS:
            return {"C15"}
        return {"C14"}
    if aspect == "read":
        return {"C14"}
    return set()


def is_boundary(e):
    return e.get("ev") == "config"


_DIAG = re.compile(r'<<\s*"DIAG",\s*\[(.*?)\]\s*>>', re.S)


def diagnose(rej, scratch):
    """Re-run the rejected scenario with DIAG=1; return the set of failing aspects (None if unknown)."""
    os.makedirs(scratch, exist_ok=True)
    p = os.path.join(scratch, "diag-%d.ndjson" % (abs(hash((rej.file, rej.line_no))) % 10**9))
    with open(p, "w") as f:
        for e in rej.scenario:
            f.write(json.dumps(e) + "\n")
    try:
        r = vlib._validate_one("CacheTrace.tla", "CacheTrace.cfg", p, os.path.join(scratch, "diag"), 300, "3g", False,
                               extra_env={"DIAG": "1"})
    except vlib.Infra:
        return None
    m = _DIAG.search(r["out"])
    if not m:
        return None
    failing = set()
    for part in m.group(1).split(","):
        k, _, v = part.partition("|->")
        if v.strip() == "FALSE":
            failing.add(k.strip())
    return failing


def load_scenarios(tr_dir):
    sc = {}
    p = os.path.join(tr_dir, "scenarios.ndjson")
    if os.path.exists(p):
        with open(p) as f:
            for line in f:
                d = json.loads(line)
                sc[d["sc"]] = d
    return sc


def run_family(pid, tier, profile, n, length, mc_cfg, text_rule, extra_assumptions=None, shards=16):
    t0 = time.time()
    work = vlib.workdir(pid)
    drv = vlib.build_driver()
    outcome = vlib.Outcome(pid, tier)

    mc = vlib.model_check("CacheMC.tla", mc_cfg, os.path.join(work, "mc"))

    tr = os.path.join(work, "traces")
    o = vlib.run_driver(drv, ["cache", "random", "-profile", profile, "-n", str(n), "-len", str(length),
                              "-out", tr, "-shards", str(shards)])
    d = vlib.drv_stats(o)
    files = sorted(os.path.join(tr, f) for f in os.listdir(tr) if f.startswith("cache-") and f.endswith(".ndjson"))
    tv = time.time()
    stats, rejs = vlib.validate_traces("CacheTrace.tla", "CacheTrace.cfg", files, os.path.join(work, "val"), is_boundary)
    scen = load_scenarios(tr)
    other = {}
    for r in rejs:
        ev = r.event.get("ev")
        failing = None if ev == "panic" else diagnose(r, os.path.join(work, "diag"))
        props = set()
        if ev == "panic":
            props, failing = {"C12"}, {"panic"}
        elif failing:
            # the first failing aspect in causal order is the cause, the rest are consequences
            for a in ("res", "proj", "iso", "unmod", "feed", "mirror", "meta", "read"):
                if a in failing:
                    props = owners(ev, a)
                    break
        if not failing or not props:
            props = {pid}          # cannot attribute: report it here
            failing = failing or {"unattributed"}
        sig = "cache %s aspects=%s" % (ev, "+".join(sorted(failing)))
        # the input class, where it identifies a recorded finding: a delete addressed to a leaf-accounting leaf below meta/
        for dl in r.event.get("dels", []) or []:
            dp = dl.get("p", [])
            if len(dp) == 2 and dp[0] == "meta" and dp[1] in ("targetLeaves", "targetLeavesAdded", "targetLeavesDeleted"):
                sig += " input=delete-at-meta/leaf-accounting"
                break
        if pid in props:
            sc = scen.get(r.scenario[0].get("sc"), {})
            nops = len(r.scenario) - 1
            scenario = dict(sc, ops=sc.get("ops", [])[:nops])
            outcome.report(sig, dict(family="cache", scenario=scenario, rejected_event=r.event, reason=r.reason,
                                     failing_aspects=sorted(failing), spec="CacheTrace.tla",
                                     trace_file=os.path.basename(r.file), line=r.line_no))
        else:
            k = ",".join(sorted(props))
            other[k] = other.get(k, 0) + 1
    for k, c in sorted(other.items()):
        vlib.log("NOTE: %d rejected call(s) break %s, not %s (run ./check %s)" % (c, k, pid, k.split(",")[0]))
    vlib.log("[validate] %d events in %d files, %d TLC runs, %d rejected (%.1fs)" % (
        stats["events"], stats["files"], stats["tlc_runs"], len(rejs), time.time() - tv))
    total, distinct = vlib.distinct_lines(files, trivial=lambda l: l.startswith(b'{"ed"') or b'"proj":[]' in l)
    rc = outcome.finish()
    vlib.write_evidence(pid, tier, "model_checking", dict(
        states=mc["distinct"], transitions=mc["generated"],
        traces_validated_against_impl=d.get("scenarios", 0),
        samples=vlib.sample_lines(files, 2, skip=lambda l: b'"config"' in l or len(l) > 900 or b'"feed":[]' in l),
        evaluations=stats["events"], distinct_nontrivial=distinct, rule=text_rule, exhaustive=False,
        rejected=len(rejs), rejected_other_property=other, known_findings_hit=outcome.known, model_drift=0,
        checker_cmd="tlc CacheMC.tla (%s); tlc CacheTrace.tla per shard" % mc_cfg),
        ["TLC and the TLA+ Json/IOUtils modules",
         "the driver projects protobuf notifications to index paths / value tokens faithfully (it contains no oracle logic)",
         "the stubbed clock cache.Now does not run backwards", "a target that is already known is never added again",
         "no NaN/-0 values; no path-level origin (note N1)"]
        + (extra_assumptions or []),
        time.time() - t0, len(outcome.violations))
    vlib.cleanup(pid)
    return rc


def panic_sig(e):
    return "cache panic %s %s" % (e.get("op"), re.sub(r":\d+$", "", e.get("site", "")).replace("/repo/", ""))


def panic_phase(outcome, work, drv, n, length, profile="mixed", shards=16):
    """C12 on histories: random cache scenarios validated by CacheTrace.tla; only calls in which the real code
    panicked are reported here (other rejected calls belong to C02/C03/C14/C15 and are reported by those checks)."""
    tr = os.path.join(work, "hist")
    d = vlib.drv_stats(vlib.run_driver(drv, ["cache", "random", "-profile", profile, "-n", str(n), "-len", str(length),
                                             "-out", tr, "-shards", str(shards)]))
    files = sorted(os.path.join(tr, f) for f in os.listdir(tr) if f.startswith("cache-") and f.endswith(".ndjson"))
    stats, rejs = vlib.validate_traces("CacheTrace.tla", "CacheTrace.cfg", files, os.path.join(work, "hval"), is_boundary, max_rejections=6)
    scen = load_scenarios(tr)
    other = 0
    for r in rejs:
        if r.event.get("ev") != "panic":
            # C12's last clause: "a rejected message leaves previously stored data intact" - a data call that the cache
            # answered with an error (as the model expects it to) and after which the content differs from what Cache.tla prescribes
            if r.event.get("ev") in DATA_CALLS and r.event.get("res") not in (None, "ok"):
                failing = diagnose(r, os.path.join(work, "hdiag")) or set()
                if "res" not in failing and failing & {"proj", "mirror"}:
                    sc = scen.get(r.scenario[0].get("sc"), {})
                    outcome.report("cache %s refused (%s) but stored data changed: aspects=%s" % (r.event.get("ev"), r.event.get("res"), "+".join(sorted(failing))),
                                   dict(family="cache", scenario=dict(sc, ops=sc.get("ops", [])[:len(r.scenario) - 1]),
                                        rejected_event=r.event, reason=r.reason, failing_aspects=sorted(failing), spec="CacheTrace.tla"))
                    continue
            other += 1
            continue
        sc = scen.get(r.scenario[0].get("sc"), {})
        outcome.report(panic_sig(r.event), dict(family="cache", scenario=dict(sc, ops=sc.get("ops", [])[:len(r.scenario) - 1]),
                                                rejected_event=r.event, reason=r.reason, spec="CacheTrace.tla"))
    if other:
        vlib.log("NOTE: %d rejected call(s) without a panic break C02/C03/C14/C15, not C12 (run those checks)" % other)
    vlib.log("[validate] %d history events, %d rejected, %d of them panics" % (stats["events"], len(rejs), len(rejs) - other))
    return dict(scenarios=d.get("scenarios", 0), events=stats["events"], files=files)


def replay_family(pid, path):
    with open(path) as f:
        rp = json.load(f)
    work = vlib.workdir(pid + "-replay")
    drv = vlib.build_driver()
    sc = os.path.join(work, "scenario.json")
    with open(sc, "w") as f:
        json.dump(rp["scenario"], f)
    out = os.path.join(work, "replay.ndjson")
    vlib.run_driver(drv, ["cache", "replay", "-scenario", sc, "-out", out])
    outcome = vlib.Outcome(pid, "replay")
    stats, rejs = vlib.validate_traces("CacheTrace.tla", "CacheTrace.cfg", [out], os.path.join(work, "val"), is_boundary)
    for r in rejs:
        failing = diagnose(r, os.path.join(work, "diag")) or {"unattributed"}
        outcome.report("cache %s aspects=%s" % (r.event.get("ev"), "+".join(sorted(failing))),
                       dict(family="cache", scenario=rp["scenario"], rejected_event=r.event, reason=r.reason))
    vlib.log("[replay] %d events re-executed on the current tree, %d rejected" % (stats["events"], len(rejs)))
    return outcome.finish()
