"""C10 - ctree.Tree is safe and per-path atomic under concurrent use.

1. Concurrent histories (2..16 goroutines, Add/Get/Query/Walk/Delete/UpdateLeaf
   mixes on overlapping paths, random delay at the add.upgrade hook) are
   validated against CTreeLin.tla: TLC infers the linearization points; Query
   and Walk are interval operations; the final content must be the
   specification's (i.e. that of a sequential order). An operation not
   returning within 10 s is a 'hang' event no action accepts.  Contention rounds
   (10 goroutines hammering three hot leaves with Query/Walk/handle Update/Add on
   existing paths/Delete+re-Add for 150 ms each) must keep every goroutine
   progressing ('contend' marker; a stuck round is a 'hang').  Duels: tiny
   histories whose goroutines start together (spin barrier) on conflicting
   short paths, repeated by the hundred thousand; identical ones validated once.
2. The same driver built with -race: the race detector monitors the recorded
   executions; every report is normalised to a function-pair signature.
3. CTree.tla (the sequential meaning the histories are held to) is
   model-checked.
4. CTreeLocks.tla - the per-node RWMutex protocol (hand-over-hand descent that
   keeps the ancestors' read locks, reader->writer exchange with re-check,
   deletes under the root write lock that lock every node they inspect, leaf
   handle operations, Go's writer preference) - is model-checked for every
   interleaving of 2-4 operations: the reachable content refines the abstract
   map at every moment no delete is in flight, no conflicting unsynchronised
   access, no deadlock, termination under fairness; six mutants of the protocol
   (no re-check after the exchange, read lock released before descending, visitor
   re-locking its leaf, delete without node locks, terminalAdd checking the node
   kind under the read lock only) must each be refuted.
"""
import json
import os
import time

import vlib
import racelib

PID = "C10"
TIERS = {"quick": dict(n=1200, race_n=1500, shards=48, contend=40, duels=150000), "thorough": dict(n=40000, race_n=30000, shards=96, contend=600, duels=3000000)}


LOCK_CFGS = {"quick": ["none", "core3"], "thorough": ["none", "thorough", "core4"]}
# seeded design errors of the lock protocol and the property each must violate
LOCK_MUTANTS = {"no_recheck": "Refines", "early_release": "Refines", "visitor_value": "deadlock", "delete_no_node_locks": "NoRace",
                "terminal_check_unlocked": "Refines", "delete_empty_check_unlocked": "NoPhantom"}


def is_boundary(e):
    return e.get("ev") == "reset"


def run(tier):
    t0 = time.time()
    T = TIERS[tier]
    work = vlib.workdir(PID)
    drv = vlib.build_driver()
    drv_race = vlib.build_driver(race=True)
    outcome = vlib.Outcome(PID, tier)
    mc = vlib.model_check("CTreeMC.tla", "CTree_quick.cfg", os.path.join(work, "mc"), quiet_prefix='<<"STATE"')
    # lock-level model: every interleaving of a few operations, refinement of the abstract map, race and deadlock freedom
    lk = []
    for cfg in LOCK_CFGS[tier]:
        lk.append((cfg, vlib.model_check("CTreeLocksMC.tla", "CTreeLocks_%s.cfg" % cfg, os.path.join(work, "mc-locks-" + cfg), timeout=2400)))
    lock_mutants = {}
    for m in LOCK_MUTANTS:
        r = vlib.model_check("CTreeLocksMC.tla", "CTreeLocks_%s.cfg" % m, os.path.join(work, "mc-locks-" + m), expect_violation=True)
        lock_mutants[m] = ("deadlock" if "Deadlock reached" in r["out"] else
                           "NoRace" if "Invariant NoRace is violated" in r["out"] else
                           "Refines" if "Invariant Refines is violated" in r["out"] else
                           "NoPhantom" if "Invariant NoPhantom is violated" in r["out"] else "other")
    for m, want in LOCK_MUTANTS.items():
        if lock_mutants[m] != want:
            raise vlib.Infra("CTreeLocks mutant %s was expected to violate %s, TLC reported %s" % (m, want, lock_mutants[m]))

    tr = os.path.join(work, "traces")
    d = vlib.drv_stats(vlib.run_driver(drv, ["ctree", "conc", "-n", str(T["n"]), "-contend", str(T["contend"]), "-duels", str(T["duels"]), "-out", tr, "-shards", str(T["shards"])]))
    files = sorted(os.path.join(tr, f) for f in os.listdir(tr) if f.startswith("conc-"))
    tv = time.time()
    stats, rejs = vlib.validate_traces("CTreeLin.tla", "CTreeLin.cfg", files, os.path.join(work, "val"), is_boundary, deque=True,
                                       timeout=90 if tier == "quick" else 600, scenario_timeout=45 if tier == "quick" else 300)
    if stats["undecided"] * 50 > max(1, d.get("histories", 0)):
        raise vlib.Infra("%d of %d histories could not be decided within the inference budget" % (stats["undecided"], d.get("histories", 0)))
    for r in rejs:
        e = r.event
        sig = "ctree hang" if e.get("ev") == "hang" else "ctree history: %s %s" % (e.get("ev"), e.get("op", ""))
        outcome.report(sig, dict(family="ctreeconc", events=r.scenario, rejected_event=e, reason=r.reason, spec="CTreeLin.tla"))
    vlib.log("[validate] %d history events, %d rejected (%.1fs)" % (stats["events"], len(rejs), time.time() - tv))

    # race build: the detector's reports are observations of the real executions
    rlog = os.path.join(work, "race")
    rtr = os.path.join(work, "traces-race")
    dr = vlib.drv_stats(vlib.run_driver(drv_race, ["ctree", "conc", "-n", str(T["race_n"]), "-duels", str(T["duels"] // 10), "-out", rtr, "-shards", str(T["shards"])],
                                        env={"GORACE": "log_path=%s halt_on_error=0 exitcode=0" % rlog}, timeout=3000))
    races = racelib.parse_reports(rlog)
    for sig, cnt in sorted(races.items()):
        outcome.report(sig, dict(family="race", signature=sig, count=cnt, report=racelib.REPORTS.get(sig, ""), note="Go race detector report while running 'verifdrv-race ctree conc'"))
    vlib.log("[race] %d histories under the race detector, %d distinct report signature(s)" % (dr.get("histories", 0), len(races)))

    total, distinct = vlib.distinct_lines(files, trivial=lambda l: b'"reset"' in l)
    rc = outcome.finish()
    vlib.write_evidence(PID, tier, "model_checking", dict(
        states=mc["distinct"] + sum(r["distinct"] for _, r in lk), transitions=mc["generated"] + sum(r["generated"] for _, r in lk),
        lock_model={c: dict(distinct=r["distinct"], generated=r["generated"]) for c, r in lk}, lock_model_mutants=lock_mutants,
        traces_validated_against_impl=d.get("histories", 0) + dr.get("histories", 0),
        samples=vlib.sample_lines(files, 3, skip=lambda l: b'"reset"' in l or b'"inv"' in l),
        evaluations=stats["events"], distinct_nontrivial=distinct,
        rule="%d concurrent histories (2-16 goroutines, 12-55 operations, <=12 distinct paths of depth <=3, Add/Get/Query/Walk/Delete/UpdateLeaf, random delay "
             "in the reader->writer lock exchange of Add) and the distinct outcomes of %d duels (2-3 goroutines released together by a spin barrier, 1-2 operations each "
             "on a handful of short paths incl. the empty path and leaf-versus-branch conflicts at one position; 96 plans per run, each repeated) "
             "validated against CTreeLin.tla with inferred linearization points; %d contention rounds of 150 ms "
             "(10 goroutines on three hot leaves: queries and walks reading values, updates through retained handles, adds on existing paths, delete+re-add) "
             "in which every goroutine must keep completing operations; %d more histories run under the Go "
             "race detector; distinct_nontrivial = distinct event lines other than reset" % (T["n"], T["duels"], T["contend"], T["race_n"]),
        exhaustive=False, undecided_histories=stats["undecided"], hangs=d.get("hangs", 0) + dr.get("hangs", 0), race_signatures=sorted(races), rejected=len(rejs),
        known_findings_hit=outcome.known, model_drift=0,
        checker_cmd="tlc CTreeMC.tla; tlc CTreeLocksMC.tla (configs %s; mutants %s must fail); tlc CTreeLin.tla per shard (StateDeque, early exit); verifdrv-race ctree conc"
                    % (" ".join(LOCK_CFGS[tier]), " ".join(sorted(LOCK_MUTANTS)))),
        ["TLC and the TLA+ Json/IOUtils modules", "events are emitted under one mutex (file order = real-time order)",
         "the Go race detector reports only races that occur in the executions it monitors",
         "an operation outstanding for 10 s is a hang", "schedules are sampled, not enumerated"],
        time.time() - t0, len(outcome.violations))
    vlib.cleanup(PID)
    return rc


def replay(path):
    with open(path) as f:
        rp = json.load(f)
    if rp.get("family") == "race":
        vlib.log("race reports are re-established by running ./check C10 again (schedules do not recur on demand)")
        return run("quick")
    work = vlib.workdir(PID + "-replay")
    out = os.path.join(work, "replay.ndjson")
    with open(out, "w") as f:
        for e in rp["events"]:
            f.write(json.dumps(e) + "\n")
    outcome = vlib.Outcome(PID, "replay")
    stats, rejs = vlib.validate_traces("CTreeLin.tla", "CTreeLin.cfg", [out], os.path.join(work, "val"), is_boundary, deque=True)
    for r in rejs:
        outcome.report("ctree history: %s %s" % (r.event.get("ev"), r.event.get("op", "")), dict(events=r.scenario, rejected_event=r.event))
    vlib.log("[replay] %d recorded events re-validated, %d rejected" % (stats["events"], len(rejs)))
    return outcome.finish()
