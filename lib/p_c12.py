"""C12 - no message from a remote peer can crash a process.

TLC enumerates the complete shape lattices of Ingest.tla (notifications from a
target x cache state classes; subscribe requests from a client; responses shown
by the client library and the CLI) and prints every tuple as a JSON vector; the
driver materialises each vector as real protobuf messages and feeds it to the
real entry points under recover() - Cache.GnmiUpdate directly and as the
collector hands it over (followed by UpdateMetadata / UpdateSize / Reset, which
would surface a latent crash), Server.Subscribe on an in-memory stream with
concurrent traffic, and client.CacheClient plus cli.QueryDisplay in every
display type over real gRPC against a scripted server - recording outcome and
cache content before/after; TLC validates the recorded outcomes against the
contract (IngestTrace.tla).
"""
import json
import os
import re
import time

import vlib

PID = "C12"
_VEC = re.compile(r'^<<"VEC", "(.*)">>\s*$')


def gen_vectors(family, scratch, out_path):
    t0 = time.time()
    rc, out = vlib.tlc("Ingest.tla", "Ingest_%s.cfg" % family, scratch, workers=1, timeout=900, heap="8g")
    n = 0
    with open(out_path, "w") as f:
        for line in out.splitlines():
            m = _VEC.match(line)
            if m:
                f.write(m.group(1).replace('\\"', '"') + "\n")
                n += 1
    gen, dist = vlib.tlc_counts(out)
    if n == 0 or n != dist:
        raise vlib.Infra("vector generation for %s incomplete: %d printed, %d states\n%s" % (family, n, dist, out[-1500:]))
    vlib.log("[tlc] Ingest.tla/%s: %d vectors (%.1fs)" % (family, n, time.time() - t0))
    return n


def signature(r):
    e = r.event
    bad = [s for s in e.get("steps", []) if s.get("outcome") == "panic"] or \
          [s for s in e.get("steps", []) if s.get("outcome") == "error" and s.get("single") and s.get("before") != s.get("after")]
    if not bad:
        return "ingest %s: contract" % e.get("family")
    s = bad[0]
    site = re.sub(r":\d+", "", s.get("site", "").split(" @ ")[-1]).replace("/repo/", "")
    return "ingest %s %s %s %s" % (e.get("family"), s.get("name"), s.get("outcome"), site)


def run(tier):
    t0 = time.time()
    work = vlib.workdir(PID)
    drv = vlib.build_driver()
    outcome = vlib.Outcome(PID, tier)
    tr = os.path.join(work, "traces")
    sh = "16" if tier == "quick" else "32"
    nvec = 0
    d = {}
    for fam in ("noti", "subreq", "resp"):
        vf = os.path.join(work, "vec_%s.txt" % fam)
        nvec += gen_vectors(fam, os.path.join(work, "gen"), vf)
        # the response family opens five gRPC connections per vector and the one-shot client paths do not
        # all close theirs: one driver process per 1500 vectors keeps it below the descriptor limit
        chunks = [vf]
        if fam == "resp":
            with open(vf) as f:
                lines = f.readlines()
            chunks = []
            for i in range(0, len(lines), 1500):
                cf = "%s.%d" % (vf, i // 1500)
                with open(cf, "w") as f:
                    f.writelines(lines[i:i + 1500])
                chunks.append(cf)
        for ci, cf in enumerate(chunks):
            st = vlib.drv_stats(vlib.run_driver(drv, ["ingest", "run", "-family", fam, "-vectors", cf, "-out", os.path.join(tr, "%s%d" % (fam, ci)), "-shards", sh],
                                                env={"VERIF_GLOG_DIR": os.path.join(work, "glog")}, timeout=3000))
            if st.get("unreached", 0):
                raise vlib.Infra("%d client connections of the %s family never reached the scripted server (their outcomes prove nothing)" % (st["unreached"], fam))
            for k, v in st.items():
                if isinstance(v, int):
                    d[k] = d.get(k, 0) + v
    files = sorted(os.path.join(dp, f) for dp, _, fs in os.walk(tr) for f in fs if f.endswith(".ndjson"))
    stats, rejs = vlib.validate_traces("IngestTrace.tla", "IngestTrace.cfg", files, os.path.join(work, "val"), lambda e: True, max_rejections=4)
    for r in rejs:
        outcome.report(signature(r), dict(family="ingest", rejected_event=r.event, reason=r.reason, spec="IngestTrace.tla"))
    vlib.log("[validate] %d vector outcomes, %d rejected" % (stats["events"], len(rejs)))
    total, distinct = vlib.distinct_lines(files)
    # histories: what one message does can depend on what an earlier one stored (value shapes meeting each other)
    import p_cachefam
    hn, hl = (400, 60) if tier == "quick" else (20000, 80)
    hist = p_cachefam.panic_phase(outcome, work, drv, hn, hl, shards=int(sh))
    rc = outcome.finish()
    vlib.write_evidence(PID, tier, "model_checking", dict(
        states=nvec, transitions=nvec, traces_validated_against_impl=d.get("events", 0) + hist["scenarios"],
        history_scenarios=hist["scenarios"], history_events=hist["events"],
        samples=vlib.sample_lines(files, 3, skip=lambda l: len(l) > 900),
        evaluations=stats["events"], distinct_nontrivial=distinct,
        rule="the complete shape lattices of Ingest.tla as enumerated by TLC: notifications = 8 prefix shapes x 11 path shapes (nil, empty, meta, meta/sync, "
             "meta/connected, meta/connectError, meta/targetLeaves, normal, keyed, glob, deprecated element) x 10 value shapes (nil, no arm, scalars, leaflist with "
             "nil element, json, nil inner decimal, deprecated Value) x atomic x 0-2 updates x 0-1 deletes x equal/newer timestamp x 6 cache state classes, each fed "
             "directly and as the collector stamps it, followed by UpdateMetadata/UpdateSize/Reset; subscribe requests = 1680 shapes; responses = 3168 shapes through "
             "CacheClient and the CLI in 4 display types; plus random cache histories (all 12 value arms with near-equal and prefix-related payloads meeting "
             "each other on the same leaf, same-timestamp variants, wildcard deletes, lifecycle calls) validated by CacheTrace.tla where a panic of the real "
             "code is a rejected call. distinct_nontrivial = distinct recorded vector outcomes",
        exhaustive=True, panics=d.get("panics", 0), rejected=len(rejs), known_findings_hit=outcome.known, model_drift=0,
        checker_cmd="tlc Ingest.tla (3 families, vector generation); tlc IngestTrace.tla per shard"),
        ["TLC and the TLA+ Json/IOUtils modules", "only protobuf-valid structured messages are enumerated: coverage-guided byte-level fuzzing of the wire format is outside this technique",
         "a notification with several updates may be refused in part (the contract 'error => unchanged' applies to single-item and atomic notifications)",
         "metadata leaves are excluded from the before/after comparison (counters legitimately move when a message is refused)"],
        time.time() - t0, len(outcome.violations))
    vlib.cleanup(PID)
    return rc


def replay(path):
    with open(path) as f:
        rp = json.load(f)
    if rp.get("family") == "cache":
        import p_cachefam
        return p_cachefam.replay_family(PID, path)
    vlib.log("C12 vectors are enumerated exhaustively: replay = re-run")
    return run("quick")
