#!/bin/bash
# Development aid: apply a seeded change to /repo, run the named checks, undo the change.
# usage: lib/seedtest.sh <patch> <tier> <check id>...
P=$1; TIER=$2; shift 2
[ -z "$(git -C /repo status --porcelain)" ] || { echo "/repo not clean"; exit 2; }
git -C /repo apply "$P" || exit 2
trap 'git -C /repo checkout -- .' EXIT
for id in "$@"; do
  /verif/check $id --tier $TIER 2>&1 | grep -E 'VIOLATION|KNOWN-FINDING|^\[check\]|Infra|signature|NOTE' | head -8
done
