#!/bin/bash
# Development aid: apply a seeded change to /repo, run the named checks, undo the change.
# Evidence files and replays written by these runs are discarded (evidence describes the unchanged tree only).
# usage: lib/seedtest.sh <patch> <tier> <check id>...
P=$1; TIER=$2; shift 2
[ -z "$(git -C /repo status --porcelain)" ] || { echo "/repo not clean"; exit 2; }
SAVE=$(mktemp -d /tmp/evsave.XXXXXX); cp -a /verif/evidence/. $SAVE/
git -C /repo apply "$P" || exit 2
trap 'git -C /repo checkout -- .; cp -a $SAVE/. /verif/evidence/; find $SAVE -delete' EXIT
for id in "$@"; do
  /verif/check $id --tier $TIER 2>&1 | grep -E 'VIOLATION|KNOWN-FINDING|^\[check\]|Infra|signature|NOTE' | head -8
done
