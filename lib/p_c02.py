"""C02 - see p_cachefam.py (cache family) and DESIGN.md section 5/C02."""
import p_cachefam as fam

PID = "C02"
RULE = "seeded random call sequences on a real cache.Cache (profile 'ts': dense, out-of-order, equal and duplicate timestamps; future thresholds 0/3/10; wildcard deletes; both path encodings; atomic containers); every call is validated by TLC against CacheTrace.tla: result class (ok/stale/future/error) and the complete content read back after the call. distinct_nontrivial = distinct (call, result, feed, content) lines with non-empty content"


def run(tier):
    n, length = (480, 60) if tier == "quick" else (12000, 80)
    cfg = "CacheMC_C02.cfg" if tier == "quick" else "CacheMC_C02_thorough.cfg"
    return fam.run_family(PID, tier, 'ts', n, length, cfg, RULE, shards=16 if tier == "quick" else 48)


def replay(path):
    return fam.replay_family(PID, path)
