"""C16 - shared gRPC connections are reference-counted correctly.

1. Connection.tla (implementation-shaped: Acquire / DialEnd / Read / Release /
   second release; 3 callers x 2 addresses x 3 entries, any dial outcome) is
   model-checked for AtMostOneDial, NoUseAfterClose, ClosedAtLastRelease,
   FailedForgotten, NeverJoinClosed; two mutant configurations (reference
   counted only after the outcome is read; done not idempotent) must yield
   counterexamples.
2. A real connection.Manager is driven by 2-8 goroutines over 1-3 addresses
   with the driver's dial function (success / refusal / slow / context
   cancelled, real lazy grpc.ClientConn objects so that closure is observable),
   releases issued once or twice and after failed requests, random delays at
   the conn.wait / dial.failed hook points; TLC validates the recorded events
   against ConnectionTrace.tla.
"""
import json
import os
import time

import vlib

PID = "C16"
TIERS = {"quick": dict(n=4000, shards=16), "thorough": dict(n=300000, shards=48)}


def is_boundary(e):
    return e.get("ev") == "reset"


def run(tier):
    t0 = time.time()
    T = TIERS[tier]
    work = vlib.workdir(PID)
    drv = vlib.build_driver()
    outcome = vlib.Outcome(PID, tier)
    mc = vlib.model_check("Connection.tla", "Connection_none.cfg", os.path.join(work, "mc"))
    for m in ("ref_after_ready", "no_once", "bad_dialer_lingers"):
        vlib.model_check("Connection.tla", "Connection_%s.cfg" % m, os.path.join(work, "mcm"), expect_violation=True)
    tr = os.path.join(work, "traces")
    files, d, stats, rejs = [], {}, dict(events=0), []
    try:
        d = vlib.drv_stats(vlib.run_driver(drv, ["connection", "random", "-n", str(T["n"]), "-out", tr, "-shards", str(T["shards"])],
                                           env={"VERIF_GLOG_DIR": os.path.join(work, "glog")}, crash_ok=True))
    except vlib.DriverCrash as ex:
        sig = vlib.repo_panic(ex.stderr, "connection")
        if not sig:
            raise vlib.Infra("driver crashed outside the code under test:\n" + ex.stderr[-3000:])
        # the real Manager panicked in one of its own goroutines while being used through its public API
        outcome.report("connection panic: " + sig, dict(family="connection", panic=ex.stderr[-6000:],
                                                        note="connection.Manager panicked during 'verifdrv connection random'"))
    if not outcome.violations:
        files = sorted(os.path.join(tr, f) for f in os.listdir(tr) if f.startswith("conn-"))
        stats, rejs = vlib.validate_traces("ConnectionTrace.tla", "ConnectionTrace.cfg", files, os.path.join(work, "val"), is_boundary)
        for r in rejs:
            e = r.event
            sig = "connection %s %s" % (e.get("ev"), e.get("op", e.get("what", "")))
            outcome.report(sig, dict(family="connection", events=r.scenario, rejected_event=e, reason=r.reason, spec="ConnectionTrace.tla"))
        vlib.log("[validate] %d events, %d rejected" % (stats["events"], len(rejs)))
    total, distinct = vlib.distinct_lines(files, trivial=lambda l: b'"reset"' in l) if files else (0, 2)
    rc = outcome.finish()
    vlib.write_evidence(PID, tier, "model_checking", dict(
        states=mc["distinct"], transitions=mc["generated"], traces_validated_against_impl=d.get("scenarios", 0),
        samples=vlib.sample_lines(files, 3, skip=lambda l: b'"reset"' in l) if files else ["driver crashed: see violation"],
        evaluations=stats["events"], distinct_nontrivial=distinct,
        rule="%d scenarios: 2-8 goroutines x 1-4 requests over 1-3 addresses, dial failure rate 0/20/50/80 %%, pre-cancelled and asynchronously cancelled "
             "contexts, single and double releases, releases after failed requests, random delays at conn.wait/dial.failed and inside the dial function; "
             "distinct_nontrivial = distinct event lines other than reset" % T["n"],
        exhaustive=False, rejected=len(rejs), known_findings_hit=outcome.known, model_drift=0,
        mutant_configs_violated=["Connection_ref_after_ready.cfg", "Connection_no_once.cfg", "Connection_bad_dialer_lingers.cfg"],
        checker_cmd="tlc Connection.tla (4 cfgs); tlc ConnectionTrace.tla per shard"),
        ["TLC and the TLA+ Json/IOUtils modules", "events carry the set of connections observed in state Shutdown at emission, under one mutex",
         "closure is observed through grpc.ClientConn.GetState(); a double Close is not observable", "schedules are sampled, not enumerated"],
        time.time() - t0, len(outcome.violations))
    vlib.cleanup(PID)
    return rc


def replay(path):
    with open(path) as f:
        rp = json.load(f)
    if "events" not in rp:
        return run("quick")
    work = vlib.workdir(PID + "-replay")
    out = os.path.join(work, "replay.ndjson")
    with open(out, "w") as f:
        for e in rp["events"]:
            f.write(json.dumps(e) + "\n")
    outcome = vlib.Outcome(PID, "replay")
    stats, rejs = vlib.validate_traces("ConnectionTrace.tla", "ConnectionTrace.cfg", [out], os.path.join(work, "val"), is_boundary)
    for r in rejs:
        outcome.report("connection %s" % r.event.get("ev"), dict(events=r.scenario, rejected_event=r.event))
    vlib.log("[replay] %d recorded events re-validated, %d rejected" % (stats["events"], len(rejs)))
    return outcome.finish()
