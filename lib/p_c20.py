"""C20 - the synthetic target emits an ordered, bounded, reproducible update stream."""
import p_simple

PID = "C20"
RULE = ("%d random generator configurations (1-5 values of kind int/uint/double range with or without deltas, int/string/bool option lists cyclic or random, string lists (random sub-list or rotating options), "
        "constants, delete, initial timestamps 0-5, timestamp deltas 0-5 incl. fixed periods, repeat 0/1/2/3/5, per-value and global seeds, plus the sync "
        "value injected as the fake client does) each run twice with the same seed for up to %d validated emissions (window 4x for look-ahead); TLC validates "
        "every emission against FakeQueueTrace.tla: it is the head of the first timestamp bucket with exactly the pending timestamp/content/repeat, "
        "timestamps never decrease, the inferred draw respects delta bounds / ranges with clamping / option lists (cyclic position), repeat counts are "
        "exact, the sync value follows the first emission of every value, and both generators emit the same. Second stage: %d further configurations are "
        "streamed by the repository's own fake gNMI agent (testing/fake/gnmi agent.go/client.go, which builds the queue and injects the sync marker itself) "
        "over gRPC, twice each, and the responses read off the wire are validated by the same specification (repeat counts are checked through exhaustion, "
        "the sync response carries no timestamp). distinct_nontrivial = distinct emission lines")


def run(tier):
    n, emit = (1500, 60) if tier == "quick" else (60000, 120)
    an = 400 if tier == "quick" else 12000
    sh = "16" if tier == "quick" else "48"
    return p_simple.run(PID, tier, [("FakeQueue.tla", "FakeQueue.cfg", False)],
                        [["fakequeue", "random", "-n", str(n), "-emit", str(emit), "-shards", sh],
                         ["fakequeue", "random", "-agent", "-n", str(an), "-emit", str(emit), "-shards", sh]],
                        "FakeQueueTrace.tla", RULE % (n, emit, an),
                        ["configurations stay far from int64 overflow", "doubles are logged in thousandths (slack 1 for rounding)",
                         "the draw of the pseudo-random generator is inferred from the same value's next emission in the recorded sequence",
                         "the FixedQueue is not covered; string-list options are distinct; the agent stage uses STREAM subscriptions without delays"],
                        boundary=("cfg",), trivial=lambda l: b'"ev":"cfg"' in l or b'"ev":"end"' in l)


def replay(path):
    return p_simple.replay_events(PID, path, "FakeQueueTrace.tla", boundary=("cfg",))
