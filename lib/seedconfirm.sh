#!/bin/bash
# Development aid: confirm a seeded change delivered by a sub-agent in ${SEEDDIR:-/tmp/seed}/<ID> and file it under /verif/seeded/<ID>/.
# usage: lib/seedconfirm.sh <ID> <property> "<test packages>" "<demo run regex>" <demo pkg dir>
set -u
ID=$1; PROP=$2; PKGS=$3; RUN=$4; DEMODIR=$5
export GOFLAGS=-mod=mod GOPROXY=off GOSUMDB=off GOTOOLCHAIN=local
WT=/tmp/seedconfirm-$ID
rm -rf $WT; git -C /repo worktree prune; git -C /repo worktree add -q --detach $WT HEAD || exit 2
cd $WT
cp ${SEEDDIR:-/tmp/seed}/${ID}_demo_test.go $DEMODIR/seed_${ID,,}_test.go
echo "== demo on original code (must pass)"; go test ./$DEMODIR/ -run "$RUN" -count=1 2>&1 | tail -3; R0=${PIPESTATUS[0]}
git apply ${SEEDDIR:-/tmp/seed}/$ID.patch || { echo "patch does not apply"; exit 2; }
echo "== build + existing tests with the change (must pass)"
mv $DEMODIR/seed_${ID,,}_test.go /tmp/seedconfirm-$ID.demo
go build ./... && go test $PKGS -count=1 2>&1 | tail -8; R1=${PIPESTATUS[0]}
mv /tmp/seedconfirm-$ID.demo $DEMODIR/seed_${ID,,}_test.go
echo "== demo with the change (must fail)"; go test ./$DEMODIR/ -run "$RUN" -count=1 2>&1 | tail -5; R2=${PIPESTATUS[0]}
echo "RESULT demo_orig=$R0 tests_changed=$R1 demo_changed=$R2"
cd /; git -C /repo worktree remove --force $WT
