"""C03 - see p_cachefam.py (cache family) and DESIGN.md section 5/C03."""
import p_cachefam as fam

PID = "C03"
RULE = "seeded random call sequences on a real cache.Cache (profile 'feed': multi-update/delete notifications, atomic containers, wildcard deletes, shared prefix/path objects with spare slice capacity, Reset/Remove, event-driven emulation on and off); TLC validates against CacheTrace.tla that the feed entries received by the SetClient callback during each call are exactly those Cache.tla prescribes, that replaying them reproduces the content read back (mirror = store) after every call, and that the caller's notification is unmodified. distinct_nontrivial = distinct (call, result, feed, content) lines with non-empty content"


def run(tier):
    n, length = (480, 60) if tier == "quick" else (12000, 80)
    cfg = "CacheMC_C03.cfg" if tier == "quick" else "CacheMC_C03_thorough.cfg"
    return fam.run_family(PID, tier, 'feed', n, length, cfg, RULE, shards=16 if tier == "quick" else 48)


def replay(path):
    return fam.replay_family(PID, path)
