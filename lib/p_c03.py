"""C03 - see p_cachefam.py (cache family) and DESIGN.md section 5/C03."""
import json

import p_cachefam as fam
import p_simple

PID = "C03"
RULE = "seeded random call sequences on a real cache.Cache (profile 'feed': multi-update/delete notifications, atomic containers, wildcard deletes, shared prefix/path objects with spare slice capacity, Reset/Remove, event-driven emulation on and off); TLC validates against CacheTrace.tla that the feed entries received by the SetClient callback during each call are exactly those Cache.tla prescribes, that replaying them reproduces the content read back (mirror = store) after every call, and that the caller's notification is unmodified. distinct_nontrivial = distinct (call, result, feed, content) lines with non-empty content"

CONC_RULE = ("between quiescent points: %d scenarios of 6-13 rounds on a real cache.Cache in which 2-3 writers update ONE target at the same time (a fresh or an "
             "existing leaf, timestamps handed out in shuffled order, single and two-update notifications, now and then a writer on a second target), placed "
             "with the cache's feed.before hook - a writer is held where it is about to hand its leaf to the feed while the others run their whole call - or "
             "started together behind a barrier; deletes (leaf, subtree, with an update) come in rounds of their own. The feed callback records what the leaf "
             "it is handed holds; after every round the cache is read back and TLC (CacheFeedConcTrace.tla) requires the replayed feed to equal it (values; "
             "timestamps too when all values are distinct), every entry to be something a writer wrote and every accepted single update to have its entry")


def run(tier):
    n, length = (480, 60) if tier == "quick" else (12000, 80)
    cfg = "CacheMC_C03.cfg" if tier == "quick" else "CacheMC_C03_thorough.cfg"
    rc1 = fam.run_family(PID, tier, 'feed', n, length, cfg, RULE, shards=16 if tier == "quick" else 48)
    cn = 1500 if tier == "quick" else 60000
    # CacheFeed.tla: the critical sections of GnmiUpdate for several writers of one target; "snapshot" is seeded change C03-6,
    # "with_deletes" documents why the concurrent rounds carry no deletes (the design itself has no defined outcome there)
    models = [("CacheFeed.tla", "CacheFeed_none.cfg", False), ("CacheFeed.tla", "CacheFeed_snapshot.cfg", True),
              ("CacheFeed.tla", "CacheFeed_with_deletes.cfg", True)]
    rc2 = p_simple.run(PID, tier, models, [["cache", "feedconc", "-n", str(cn), "-shards", "8" if tier == "quick" else "32"]],
                       "CacheFeedConcTrace.tla", CONC_RULE % cn,
                       ["between quiescent points: concurrent rounds carry update notifications only (a delete racing with an update of the same leaf has "
                        "no defined outcome for two writers of one target); the feed callback reads the leaf it is handed under the recorder's lock, so the "
                        "recorded order is the order in which the entries were taken"],
                       boundary=("fsc",), count_keys=("scenarios",), sig=lambda r: "cache feed (concurrent writers) %s" % r.event.get("ev"),
                       trivial=lambda l: b'"ev":"fsc"' in l or b'"leaves":[]' in l, merge=True, stage="-fconc", crash_pkg="cache")
    return max(rc1, rc2)


def replay(path):
    with open(path) as f:
        if json.load(f).get("spec") == "CacheFeedConcTrace.tla":
            return p_simple.replay_events(PID, path, "CacheFeedConcTrace.tla", boundary=("fsc",))
    return fam.replay_family(PID, path)
