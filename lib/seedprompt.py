#!/usr/bin/env python3
"""Development aid: write the briefs for a round of seeded-change sub-agents.

usage: lib/seedprompt.py <dir> <ID>...      (e.g. lib/seedprompt.py /tmp/seed4 C07 C09)
For each ID it writes <dir>/<ID>.prop.txt (the property text only) and <dir>/prompts/<ID>.txt (the complete brief);
the brief names what earlier kept changes for that property did (from seeded/<ID>*/meta.json) so that the agent picks
a different clause or mechanism. Nothing else from /verif is given to the agent.
"""
import glob
import json
import os
import sys

VERIF = os.path.dirname(os.path.dirname(os.path.abspath(__file__)))

T = '''You are helping test a verification framework by producing ONE realistic, subtle bug ("seeded change") in the Go repository openconfig/gnmi. You work ONLY inside the git worktree {DIR}/{ID} (a checkout of the repository; do NOT touch /repo or /verif, and do not read anything under /verif). Go toolchain is available offline: before any go command run `export GOFLAGS=-mod=mod GOPROXY=off GOSUMDB=off GOTOOLCHAIN=local`.

The semantic property you must BREAK (text also in {DIR}/{ID}.prop.txt):

{ID} - {PROP}

Note: files hook_verif.go/hook_noverif.go and calls to verifAt(...) are inert instrumentation; leave them alone. {HINT}

Requirements for your change:
1. A small change to non-test source (typically 1-10 lines, in the files the property is anchored in) of the kind a developer could plausibly make by mistake or in a careless refactoring or "optimisation".
2. The repository must still compile (`go build ./...`) and the EXISTING test suites must still pass unedited (run at least `go test {PKGS}`; the subscribe package tests take about 30 s and contain one or two timing-sensitive tests that can fail under heavy machine load - re-run before concluding; do not edit existing tests).
3. It must violate the property above, but only when something specific happens - a particular input shape, a particular sequence or history, a particular interleaving, a particular configuration - NOT something ordinary use would expose at once. Prefer a change that does not simply make the code panic (unless the property is about not panicking) - wrong content, a lost or extra message, a leak or a stale entry is more interesting than a crash. Pick something DIFFERENT from the obvious first idea if you can: think about which clause of the property is least protected by the existing tests.
4. Provide a demonstration: a NEW Go test file that FAILS with your change and PASSES on the original code (verify both, several runs if concurrency is involved).

Deliverables (write these files, then report):
- {DIR}/{ID}.patch : `git diff` of the non-test source change only (must apply with `git apply` to a clean checkout).
- {DIR}/{ID}_demo_test.go : the demonstration test file (state in a comment at the top in which package directory it has to be placed and the exact `go test -run 'TestSeed{ID}' ...` command; name the test functions TestSeed{ID}...).
- In your final answer: a 5-10 line description: what the change is, which clause of the property it breaks, what exactly is needed for it to manifest, and the commands you ran with their results.
Leave the worktree with your change applied and the demo test file in place.'''

H = {
    'C01': ("The collector binary is cmd/gnmi_collector (uses collector/, manager/, connection/, cache/, subscribe/, target/), the CLI is cmd/gnmi_cli (uses cli/, client/); an end-to-end demonstration test may start in-process gRPC servers.", "./cmd/... ./collector/ ./cache/ ./subscribe/ ./manager/ ./client/... ./cli/"),
    'C02': ("The change may be in cache/cache.go or ctree/tree.go.", "./cache/ ./ctree/ ./subscribe/"),
    'C03': ("The change may be in cache/cache.go, value/value.go or ctree/tree.go.", "./cache/ ./value/ ./ctree/ ./subscribe/"),
    'C04': ("The change may be in subscribe/subscribe.go, coalesce/coalesce.go, cache/cache.go or match/match.go.", "./subscribe/ ./coalesce/ ./cache/ ./match/ ./ctree/"),
    'C05': ("The change may be in subscribe/subscribe.go, cache/cache.go, ctree/tree.go or path/path.go.", "./subscribe/ ./cache/ ./ctree/ ./path/ ./coalesce/"),
    'C06': ("The change may be in match/match.go or the way subscribe/subscribe.go registers/removes/uses matches.", "./match/ ./subscribe/ ./cache/"),
    'C07': ("The change is in subscribe/subscribe.go (ACL handling). An ACL is installed with subscribe.WithACL(...).", "./subscribe/"),
    'C08': ("The change may be in subscribe/subscribe.go or coalesce/coalesce.go.", "./subscribe/ ./coalesce/ ./cache/"),
    'C09': ("The change is in ctree/tree.go (sequential semantics).", "./ctree/ ./cache/ ./subscribe/"),
    'C10': ("The change is in ctree/tree.go (locking / re-check logic). A demonstration may need many iterations or the race detector (`go test -race`); say so.", "./ctree/ ./cache/ ./subscribe/"),
    'C11': ("The change is in coalesce/coalesce.go.", "./coalesce/ ./subscribe/"),
    'C12': ("Pick ONE of the message-handling paths named in the property and make it crash (panic) or corrupt stored data on one particular, unusual but protobuf-valid message shape or history, while ordinary messages keep working.", "./cache/ ./value/ ./ctree/ ./subscribe/ ./client/... ./cli/ ./path/ ./manager/"),
    'C13': ("The change is in manager/manager.go.", "./manager/ ./connection/ ./collector/ ./cmd/gnmi_collector/"),
    'C14': ("The change may be in cache/cache.go, metadata/metadata.go or subscribe/subscribe.go.", "./cache/ ./metadata/ ./subscribe/"),
    'C15': ("The change may be in cache/cache.go, metadata/metadata.go or latency/latency.go.", "./cache/ ./metadata/ ./latency/ ./subscribe/"),
    'C16': ("The change is in connection/connection.go.", "./connection/ ./manager/ ./cmd/gnmi_collector/"),
    'C17': ("The change is in target/target.go.", "./target/ ./cmd/gnmi_collector/ ./collector/ ./manager/"),
    'C18': ("The change may be in client/reconnect.go, client/client.go, client/cache.go or client/gnmi/client.go.", "./client/... ./cache/"),
    'C19': ("The change may be in path/path.go, value/value.go, client/gnmi/client.go or client/query.go.", "./client/... ./cli/ ./path/ ./value/"),
    'C20': ("The change is under testing/fake/queue/ (or testing/fake/gnmi/).", "./testing/fake/... ./cmd/... ./cli/"),
}


def main():
    d = sys.argv[1]
    os.makedirs(os.path.join(d, "prompts"), exist_ok=True)
    props = {}
    for l in open(os.path.join(VERIF, "properties.jsonl")):
        p = json.loads(l)
        props[p['id']] = p
    for pid in sys.argv[2:]:
        p = props[pid]
        prop = "Title: %s\n\nStatement: %s\n\nQuantifier: %s\n\nWhy tests cannot settle it: %s\n\nAnchored in files: %s\n" % (
            p['title'], p['statement'], p['quantifier']['text'], p['why_tests_cant'], ", ".join(p['anchors']['files']))
        prev = []
        for mf in sorted(glob.glob(os.path.join(VERIF, "seeded", pid + "*", "meta.json"))):
            prev.append(json.load(open(mf))['needs_to_manifest'].split(':')[0])
        hint, pk = H[pid]
        if prev:
            hint += (" IMPORTANT: earlier seeded changes for this property already did the following, so do something that breaks a DIFFERENT clause "
                     "or uses a different mechanism or a different part of the code: " + "; ".join('(%d) "%s"' % (i + 1, x) for i, x in enumerate(prev)) +
                     ". Prefer a change whose effect depends on an unusual input shape, configuration, multi-step history or interleaving that a randomized "
                     "test driver would be unlikely to hit by accident.")
        open(os.path.join(d, pid + ".prop.txt"), "w").write(prop)
        open(os.path.join(d, "prompts", pid + ".txt"), "w").write(
            T.replace('{DIR}', d).replace('{ID}', pid).replace('{PROP}', prop).replace('{HINT}', hint).replace('{PKGS}', pk))
        print("wrote", os.path.join(d, "prompts", pid + ".txt"))


if __name__ == "__main__":
    main()
