"""Go race detector as a run-time monitor of recorded executions: parse its
reports into normalised signatures (pairs of function names)."""
import glob
import os
import re

_FN = re.compile(r"^\s{2}(\S+)\(\)\s*$")


REPORTS = {}     # signature -> text of the first report with that signature (both stacks), for the replay file


def parse_reports(prefix):
    """Return {signature: count} for all reports written under log_path=prefix."""
    sigs = {}
    for path in glob.glob(prefix + ".*"):
        with open(path, errors="replace") as f:
            text = f.read()
        for rep in text.split("WARNING: DATA RACE")[1:]:
            stacks = []
            cur = None
            for line in rep.splitlines():
                if re.match(r"^(Read|Write|Previous read|Previous write|Atomic)", line.strip()) and " by " in line:
                    cur = []
                    stacks.append((line.strip().split(" at ")[0], cur))
                elif line.startswith("Goroutine ") or line.startswith("=="):
                    cur = None
                elif cur is not None:
                    m = _FN.match(line)
                    if m:
                        cur.append(m.group(1))
            parts = []
            for kind, st in stacks[:2]:
                fn = next((x for x in st if "openconfig/gnmi" in x), st[0] if st else "?")
                parts.append("%s %s" % (kind.lower().replace("previous ", ""), fn.split("openconfig/gnmi/")[-1]))
            sig = "race: " + " x ".join(sorted(parts))
            sigs[sig] = sigs.get(sig, 0) + 1
            REPORTS.setdefault(sig, ("WARNING: DATA RACE" + rep)[:8000])
    return sigs


def clean(prefix):
    for path in glob.glob(prefix + ".*"):
        try:
            os.remove(path)
        except OSError:
            pass
