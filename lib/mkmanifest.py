#!/usr/bin/env python3
"""Regenerates /verif/MANIFEST.json from the table below (single source)."""
import json
import os

VERIF = os.path.dirname(os.path.dirname(os.path.abspath(__file__)))

CHECKS = {
    "C09": dict(
        category="model_checking",
        text="CTree.tla is model-checked exhaustively (all trees with stored paths <=2 over {a,b,*}); every distinct tree TLC reaches is rebuilt in a real "
             "ctree.Tree and every public operation is applied with every argument (one real call per specification transition), plus seeded random "
             "sequences; TLC validates every recorded call (result and content read back) against CTreeTrace.tla. Exhaustive within the bound, sampled beyond.",
        design_ref="5/C09",
        note="Trusts TLC, the TLA+ Json module and the driver's faithful logging of calls/results; nil values are not stored; single goroutine only (C10 covers concurrency).",
        technique="TLA+ spec (CTree) + TLC exhaustive universe -> replay on real ctree.Tree -> TLC trace validation (CTreeTrace)"),
}

CACHE_NOTE = ("Trusts TLC, the TLA+ Json module and the driver's projection of protobuf messages to index paths and value tokens (no oracle logic in Go). "
              "Assumes a clock that does not run backwards, no re-Add of a known target, no atomic/plain leaf at the same exact path, no NaN/-0, no path-level origins (DESIGN note N1). "
              "Sequential use only (concurrency of the cache is covered through C04/C10/C15-race).")
CHECKS.update({
    "C02": dict(category="model_checking",
        text="Cache.tla/CacheMC.tla are model-checked exhaustively for every history of <=4 (thorough <=5) update/delete calls over 4 paths, 2 values, 3 timestamps with a future threshold "
             "(invariants NewestInv, LatestInv, MirrorInv, action property RejectedUnchanged); thousands of seeded random call sequences with dense/out-of-order/equal timestamps are executed on the real "
             "cache.Cache and every call (result class, full content read back) is validated by TLC against CacheTrace.tla.",
        design_ref="5/C02", note=CACHE_NOTE,
        technique="TLA+ spec (Cache, CacheMC) exhaustive TLC + trace validation of real cache.Cache executions (CacheTrace)"),
    "C03": dict(category="model_checking",
        text="The change feed is part of Cache.tla: CacheMC checks MirrorInv (replaying the feed reproduces the store) exhaustively for <=4 calls incl. atomic containers, wildcard deletes and Reset, "
             "with a mutant configuration proving the invariant bites; on the real cache the driver tees the SetClient callback, and TLC validates for every call of thousands of random sequences "
             "(multi-update/delete, atomic, aliasing prefix objects with spare capacity, event-driven on/off) that the feed entries are exactly the prescribed ones, that the mirror equals the content read back, "
             "and that the caller's notification is unmodified.",
        design_ref="5/C03", note=CACHE_NOTE,
        technique="TLA+ spec (Cache, CacheMC MirrorInv) exhaustive TLC + trace validation of feed/mirror on real cache.Cache (CacheTrace)"),
    "C14": dict(category="model_checking",
        text="CacheMC with 2 targets checks Isolation, ResetClears, RemoveForgets and MirrorInv exhaustively for <=4 calls (updates, deletes, lifecycle, Reset, Remove, Add); on the real cache random histories over 2-4 "
             "targets (names that are prefixes of each other, overlapping paths) are validated by TLC call by call: content and metadata of every target are re-read after every call, so any cross-target effect, "
             "an unannounced removal or a surviving leaf is rejected.",
        design_ref="5/C14", note=CACHE_NOTE + " The clause 'ends single-target subscriptions cleanly' is decided with the Subscribe family, not here.",
        technique="TLA+ spec (Cache, CacheMC Isolation/ResetClears) exhaustive TLC + trace validation on real cache.Cache (CacheTrace)"),
    "C15": dict(category="model_checking",
        text="Counters are state of Cache.tla; CacheMC checks CountersInv (leaves = stored non-meta leaves = added - deleted >= 0), LatestInv and ResetClears exhaustively; on the real cache every target's counters "
             "(Cache.Metadata()) and exported meta leaves are read after every call of random histories mixing updates with Sync/Connect/ConnectError/Reset/UpdateMetadata/UpdateSize and validated by TLC against the specification's counters.",
        design_ref="5/C15", note=CACHE_NOTE + " Latency statistics and the concurrent-refresh clause are not yet decided by this check (see DESIGN.md section 6).",
        technique="TLA+ spec (Cache counters, CacheMC CountersInv/LatestInv) exhaustive TLC + trace validation of Cache.Metadata() on real cache.Cache (CacheTrace)"),
})
CHECKS["C11"] = dict(category="model_checking",
    text="Coalesce.tla (sequential semantics: FIFO by first pending insertion, dup counts, conservation, refusal after close) and CoalesceChan.tla (implementation-shaped: mutex, capacity-1 token channel, "
         "closed broadcast; 2 producers x 2 inserts, consumer, closer, canceller) are model-checked exhaustively incl. liveness (consumer returns, pending items are consumed) and two mutant configurations "
         "(token before insert, no Len()==0 re-check) must yield counterexamples. On the real coalesce.Queue: every sequence of length 5 (thorough 6) over Insert a/b/c, Next, Close, IsClosed and random long "
         "sequences are validated linearly (CoalesceTrace); thousands of concurrent histories with delays at the three hook points are validated against CoalesceLin with TLC inferring the linearization points; "
         "a consumer not woken within 5 s is a 'hang' event no action accepts.",
    design_ref="5/C11",
    note="Trusts TLC/Json, the mutex-serialised event log (file order = real-time order), and the 5 s watchdog bound. Concurrent schedules are sampled (seeded delays at hook points), not enumerated; "
         "the exhaustive interleaving argument is carried by CoalesceChan.tla, bound to the code by the same hook points.",
    technique="TLA+ specs (Coalesce, CoalesceChan incl. liveness + mutants) exhaustive TLC; trace validation of sequential runs and linearizability-style validation of concurrent histories (CoalesceLin)")

NOT_YET = {
}

ALL = ["C%02d" % i for i in range(1, 21)]


def main():
    checks = []
    for pid in sorted(CHECKS):
        c = CHECKS[pid]
        checks.append(dict(
            property_id=pid,
            quick_cmd="./check %s --tier quick" % pid,
            thorough_cmd="./check %s --tier thorough" % pid,
            evidence_file="/verif/evidence/%s.json" % pid,
            replay_cmd_template="./check %s --replay {path}" % pid,
            engine="tlc+verifdrv",
            level_claimed=dict(category=c["category"], text=c["text"], design_ref=c["design_ref"]),
            level_note=c["note"],
            technique=c["technique"]))
    na = []
    for pid in ALL:
        if pid not in CHECKS:
            na.append(dict(property_id=pid, reason=NOT_YET.get(pid, "not claimed yet: the specification/harness for this property is still being built (see DESIGN.md section 11 for the build order); no check is registered until it is green on the unchanged tree")))
    hooks = []
    hp = os.path.join(VERIF, "hook_commits.txt")
    if os.path.exists(hp):
        hooks = [l.split()[0] for l in open(hp) if l.strip() and not l.startswith("#")]
    m = dict(
        version=1,
        setup_cmd="cd /verif/harness && cp /repo/go.sum go.sum && GOFLAGS=-mod=mod GOPROXY=off GOSUMDB=off GOTOOLCHAIN=local go build -tags verif -o /verif/.work/bin/verifdrv ./cmd/verifdrv",
        hooks=dict(
            guard="verif",
            enable="go build -tags verif (the harness module /verif/harness replaces github.com/openconfig/gnmi with /repo, so every check rebuilds from /repo's working tree)",
            baseline_off_cmd="cd /repo && GOFLAGS=-mod=mod GOPROXY=off go test -vet=off -count=1 ./...",
            source_commits=hooks,
            add_only=True),
        engines=[dict(name="tlc+verifdrv", path="/verif/check", serves_properties=sorted(CHECKS),
                      kind_free_text="explicit TLA+ specifications in /verif/specs checked with TLC; Go driver /verif/harness/cmd/verifdrv executes the real code "
                                     "(TLC-generated and random scenarios) and records ndjson traces; TLC validates the traces against *Trace.tla")],
        checks=checks,
        notes="Exit codes: 0 held, 1 VIOLATION line printed, 2 no verdict (infrastructure). VERIF_SEED seeds every random choice. Known findings: /verif/known_findings.json.",
        not_applicable=na)
    with open(os.path.join(VERIF, "MANIFEST.json"), "w") as f:
        json.dump(m, f, indent=1)
        f.write("\n")


if __name__ == "__main__":
    main()
