#!/usr/bin/env python3
"""Regenerates /verif/MANIFEST.json from the table below (single source)."""
import json
import os

VERIF = os.path.dirname(os.path.dirname(os.path.abspath(__file__)))

CHECKS = {
    "C09": dict(
        category="model_checking",
        text="CTree.tla is model-checked exhaustively (all trees with stored paths <=2 over {a,b,*}); every distinct tree TLC reaches is rebuilt in a real "
             "ctree.Tree and every public operation is applied with every argument (one real call per specification transition), plus seeded random "
             "sequences; TLC validates every recorded call (result and content read back) against CTreeTrace.tla. Exhaustive within the bound, sampled beyond.",
        design_ref="5/C09",
        note="Trusts TLC, the TLA+ Json module and the driver's faithful logging of calls/results; nil values are not stored; single goroutine only (C10 covers concurrency).",
        technique="TLA+ spec (CTree) + TLC exhaustive universe -> replay on real ctree.Tree -> TLC trace validation (CTreeTrace)"),
}

CACHE_ADD = (" After every call the driver also compares every notification it has handed to the cache earlier in the scenario with a copy taken before the call "
             "(the caller's notification stays unmodified, also by later calls).")
CACHE_NOTE = ("Trusts TLC, the TLA+ Json module and the driver's projection of protobuf messages to index paths and value tokens (no oracle logic in Go). "
              "Assumes a clock that does not run backwards, no re-Add of a known target, no atomic/plain leaf at the same exact path, no NaN/-0, no path-level origins (DESIGN note N1). "
              "Sequential use only (concurrency of the cache is covered through C04/C10/C15-race).")
CHECKS.update({
    "C02": dict(category="model_checking",
        text="Cache.tla/CacheMC.tla are model-checked exhaustively for every history of <=4 (thorough <=5) update/delete calls over 4 paths, 2 values, 3 timestamps with a future threshold "
             "(invariants NewestInv, LatestInv, MirrorInv, action property RejectedUnchanged); thousands of seeded random call sequences with dense/out-of-order/equal timestamps are executed on the real "
             "cache.Cache and every call (result class, full content read back) is validated by TLC against CacheTrace.tla.",
        design_ref="5/C02", note=CACHE_NOTE,
        technique="TLA+ spec (Cache, CacheMC) exhaustive TLC + trace validation of real cache.Cache executions (CacheTrace)"),
    "C03": dict(category="model_checking",
        text="The change feed is part of Cache.tla: CacheMC checks MirrorInv (replaying the feed reproduces the store) exhaustively for <=4 calls incl. atomic containers, wildcard deletes and Reset, "
             "with a mutant configuration proving the invariant bites; on the real cache the driver tees the SetClient callback, and TLC validates for every call of thousands of random sequences "
             "(multi-update/delete, atomic, aliasing prefix objects with spare capacity, event-driven on/off) that the feed entries are exactly the prescribed ones, that the mirror equals the content read back, "
             "and that the caller's notification is unmodified.",
        design_ref="5/C03", note=CACHE_NOTE,
        technique="TLA+ spec (Cache, CacheMC MirrorInv) exhaustive TLC + trace validation of feed/mirror on real cache.Cache (CacheTrace)"),
    "C14": dict(category="model_checking",
        text="CacheMC with 2 targets checks Isolation, ResetClears, RemoveForgets and MirrorInv exhaustively for <=4 calls (updates, deletes, lifecycle, Reset, Remove, Add); on the real cache random histories over 2-4 "
             "targets (names that are prefixes of each other, overlapping paths) are validated by TLC call by call: content and metadata of every target are re-read after every call, so any cross-target effect, "
             "an unannounced removal or a surviving leaf is rejected.",
        design_ref="5/C14", note=CACHE_NOTE + " The clause 'ends single-target subscriptions cleanly' is decided with the Subscribe family, not here.",
        technique="TLA+ spec (Cache, CacheMC Isolation/ResetClears) exhaustive TLC + trace validation on real cache.Cache (CacheTrace)"),
    "C15": dict(category="model_checking",
        text="Counters are state of Cache.tla; CacheMC checks CountersInv (leaves = stored non-meta leaves = added - deleted >= 0), LatestInv and ResetClears exhaustively; on the real cache every target's counters "
             "(Cache.Metadata()) and exported meta leaves are read after every call of random histories mixing updates with Sync/Connect/ConnectError/Reset/UpdateMetadata/UpdateSize and validated by TLC against the specification's counters. "
             "Latency clause: Latency.tla (batch, slots, slide, export) is model-checked for Bounded/Window with three mutants that must violate them, and every export of the real latency.Latency "
             "(stubbed clock; zero, negative and outlier latencies; regular and irregular update times; precisions 1/10/1000 ns) is validated by LatencyTrace.tla against the extremes of the recorded samples. "
             "Concurrent-refresh clause: one update stream per target concurrently with UpdateMetadata/UpdateSize/readers under the race-detector build; final counters validated by CacheConcTrace.tla.",
        design_ref="5/C15, 12", note=CACHE_NOTE + " The latency window is taken at the granularity of the update calls; the initial-coverage rule is not checked; races are found only in monitored executions "
                                                   "(one genuine race found and repaired, c326314).",
        technique="TLA+ specs (Cache counters: CacheMC CountersInv/LatestInv; Latency.tla Bounded/Window with mutants) exhaustive TLC + trace validation on real cache.Cache (CacheTrace), "
                  "latency.Latency (LatencyTrace) and concurrent executions under the race detector (CacheConcTrace)"),
})
CHECKS["C11"] = dict(category="model_checking",
    text="Coalesce.tla (sequential semantics: FIFO by first pending insertion, dup counts, conservation, refusal after close) and CoalesceChan.tla (implementation-shaped: mutex, capacity-1 token channel, "
         "closed broadcast; 2 producers x 2 inserts, consumer, closer, canceller) are model-checked exhaustively incl. liveness (consumer returns, pending items are consumed) and two mutant configurations "
         "(token before insert, no Len()==0 re-check) must yield counterexamples. On the real coalesce.Queue: every sequence of length 5 (thorough 6) over Insert a/b/c, Next, Close, IsClosed and random long "
         "sequences are validated linearly (CoalesceTrace); thousands of concurrent histories with delays at the three hook points are validated against CoalesceLin with TLC inferring the linearization points; "
         "a consumer not woken within 5 s is a 'hang' event no action accepts.",
    design_ref="5/C11",
    note="Trusts TLC/Json, the mutex-serialised event log (file order = real-time order), and the 5 s watchdog bound. Concurrent schedules are sampled (seeded delays at hook points), not enumerated; "
         "the exhaustive interleaving argument is carried by CoalesceChan.tla, bound to the code by the same hook points.",
    technique="TLA+ specs (Coalesce, CoalesceChan incl. liveness + mutants) exhaustive TLC; trace validation of sequential runs and linearizability-style validation of concurrent histories (CoalesceLin)")
SUB_NOTE = ("Trusts TLC/Json, the mutex-serialised event log (file order = real-time order, responses logged at Send entry), and the driver's sentinel-based quiescence "
            "(two awaited sentinel updates per target through the FIFO queues; no timing assumption, 10 s bound). Schedules are sampled (seeded delays at the hook points "
            "stream.register/registered, walk.begin/end, send.dequeue, feed.before, next.empty), not enumerated; every interleaving of the critical sections is "
            "enumerated on the model Subscribe.tla instead. One writer goroutine per target; no path-level origins.")
CHECKS.update({
    "C04": dict(category="model_checking",
        text="Subscribe.tla (implementation-shaped: TreeWrite/Notify, Register, WalkVisit/WalkEnd, Dequeue, Send reading the handle's value at send time) is model-checked exhaustively "
             "(2 paths, 2 values, <=4 writer operations incl. deletes and re-adds; invariants Converge, NoLostUpdate, SyncAfterSnapshot, Backlog; liveness EventuallySynced/Converged) and three mutant "
             "configurations (register after walk, sync before walk, queue holds values) must yield counterexamples. Thousands of random scenarios on the real cache+server with writers and subscribers "
             "racing are recorded and validated by TLC against the property-level SubscribeTrace.tla: valid values, exactly one sync after the snapshot, and view = matching cache content at every quiescent point.",
        design_ref="5/C04", note=SUB_NOTE,
        technique="TLA+ model (Subscribe.tla + mutants) exhaustive TLC; trace validation of real cache+subscribe.Server executions (SubscribeTrace.tla)"),
    "C05": dict(category="model_checking",
        text="Exhaustive over the stated bound: every subscription path of length <=3 over {a,b,l,x,*} x prefix origin x single target/'*' x ONCE/POLL (with 2 further triggers and client EOF) against "
             "unchanging caches must return exactly the matching leaves with current values, then one sync per walk, ONCE ending OK; plus random scenarios with concurrent writers (at-least-once / "
             "held-during-call / nothing that never matched). Verdicts by TLC (SubscribeTrace.tla); the query relation is the one model-checked in CTree.tla.",
        design_ref="5/C05", note=SUB_NOTE,
        technique="TLA+ trace validation (SubscribeTrace.tla) of exhaustive pattern enumeration and random ONCE/POLL scenarios on the real server; relation model-checked in CTree/Match"),
    "C06": dict(category="model_checking",
        text="Match.tla is model-checked (offers only to registered clients, at most once, removal isolated) and QueryMatch => Agree is checked over all 121x121 path pairs to length 4; the real match.Match "
             "is driven through the full pair space (exhaustive) and random add/remove/update sequences validated against MatchTrace.tla. At server level, scenarios with overlapping subscription paths are "
             "validated against SubscribeTrace.tla: per-leaf deliveries incl. duplicates equal the offers between quiescent points, and no offer reaches a subscription's queue after its RPC returned.",
        design_ref="5/C06", note=SUB_NOTE + " The 'offer' hook is the one internal observation consumed by an acceptance rule (offers after removal are invisible at every API boundary).",
        technique="TLA+ spec (Match.tla) exhaustive TLC + trace validation (MatchTrace.tla, SubscribeTrace.tla) of real match.Match / subscribe.Server"),
    "C07": dict(category="model_checking",
        text="Random ACL tables (2 users x 1-3 targets, occasional authorisation failure) x all modes x single/'*' subscriptions with writers on allowed and denied targets; TLC checks on every response handed to "
             "Send (data, deletes, metadata, sentinel) that its target is authorised, that denied single-target calls end PermissionDenied/Unauthenticated before anything was sent, and that allowed targets still "
             "converge / snapshot exactly (SubscribeTrace.tla).",
        design_ref="5/C07", note=SUB_NOTE,
        technique="TLA+ trace validation (SubscribeTrace.tla ACL rule on every send) of real subscribe.Server executions with a driver ACL"),
    "C08": dict(category="model_checking",
        text="Subscribers are stalled at a driver gate inside Send (from the first send incl. the sync, or later; transiently or permanently) while writers issue bursts and other subscribers stream. TLC checks on "
             "the recorded events: writers finish while the gate is shut, the others are served during the stall and converge, the stalled queue length stays within distinct offered leaves + deletes, a permanently "
             "blocked send ends the RPC with an error within 50x the timeout, a merely slow subscriber is not terminated, converges after release and its deliveries incl. duplicates equal the offers. "
             "Subscribe.tla's Backlog invariant and CoalesceChan.tla back the queue argument.",
        design_ref="5/C08", note=SUB_NOTE + " Update rates are modelled as burst sizes against a closed gate. With sub-second send timeouts a non-stalled subscriber ending with an error is not a verdict (scheduling noise).",
        technique="TLA+ trace validation (SubscribeTrace.tla stall/backlog/conservation rules) with gate-controlled stalls on the real server; Subscribe.tla/CoalesceChan.tla model-checked"),
})
CHECKS["C10"] = dict(category="model_checking",
    text="Concurrent histories of the real ctree.Tree (2-16 goroutines, Add/Get/Query/Walk/Delete/UpdateLeaf on overlapping paths, delay in the reader->writer lock exchange) are validated against "
         "CTreeLin.tla: TLC infers the linearization points (per-path atomicity, program and real-time order), Query/Walk are checked as interval operations, the final content must equal the "
         "specification's tree (= that of a sequential order); an operation outstanding for 10 s is a hang. The same driver runs under the Go race detector, every report is a violation unless listed "
         "as a known finding. The sequential meaning (CTree.tla) is model-checked exhaustively.",
    design_ref="5/C10",
    note="Schedules are sampled, not enumerated; histories whose inference exceeds the budget are counted as undecided (never a verdict). The lock-level model CTreeLocks.tla of the design is not "
         "built yet: the locking protocol is bound to the code through the race detector and the watchdog only.",
    technique="linearizability-style trace validation with TLC (CTreeLin.tla over CTree.tla) + Go race detector as run-time monitor")
CHECKS["C16"] = dict(category="model_checking",
    text="Connection.tla (implementation-shaped, one action per lock section) is model-checked exhaustively for 3 callers x 2 addresses x 3 entries with any dial outcome (AtMostOneDial, NoUseAfterClose, "
         "ClosedAtLastRelease, FailedForgotten, NeverJoinClosed) and two mutant configurations must yield counterexamples; the real connection.Manager is driven by 2-8 goroutines with scripted dial outcomes, "
         "double releases and cancellations, and TLC validates the recorded events against ConnectionTrace.tla (one dial in flight per address, shared outcome, never shut down while held, shut down at the last "
         "release, everything shut down at the end). A panic inside package connection during these scenarios is a violation.",
    design_ref="5/C16",
    note="Closure is observed through grpc.ClientConn.GetState()==Shutdown on real lazy connections; a double Close is not observable. Schedules are sampled with delays at the conn.wait/dial.failed hooks.",
    technique="TLA+ model (Connection.tla + mutants) exhaustive TLC; trace validation of real connection.Manager executions (ConnectionTrace.tla)")
CHECKS["C13"] = dict(category="model_checking",
    text="Manager.tla (session automaton of one target with Remove/Reconnect/receive-timeout) is model-checked against the callback discipline automaton ManagerDisc, SilenceAfterRemove and the liveness "
         "properties RemoveTerminates/Retried; three mutant configurations must yield counterexamples. A real manager.Manager runs against scripted gNMI servers over localhost gRPC with scripted session "
         "outcomes, dial refusals and a controller issuing Add/Remove/Reconnect at random moments; every callback and call is validated by TLC against ManagerTrace.tla (same automaton), incl. no callback after "
         "Remove returned, refused duplicate/unknown targets, and a retry after a forced failure within 5 s.",
    design_ref="5/C13",
    note="Callbacks are logged inside the callback under one mutex; controller calls are not issued from inside callbacks; timing bounds 5 s/10 s against 5-20 ms back-off. Sessions are scripted "
         "server-side (the client-side stream-open hook of the manager is unexported), so 'Connect only after the first message' is checked as 'Connect is immediately followed by that message's callback'.",
    technique="TLA+ model (Manager.tla + ManagerDisc + mutants, incl. liveness) exhaustive TLC; trace validation of real manager.Manager over scripted gRPC (ManagerTrace.tla)")
CHECKS["C18"] = dict(category="model_checking",
    text="Reconnect.tla (Subscribe loop x Close) is model-checked incl. liveness for Close at every program point; two mutant configurations must yield counterexamples. The real client.Reconnect(BaseClient) is "
         "driven with a scripted Impl (Close fired at every kind of point incl. the back-off sleep) and with the real gnmi Impl against a scripted gRPC server; TLC validates the recorded events against "
         "ReconnectTrace.tla: D/R callback alternation, Subscribe returning right after a disconnect, Connected first and ordered updates per stream, at most one message's notifications after Close returned; "
         "overdue calls are hang events.",
    design_ref="5/C18",
    note="The scripted Impl honours cancellation like a real transport. Termination bound after Close: 750 ms (first back-off uses the library default, DESIGN note N5) + 20x RetryMaxDelay + 5 s.",
    technique="TLA+ model (Reconnect.tla + mutants, incl. liveness) exhaustive TLC; trace validation of real client.Reconnect executions (ReconnectTrace.tla)")
SEQ_NOTE = "Trusts TLC/Json and the driver's faithful logging of calls and results (no oracle logic in Go). Deterministic sequential component: a replay is a re-run of the check."
CHECKS.update({
    "C12": dict(category="model_checking",
        text="Ingest.tla defines the shape lattices of remote messages (notifications x cache state classes, subscribe requests, responses) and the contract (never a panic; a refused single-item message changes nothing); "
             "TLC enumerates every tuple (about 130 000 vectors), the driver materialises them as real protobuf messages and feeds them to Cache.GnmiUpdate (direct and as the collector stamps them, followed by "
             "UpdateMetadata/UpdateSize/Reset), Server.Subscribe, client.CacheClient and cli.QueryDisplay in every display type under recover(); TLC validates the recorded outcomes against the contract. Exhaustive over the lattice.",
        design_ref="5/C12", note=SEQ_NOTE + " Only protobuf-valid structured messages are enumerated; coverage-guided byte-level fuzzing of the wire format is outside this technique (DESIGN section 6).",
        technique="TLA+ generator-and-contract spec (Ingest.tla): TLC enumerates the shape lattice as test vectors -> real entry points under recover() -> TLC validates outcomes (IngestTrace.tla)"),
    "C17": dict(category="model_checking",
        text="TargetConfig.tla is model-checked exhaustively over a universe of 5292 configurations x 2 loads (ReplayEqualsCurrent, CurrentValid, Monotonic, RejectedSilent, NoCallForUnchanged); on the real target.Config every valid "
             "base of the small universe followed by sampled (thorough: all) second configurations and random histories over up to 8 targets / 4 requests are validated by TLC: accept/reject, exact handler-call set, Current(), replay of calls = Current.",
        design_ref="5/C17", note=SEQ_NOTE + " Callers do not mutate a configuration object after loading it.",
        technique="TLA+ spec (TargetConfig.tla) exhaustive TLC + trace validation of real target.Config (TargetConfigTrace.tla)"),
    "C19": dict(category="model_checking",
        text="PathValue.tla defines ToStrings, CompletePath, the scalar kind map and the Equal contract as operators (laws model-checked over a small universe); the real functions are evaluated on thousands of random paths "
             "(each 30 times on fresh maps), all origin combinations, client queries through the wire, all supported Go scalars incl. extreme widths, and all 32x32 TypedValue pairs under recover(); TLC validates every line against the operators.",
        design_ref="5/C19", note=SEQ_NOTE + " Key-name order is supplied as ranks; float precision is compared at source precision; one open known finding (query element ending in '/').",
        technique="TLA+ operators (PathValue.tla) + trace validation of the real path/value/client functions (PathValueTrace.tla)"),
    "C20": dict(category="model_checking",
        text="FakeQueue.tla specifies the generator (timestamp buckets, advance-and-reinsert, repeat counts) and is model-checked for Ordered/BucketsSorted/BucketsNonEmpty; random configurations of every value kind are run twice with "
             "the same seed on the real queue.UpdateQueue and every emission is validated by TLC: a value of the first bucket with exactly the pending timestamp/content/repeat, inferred draws within delta bounds / ranges with clamping / option lists, "
             "exact repeat counts, sync after the first emission of every value, identical sequences for identical seeds.",
        design_ref="5/C20", note=SEQ_NOTE + " The pseudo-random draw is inferred from the same value's next emission in the recorded sequence; string-list values and FixedQueue are not covered; no int64 overflow.",
        technique="TLA+ spec (FakeQueue.tla) + trace validation with inferred oracle draws on the real UpdateQueue (FakeQueueTrace.tla)"),
    "C01": dict(category="model_checking",
        text="Pipeline.tla models targets, the collector's sessions (reset on reconnect, registration of configured targets with the cache) and subscriber views, model-checked for Faithful with two mutants "
             "(never registers / no reset) that must violate it; the REAL gnmi_collector and gnmi_cli binaries built from the working tree are run against scripted TLS targets (all scalar kinds, keyed/origin/prefix-split/"
             "deprecated paths, deletes, stream drops forcing redial) and every view - client library STREAM and ONCE, gnmi_cli with flags, -proto, -proto_file, and the group display - taken after a sentinel has passed "
             "through the pipeline is validated by TLC (PipelineTrace.tla) to equal the targets' final state exactly.",
        design_ref="5/C01", note="End-to-end conformance on random configurations of the real processes; exhaustive only for the small model. Targets are scripted in-process gRPC servers; the data trees have no leaf/branch "
                                 "clashes; leaf-lists are not compared in the group display; two genuine defects found and repaired (39f6c9c, dfac7d0).",
        technique="TLA+ spec (Pipeline.tla, TLC, mutants) + trace validation of runs of the real collector/CLI binaries (PipelineTrace.tla)"),
})

NOT_YET = {
}

ALL = ["C%02d" % i for i in range(1, 21)]

# Third session (DESIGN section 13): what was added to the checks. text: appended to the claim; note: (old, new) replacements
# in the note, or a string appended to it; technique: replaces the technique.
ADDENDA = {
    "C03": dict(text=CACHE_ADD + " Key values may contain the path separator. Second stage (between quiescent points): 2-3 writers update ONE target at the "
                "same time, placed with the cache's feed.before hook (a writer is held where it hands its leaf to the feed while the others run their whole call) or "
                "started together; the feed entries, recorded in the order they were taken, are replayed by TLC (CacheFeedConcTrace.tla) and must equal what Query returns "
                "once all writers have returned."),
    "C02": dict(text=" Key values may contain the path separator."),
    "C01": dict(text=" The scripted targets may also end their first stream in an orderly way and come back with a new life (what they streamed before must be gone). Pipeline.tla also has mixed notifications (one update and one delete in a message, the update possibly refused as a re-assertion) with two more mutants (the delete dropped; deletes skipped after a "
                     "refused update). The scripted targets also send atomic containers, the replace idiom and the resync idiom (a stale re-assertion bundled with a delete); library and CLI queries carry "
                     "overlapping subscription paths, and a sub-tree is handed to gnmi_cli as a query flag with list keys in brackets (key values containing the delimiter)."),
    "C04": dict(text=" Further profiles: 'idle' (send timeout 1.5 s, silences of 2 s between the phases: an idle subscriber is not a stalled one), 'stall' (backlogs behind a slow subscriber), "
                     "removed targets that come back, and a held-back removal aimed at the registration window of a starting stream (hook stream.register)."),
    "C05": dict(text=" Key values may contain the path separator, and ONCE/static requests carry pairs of list entries whose keys are related as strings only (x, x/y). An 'idle' profile adds POLL/STREAM subscribers that stay silent for longer than the send timeout between triggers."),
    "C06": dict(text=" The 'remove' profile (streams that lose the race with the removal of their target, targets that come back) checks that nothing registered for a refused or ended stream is offered anything later."),
    "C07": dict(text=" In scenarios with an ACL the driver also stores, through (*cache.Target).GnmiUpdate, a notification whose prefix names no target (nobody is authorised for the target \"\": no response may carry it). Whole-target removals happen under an ACL as well (the delete of a target a subscriber may not see is not for it either). Also: subscriptions to a target the cache does not know (refused as unauthenticated first, if the caller is), and an 'idle' profile with an ACL in which the last thing a sender handled "
                     "before a silence longer than the send timeout may be a denied target's notification (the stream must survive)."),
    "C08": dict(text=" The race-detector stage of the quick tier also runs the overlap profile (2500 scenarios: adds below existing leaves while senders deliver them, statistics read while streams account their responses - the races repaired in 185408b and 9c1d31a). SendTimer.tla specifies the send-timeout discipline of a sender (a timer runs only while a Send is in progress; a Send that never returns ends the RPC, the sync response included) "
                     "with three mutants that must be refuted (timer left running after the sync, armed before the ACL filter, sync sent without the timer); an 'idle' profile (silences longer than the send "
                     "timeout) checks on the real server that a merely idle subscriber is never terminated."),
    "C09": dict(text=" Walk/WalkSorted hand their visitor path slices that the driver keeps until the walk has returned (as client.Leaves and the CLI do); paths up to length 5."),
    "C10": dict(text=" The lock protocol itself is specified in CTreeLocks.tla (one RWMutex per node with Go's writer preference, hand-over-hand descent keeping the ancestors' read locks, reader->writer exchange "
                     "with re-check, deletes under the root write lock that lock every node they inspect, leaf-handle operations) and model-checked for every interleaving of 2-4 operations: the reachable content "
                     "refines the abstract path map whenever no delete is in flight, no conflicting unsynchronised access, no deadlock, termination; five mutants of the protocol must each be refuted. Besides the "
                     "long random histories, 150 000 'duels' (2-3 goroutines released together on conflicting short paths incl. the empty path) are run and their distinct outcomes validated.",
                note=[("The lock-level model CTreeLocks.tla of the design is not built yet: the locking protocol is bound to the code through the race detector and the watchdog only.",
                       "CTreeLocks.tla is a design-level model: it shares its abstract meaning with CTree.tla (what the recorded histories are held to) and its exchange window is the add.upgrade hook, "
                       "but its behaviours are not replayed on the code.")],
                technique="TLA+ lock-level model (CTreeLocks.tla: refinement of the abstract map, race and deadlock freedom, 5 mutants) exhaustive TLC; linearizability-style trace validation with TLC "
                          "(CTreeLin.tla over CTree.tla) of recorded histories and duels + Go race detector as run-time monitor"),
    "C11": dict(text=" Sequential sequences include Next with an already cancelled context while items are pending; 'duels' (producers released together by a spin barrier inserting the same item) are run by the ten thousand and their distinct outcomes validated. In addition EVERY schedule of a set of small programs (1-2 producers, a consumer, a closer) is executed on the real queue under a gate scheduler that parks each goroutine before every "
                     "call and at the three hook points and lets exactly one run at a time (stateless depth-first search, about 11 000 schedules in the quick tier), each run validated by CoalesceLin.",
                note=" The small programs are enumerated exhaustively at the granularity of the gates (the steps of CoalesceChan.tla); a goroutine released from the next.empty gate that has not come back within "
                     "2 ms is taken to be blocked in Next's select.",
                technique="TLA+ specs (Coalesce, CoalesceChan incl. liveness + mutants) exhaustive TLC; trace validation of sequential runs and linearizability-style validation of concurrent histories "
                          "(CoalesceLin), incl. bounded exhaustive schedule enumeration on the real queue (gate scheduler)"),
    "C12": dict(text=" The history stage also owns the last clause: a data call the cache refuses (error class as the model expects) after which the stored content differs from what Cache.tla prescribes is a violation of C12. Every notification vector is followed by a full query and a later wildcard delete (the delete notifications are built from whatever the vector stored); every subscribe-request vector "
                     "is run against a server with and without statistics."),
    "C13": dict(text=" Also scripted: responses with nothing in them as first message of a stream, the collector's Reconnect RPC (collector.Server in front of Manager.Reconnect), and a back-off observation (with a retry delay of an hour no further attempt within 1.5 s of the first failure). Manager.tla now has incarnations (Add of the same name after or, for the mutant, during a Remove; invariant OneLife; 4 mutants). The driver has a second controller goroutine racing Add "
                     "against Remove, slow callbacks, and per-target receive-timeout overrides (with and without a manager-wide default); ManagerTrace accepts concurrent calls, infers where the old "
                     "incarnation ends and the new begins, requires a silent session to be replaced when a timeout is in force and a cause (stream ended by the target, Reconnect/Remove) for every Reset when none is."),
    "C15": dict(text=" The concurrent stage uses millisecond latency windows (covered, sliding and exporting within a scenario); the meta profile includes deletes addressed to the cache's own leaf-accounting leaves (found and repaired 27c270d). Cache-level latency stage: a cache created with latency windows under a manual clock; after every periodic refresh the exported meta/latency/window/<w>/{avg,max,min} leaves are read "
                     "back and must lie between the extremes of the latencies of the target's own post-sync updates (CacheLatTrace.tla).",
                technique="TLA+ specs (Cache counters: CacheMC CountersInv/LatestInv; Latency.tla Bounded/Window with mutants) exhaustive TLC + trace validation on real cache.Cache (CacheTrace, CacheLatTrace), "
                          "latency.Latency (LatencyTrace) and concurrent executions under the race detector (CacheConcTrace)"),
    "C16": dict(text=" Requests naming a dialer the manager does not have are generated (a dial that fails at once); ConnectionTrace tracks the identity of the last failed dial so that a failed entry "
                     "that lingers is rejected; Connection.tla has a third mutant (bad_dialer_lingers)."),
    "C17": dict(text=" Request contents sit in different parts of the SubscribeRequest (subscription list, a registered extension, Subscribe vs Poll), so that an edit of any part must be noticed. Revisions are also spread over the whole int64 range (record revisions are ranks - the specification only compares - and far-stale configurations come back). Request names may coincide with target names (independent key spaces)."),
    "C18": dict(text=" Also: Subscribe contexts that carry a deadline (Subscribe returns by itself, Close afterwards), and a further Subscribe on a client that has been closed (must return). Attempts may fail with errors that wrap context.Canceled/DeadlineExceeded while the client's context is alive, and ReconnectTrace requires that Subscribe does not return before Close "
                     "has been called (keeps resubscribing); the real-Impl scenarios include unreachable targets (silent listener, refused port) with a 30 s connection timeout, during which Close must return promptly."),
    "C20": dict(text=" Half of the scenarios use nanosecond-since-epoch timestamps (1.7e18 + small; logged minus the base). Configurations may contain an explicit sync value written like the injected marker. String-list (leaf-list) values - random sub-lists or rotating options - are generated and specified. Second stage: the repository's own fake gNMI agent (testing/fake/gnmi agent.go/client.go, "
                     "which builds the queue and injects the sync marker itself) streams further configurations over gRPC, twice each, and the responses read off the wire are validated by the same specification.",
                note=[("string-list values and FixedQueue are not covered", "the FixedQueue is not covered; the agent stage uses STREAM subscriptions without delays")]),
}


def main():
    checks = []
    for pid in sorted(CHECKS):
        c = dict(CHECKS[pid])
        a = ADDENDA.get(pid, {})
        c["text"] = c["text"] + a.get("text", "")
        if isinstance(a.get("note"), list):
            for o, n in a["note"]:
                assert o in c["note"], (pid, o)
                c["note"] = c["note"].replace(o, n)
        elif a.get("note"):
            c["note"] = c["note"] + a["note"]
        c["technique"] = a.get("technique", c["technique"])
        checks.append(dict(
            property_id=pid,
            quick_cmd="./check %s --tier quick" % pid,
            thorough_cmd="./check %s --tier thorough" % pid,
            evidence_file="/verif/evidence/%s.json" % pid,
            replay_cmd_template="./check %s --replay {path}" % pid,
            engine="tlc+verifdrv",
            level_claimed=dict(category=c["category"], text=c["text"], design_ref=c["design_ref"]),
            level_note=c["note"],
            technique=c["technique"]))
    na = []
    for pid in ALL:
        if pid not in CHECKS:
            na.append(dict(property_id=pid, reason=NOT_YET.get(pid, "not claimed yet: the specification/harness for this property is still being built (see DESIGN.md section 11 for the build order); no check is registered until it is green on the unchanged tree")))
    hooks = []
    hp = os.path.join(VERIF, "hook_commits.txt")
    if os.path.exists(hp):
        hooks = [l.split()[0] for l in open(hp) if l.strip() and not l.startswith("#")]
    m = dict(
        version=1,
        setup_cmd="cd /verif/harness && cp /repo/go.sum go.sum && GOFLAGS=-mod=mod GOPROXY=off GOSUMDB=off GOTOOLCHAIN=local go build -tags verif -o /verif/.work/bin/verifdrv ./cmd/verifdrv",
        hooks=dict(
            guard="verif",
            enable="go build -tags verif (the harness module /verif/harness replaces github.com/openconfig/gnmi with /repo, so every check rebuilds from /repo's working tree)",
            baseline_off_cmd="cd /repo && GOFLAGS=-mod=mod GOPROXY=off go test -vet=off -count=1 ./...",
            source_commits=hooks,
            add_only=True),
        engines=[dict(name="tlc+verifdrv", path="/verif/check", serves_properties=sorted(CHECKS),
                      kind_free_text="explicit TLA+ specifications in /verif/specs checked with TLC; Go driver /verif/harness/cmd/verifdrv executes the real code "
                                     "(TLC-generated and random scenarios) and records ndjson traces; TLC validates the traces against *Trace.tla")],
        checks=checks,
        notes="Exit codes: 0 held, 1 VIOLATION line printed, 2 no verdict (infrastructure). VERIF_SEED seeds every random choice. Known findings: /verif/known_findings.json.",
        not_applicable=na)
    with open(os.path.join(VERIF, "MANIFEST.json"), "w") as f:
        json.dump(m, f, indent=1)
        f.write("\n")


if __name__ == "__main__":
    main()
