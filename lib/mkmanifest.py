#!/usr/bin/env python3
"""Regenerates /verif/MANIFEST.json from the table below (single source)."""
import json
import os

VERIF = os.path.dirname(os.path.dirname(os.path.abspath(__file__)))

CHECKS = {
    "C09": dict(
        category="model_checking",
        text="CTree.tla is model-checked exhaustively (all trees with stored paths <=2 over {a,b,*}); every distinct tree TLC reaches is rebuilt in a real "
             "ctree.Tree and every public operation is applied with every argument (one real call per specification transition), plus seeded random "
             "sequences; TLC validates every recorded call (result and content read back) against CTreeTrace.tla. Exhaustive within the bound, sampled beyond.",
        design_ref="5/C09",
        note="Trusts TLC, the TLA+ Json module and the driver's faithful logging of calls/results; nil values are not stored; single goroutine only (C10 covers concurrency).",
        technique="TLA+ spec (CTree) + TLC exhaustive universe -> replay on real ctree.Tree -> TLC trace validation (CTreeTrace)"),
}

NOT_YET = {
}

ALL = ["C%02d" % i for i in range(1, 21)]


def main():
    checks = []
    for pid in sorted(CHECKS):
        c = CHECKS[pid]
        checks.append(dict(
            property_id=pid,
            quick_cmd="./check %s --tier quick" % pid,
            thorough_cmd="./check %s --tier thorough" % pid,
            evidence_file="/verif/evidence/%s.json" % pid,
            replay_cmd_template="./check %s --replay {path}" % pid,
            engine="tlc+verifdrv",
            level_claimed=dict(category=c["category"], text=c["text"], design_ref=c["design_ref"]),
            level_note=c["note"],
            technique=c["technique"]))
    na = []
    for pid in ALL:
        if pid not in CHECKS:
            na.append(dict(property_id=pid, reason=NOT_YET.get(pid, "not claimed yet: the specification/harness for this property is still being built (see DESIGN.md section 11 for the build order); no check is registered until it is green on the unchanged tree")))
    hooks = []
    hp = os.path.join(VERIF, "hook_commits.txt")
    if os.path.exists(hp):
        hooks = [l.split()[0] for l in open(hp) if l.strip() and not l.startswith("#")]
    m = dict(
        version=1,
        setup_cmd="cd /verif/harness && cp /repo/go.sum go.sum && GOFLAGS=-mod=mod GOPROXY=off GOSUMDB=off GOTOOLCHAIN=local go build -tags verif -o /verif/.work/bin/verifdrv ./cmd/verifdrv",
        hooks=dict(
            guard="verif",
            enable="go build -tags verif (the harness module /verif/harness replaces github.com/openconfig/gnmi with /repo, so every check rebuilds from /repo's working tree)",
            baseline_off_cmd="cd /repo && GOFLAGS=-mod=mod GOPROXY=off go test -vet=off -count=1 ./...",
            source_commits=hooks,
            add_only=True),
        engines=[dict(name="tlc+verifdrv", path="/verif/check", serves_properties=sorted(CHECKS),
                      kind_free_text="explicit TLA+ specifications in /verif/specs checked with TLC; Go driver /verif/harness/cmd/verifdrv executes the real code "
                                     "(TLC-generated and random scenarios) and records ndjson traces; TLC validates the traces against *Trace.tla")],
        checks=checks,
        notes="Exit codes: 0 held, 1 VIOLATION line printed, 2 no verdict (infrastructure). VERIF_SEED seeds every random choice. Known findings: /verif/known_findings.json.",
        not_applicable=na)
    with open(os.path.join(VERIF, "MANIFEST.json"), "w") as f:
        json.dump(m, f, indent=1)
        f.write("\n")


if __name__ == "__main__":
    main()
