"""C08 - a stalled subscriber cannot stall the collector or other subscribers."""
import p_subfam as fam

PID = "C08"
# SendTimer.tla: the send-timeout discipline of a sender (a timer is running only while a Send is in progress; a Send that never
# returns ends the RPC, the sync response included); its three mutants are the seeded changes C05-3, C07-3 and the defect repaired in 37265f9
MODELS = [("Subscribe.tla", "Subscribe_none.cfg", False), ("CoalesceChan.tla", "CoalesceChan_none.cfg", False),
          ("SendTimer.tla", "SendTimer_none.cfg", False), ("SendTimer.tla", "SendTimer_sync_not_stopped.cfg", True),
          ("SendTimer.tla", "SendTimer_armed_before_acl.cfg", True), ("SendTimer.tla", "SendTimer_sync_uncovered.cfg", True)]
RULE = ("random scenarios in which 1-2 STREAM subscribers are stalled at a driver gate inside Send - from their very first send (snapshot or sync_response) "
        "or in a later phase, transiently (released when the phase's writers are done; server timeout 60 s) or permanently (server timeout 100 ms) - while "
        "writers issue bursts of 4-24 operations per target over small leaf sets and other subscribers stream. Checked by TLC on the recorded events: writers "
        "finish while the gate is shut (a writer call outstanding for 20 s is a 'hang' event), the other subscribers reach quiescence and converge, the "
        "stalled subscriber's backlog (queue length read at the end of the burst) is bounded by distinct offered leaves + deletes, a permanently blocked "
        "send ends the RPC with an error within 50x the timeout (else 'hang'), a transiently stalled subscriber is not terminated, converges after release "
        "and its deliveries incl. reported duplicates equal the offers per leaf. distinct_nontrivial = distinct non-auxiliary event lines")


def run(tier):
    # 'idle': silences longer than the send timeout - a subscriber that is merely idle is never terminated
    runs = [("stall", 1200), ("idle", 32)] if tier == "quick" else [("stall", 40000), ("idle", 640)]
    rc1 = fam.run_family(PID, tier, runs, MODELS, RULE,
                         ["update rates are modelled as burst sizes against a closed gate, not as wall-clock throughput",
                          "timing verdicts use bounds >= 50x the configured timeout"], shards=16 if tier == "quick" else 48)
    if rc1 == 1:
        # a violation has been found and reported: the race stage (the same scenarios under the detector, where every
        # hang costs its full bound again) would only add time to the verdict
        fam.vlib.log("[race] skipped: the trace stage already reported a violation")
        return rc1
    # subscribers share the cached notifications, the match tree and the server's tables: the same scenarios under the race detector
    rc2 = fam.race_stage(PID, tier, [("stall", 300), ("stream", 300), ("overlap", 2500)] if tier == "quick" else [("stall", 10000), ("stream", 10000), ("remove", 5000), ("overlap", 5000)])
    return max(rc1, rc2)


def replay(path):
    return fam.replay_family(PID, path)
