// Package trace writes ndjson event traces that TLC validates against the
// *Trace.tla specifications. One JSON object per line; never a JSON null
// (the TLA+ Json module rejects it).
package trace

import (
	"bufio"
	"bytes"
	"encoding/json"
	"fmt"
	"os"
	"sync"
	"sync/atomic"
)

// E is one event.
type E map[string]interface{}

// Writer appends events to one ndjson file. Safe for concurrent use.
type Writer struct {
	mu   sync.Mutex
	f    *os.File
	w    *bufio.Writer
	n    int
	path string
}

// Seq is the process-wide sequence counter used to order events of
// concurrent scenarios.
var seq int64

// NextSeq returns the next global sequence number.
func NextSeq() int64 { return atomic.AddInt64(&seq, 1) }

// New creates (truncates) the file.
func New(path string) (*Writer, error) {
	f, err := os.Create(path)
	if err != nil {
		return nil, err
	}
	return &Writer{f: f, w: bufio.NewWriterSize(f, 1<<20), path: path}, nil
}

// Path returns the file name.
func (w *Writer) Path() string { return w.path }

// Emit writes one event.
func (w *Writer) Emit(e E) {
	b, err := json.Marshal(e)
	if err != nil {
		panic(fmt.Sprintf("trace: marshal: %v", err))
	}
	if bytes.Contains(b, []byte("null")) {
		panic(fmt.Sprintf("trace: event contains JSON null: %s", b))
	}
	w.mu.Lock()
	w.w.Write(b)
	w.w.WriteByte('\n')
	w.n++
	w.mu.Unlock()
}

// Len returns the number of events written so far.
func (w *Writer) Len() int {
	w.mu.Lock()
	defer w.mu.Unlock()
	return w.n
}

// Close flushes and closes the file.
func (w *Writer) Close() error {
	w.mu.Lock()
	defer w.mu.Unlock()
	if err := w.w.Flush(); err != nil {
		return err
	}
	return w.f.Close()
}

// Strs returns a non-nil copy of s (so that it never marshals as null).
func Strs(s []string) []string {
	r := make([]string, len(s))
	copy(r, s)
	return r
}
