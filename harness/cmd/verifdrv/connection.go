package main

import (
	"context"
	"errors"
	"flag"
	"fmt"
	"math/rand"
	"sort"
	"sync"
	"sync/atomic"
	"time"

	"google.golang.org/grpc"
	"google.golang.org/grpc/connectivity"
	"google.golang.org/grpc/credentials/insecure"

	"github.com/openconfig/gnmi/connection"
	"verifharness/internal/trace"
)

// connection family (C16): a real connection.Manager with the driver's dial
// function (scripted outcome and timing; real lazy *grpc.ClientConn objects so
// that closure is observable as connectivity.Shutdown).
//
//   verifdrv connection random -n N -out DIR -shards K

func init() { register("connection", connectionMain) }

type connEnv struct {
	w     *trace.Writer
	mu    sync.Mutex
	conns []*grpc.ClientConn // index+1 = conn id
	ids   map[*grpc.ClientConn]int
	r     *rand.Rand
	dials int
}

func (e *connEnv) shut() []int {
	out := []int{}
	for i, c := range e.conns {
		if c.GetState() == connectivity.Shutdown {
			out = append(out, i+1)
		}
	}
	return out
}

// emit logs an event together with the connections observed shut down now.
func (e *connEnv) emit(ev trace.E) {
	e.mu.Lock()
	ev["shut"] = e.shut()
	e.w.Emit(ev)
	e.mu.Unlock()
}

func (e *connEnv) connID(c *grpc.ClientConn) int {
	e.mu.Lock()
	defer e.mu.Unlock()
	return e.ids[c]
}

var connDelayOn int32
var connDelaySeed int64

func connHook(point string, arg interface{}) {
	if atomic.LoadInt32(&connDelayOn) == 0 {
		return
	}
	x := uint64(atomic.AddInt64(&connDelaySeed, 0x2545F4914F6CDD1D))
	x ^= x >> 29
	x *= 0xBF58476D1CE4E5B9
	x ^= x >> 32
	if x%2 == 0 {
		time.Sleep(time.Duration((x>>8)%250) * time.Microsecond)
	}
}

func connectionScenario(w *trace.Writer, seed int64) {
	r := rand.New(rand.NewSource(seed))
	e := &connEnv{w: w, ids: map[*grpc.ClientConn]int{}, r: r}
	e.emit(trace.E{"ev": "reset"})
	failPct := []int{0, 20, 50, 80}[r.Intn(4)]
	var rmu sync.Mutex
	rnd := func(n int) int { rmu.Lock(); defer rmu.Unlock(); return r.Intn(n) }
	dial := func(ctx context.Context, addr string, _ ...grpc.DialOption) (*grpc.ClientConn, error) {
		e.mu.Lock()
		e.dials++
		d := e.dials
		e.mu.Unlock()
		e.emit(trace.E{"ev": "dialstart", "addr": addr, "d": d})
		select {
		case <-time.After(time.Duration(rnd(400)) * time.Microsecond):
		case <-ctx.Done():
		}
		if ctx.Err() != nil || rnd(100) < failPct {
			e.emit(trace.E{"ev": "dialend", "addr": addr, "d": d, "ok": false, "conn": 0})
			if ctx.Err() != nil {
				return nil, ctx.Err()
			}
			return nil, errors.New("dial refused")
		}
		cc, err := grpc.NewClient("passthrough:///127.0.0.1:1", grpc.WithTransportCredentials(insecure.NewCredentials()))
		if err != nil {
			panic(err)
		}
		e.mu.Lock()
		e.conns = append(e.conns, cc)
		id := len(e.conns)
		e.ids[cc] = id
		e.mu.Unlock()
		e.emit(trace.E{"ev": "dialend", "addr": addr, "d": d, "ok": true, "conn": id})
		return cc, nil
	}
	m, err := connection.NewManagerCustom(map[string]connection.Dial{connection.DEFAULT: dial})
	if err != nil {
		panic(err)
	}
	addrs := []string{"a1", "a2", "a3"}[:1+r.Intn(3)]
	badDialers := r.Intn(3) == 0 // some requests name a dialer the manager does not have
	ng := 2 + r.Intn(7)
	per := 1 + r.Intn(4)
	var wg sync.WaitGroup
	var hcount int64
	for g := 0; g < ng; g++ {
		wg.Add(1)
		go func(g int) {
			defer wg.Done()
			gr := rand.New(rand.NewSource(seed*977 + int64(g)))
			name := fmt.Sprintf("g%d", g)
			for k := 0; k < per; k++ {
				addr := addrs[gr.Intn(len(addrs))]
				ctx, cancel := context.WithCancel(context.Background())
				pre := gr.Intn(12) == 0
				if pre {
					cancel()
				} else if gr.Intn(8) == 0 {
					pre = true // may be cancelled at any moment, also before the entry check
					// cancel while the request (and possibly the dial it started) is in progress
					go func() { time.Sleep(time.Duration(gr.Intn(300)) * time.Microsecond); cancel() }()
				}
				h := int(atomic.AddInt64(&hcount, 1))
				dialer := connection.DEFAULT
				if badDialers && gr.Intn(5) == 0 {
					dialer = "nosuch"
				}
				e.emit(trace.E{"ev": "inv", "g": name, "op": "Connection", "addr": addr, "cancelled": pre, "nodialer": dialer != connection.DEFAULT})
				var cc *grpc.ClientConn
				var done func()
				var err error
				if p := safely(func() { cc, done, err = m.Connection(ctx, addr, dialer) }); p != "" {
					e.emit(trace.E{"ev": "panic", "g": name, "op": "Connection", "msg": p})
					return
				}
				if err != nil {
					e.emit(trace.E{"ev": "ret", "g": name, "op": "Connection", "res": "err", "conn": 0, "h": h})
				} else {
					e.emit(trace.E{"ev": "ret", "g": name, "op": "Connection", "res": "conn", "conn": e.connID(cc), "h": h})
				}
				time.Sleep(time.Duration(gr.Intn(300)) * time.Microsecond)
				for rel, n := 0, 1+gr.Intn(2); rel < n; rel++ { // release once or twice
					e.emit(trace.E{"ev": "inv", "g": name, "op": "Done", "h": h})
					if p := safely(done); p != "" {
						e.emit(trace.E{"ev": "panic", "g": name, "op": "Done", "msg": p})
						return
					}
					e.emit(trace.E{"ev": "ret", "g": name, "op": "Done", "h": h})
				}
				cancel()
			}
		}(g)
	}
	fin := make(chan struct{})
	go func() { wg.Wait(); close(fin) }()
	select {
	case <-fin:
		e.emit(trace.E{"ev": "final"})
	case <-time.After(10 * time.Second):
		e.emit(trace.E{"ev": "hang", "what": "a Connection/done call did not return within 10 s"})
	}
	e.mu.Lock()
	for _, c := range e.conns {
		c.Close()
	}
	e.mu.Unlock()
}

// safely runs f and returns the panic message, if any.
func safely(f func()) (msg string) {
	defer func() {
		if r := recover(); r != nil {
			msg = fmt.Sprint(r)
		}
	}()
	f()
	return ""
}

func connectionRandom(args []string) error {
	fs := flag.NewFlagSet("connection random", flag.ContinueOnError)
	n := fs.Int("n", 300, "scenarios")
	out := fs.String("out", "", "output directory")
	shards := fs.Int("shards", 16, "trace files")
	if err := fs.Parse(args); err != nil {
		return err
	}
	ss, err := newShards(*out, "conn", *shards)
	if err != nil {
		return err
	}
	connection.VerifHook = connHook
	atomic.StoreInt32(&connDelayOn, 1)
	seed := seedFromEnv()
	var wg sync.WaitGroup
	for s := 0; s < len(ss.ws); s++ {
		wg.Add(1)
		go func(s int) {
			defer wg.Done()
			for i := s; i < *n; i += len(ss.ws) {
				connectionScenario(ss.ws[s], seed*1299709+int64(i))
			}
		}(s)
	}
	wg.Wait()
	ev := ss.close()
	fmt.Printf("DRV connection random scenarios=%d events=%d\n", *n, ev)
	return nil
}

func connectionMain(args []string) error {
	if len(args) == 0 {
		return fmt.Errorf("connection: need a mode")
	}
	switch args[0] {
	case "random":
		return connectionRandom(args[1:])
	}
	return fmt.Errorf("connection: unknown mode %q", args[0])
}

var _ = sort.Ints
