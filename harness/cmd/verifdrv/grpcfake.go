package main

import (
	"net"
	"sync"
	"time"

	"google.golang.org/grpc"
	"google.golang.org/grpc/codes"
	"google.golang.org/grpc/status"

	pb "github.com/openconfig/gnmi/proto/gnmi"
)

// A scripted gNMI target over real (insecure, localhost) gRPC, shared by the
// manager (C13) and client (C18) drivers.

type fakeSession struct {
	Msgs    []string `json:"msgs"`    // "u" update, "s" sync, "e" empty response
	Outcome string   `json:"outcome"` // "error" | "eof" | "silent" (block) | "long" (stay open)
	DelayUs int      `json:"delay_us,omitempty"`
}

type fakeServer struct {
	pb.UnimplementedGNMIServer
	mu      sync.Mutex
	scripts map[string][]fakeSession           // per target
	custom  map[string][]*pb.SubscribeResponse // per target: raw responses, then EOF (C12)
	opens   map[string]int
	onEvent func(target, kind string, sess, id int)
	srv     *grpc.Server
	addr    string
}

func newFakeServer(onEvent func(target, kind string, sess, id int)) (*fakeServer, error) {
	lis, err := net.Listen("tcp", "127.0.0.1:0")
	if err != nil {
		return nil, err
	}
	f := &fakeServer{scripts: map[string][]fakeSession{}, custom: map[string][]*pb.SubscribeResponse{}, opens: map[string]int{}, onEvent: onEvent, addr: lis.Addr().String()}
	f.srv = grpc.NewServer()
	pb.RegisterGNMIServer(f.srv, f)
	go f.srv.Serve(lis)
	return f, nil
}

func (f *fakeServer) stop() { f.srv.Stop() }

func (f *fakeServer) opened(target string) int {
	f.mu.Lock()
	defer f.mu.Unlock()
	return f.opens[target]
}

func (f *fakeServer) Subscribe(stream pb.GNMI_SubscribeServer) error {
	req, err := stream.Recv()
	if err != nil {
		return err
	}
	target := req.GetSubscribe().GetPrefix().GetTarget()
	f.mu.Lock()
	if rs, ok := f.custom[target]; ok {
		f.opens[target]++
		f.mu.Unlock()
		for _, r := range rs {
			if err := stream.Send(r); err != nil {
				return err
			}
		}
		return nil
	}
	f.opens[target]++
	n := f.opens[target]
	var sess fakeSession
	if sc := f.scripts[target]; n <= len(sc) {
		sess = sc[n-1]
	} else {
		sess = fakeSession{Msgs: []string{"u", "s"}, Outcome: "long"}
	}
	f.mu.Unlock()
	f.onEvent(target, "open", n, 0)
	for k, m := range sess.Msgs {
		if sess.DelayUs > 0 {
			time.Sleep(time.Duration(sess.DelayUs) * time.Microsecond)
		}
		id := n*100 + k + 1
		var resp *pb.SubscribeResponse
		if m == "s" {
			resp = &pb.SubscribeResponse{Response: &pb.SubscribeResponse_SyncResponse{SyncResponse: true}}
		} else if m == "e" {
			// a response with nothing in it (extension-only, or a kind this client does not know): a message all the same
			f.onEvent(target, "empty", n, 0)
			resp = &pb.SubscribeResponse{}
		} else {
			resp = &pb.SubscribeResponse{Response: &pb.SubscribeResponse_Update{Update: &pb.Notification{
				Timestamp: int64(id), Prefix: &pb.Path{Target: target},
				Update: []*pb.Update{{Path: &pb.Path{Elem: []*pb.PathElem{{Name: "a"}}},
					Val: &pb.TypedValue{Value: &pb.TypedValue_IntVal{IntVal: int64(id)}}}}}}}
		}
		if err := stream.Send(resp); err != nil {
			return err
		}
	}
	switch sess.Outcome {
	case "error":
		f.onEvent(target, "end", n, 0) // the target ends the stream (logged before the client can notice)
		return status.Error(codes.Unavailable, "scripted failure")
	case "eof":
		f.onEvent(target, "end", n, 0)
		return nil
	default: // silent / long
		<-stream.Context().Done()
		return stream.Context().Err()
	}
}
