// verifdrv drives the real openconfig/gnmi code through scenarios and records
// what it did as ndjson traces. It contains no oracle: every verdict is taken
// by TLC validating the traces against the TLA+ specifications in /verif/specs.
//
// Exit status: 0 traces written; 2 driver/infrastructure problem.
package main

import (
	"flag"
	"fmt"
	"os"
	"strconv"

	_ "github.com/golang/glog"
)

type cmdFunc func(args []string) error

var commands = map[string]cmdFunc{}

func register(name string, f cmdFunc) { commands[name] = f }

func seedFromEnv() int64 {
	if s := os.Getenv("VERIF_SEED"); s != "" {
		if v, err := strconv.ParseInt(s, 10, 64); err == nil {
			return v
		}
	}
	return 1
}

func main() {
	// The libraries log through glog: keep it off stderr and out of /tmp.
	if dir := os.Getenv("VERIF_GLOG_DIR"); dir != "" {
		os.MkdirAll(dir, 0o755)
		flag.Set("log_dir", dir)
	} else {
		flag.Set("log_dir", os.DevNull+"-dir")
	}
	flag.Set("stderrthreshold", "FATAL")
	flag.Set("logtostderr", "false")
	if len(os.Args) < 2 {
		fmt.Fprintln(os.Stderr, "usage: verifdrv <family> [flags]")
		os.Exit(2)
	}
	f, ok := commands[os.Args[1]]
	if !ok {
		fmt.Fprintf(os.Stderr, "verifdrv: unknown family %q\n", os.Args[1])
		os.Exit(2)
	}
	if err := f(os.Args[2:]); err != nil {
		fmt.Fprintf(os.Stderr, "verifdrv %s: %v\n", os.Args[1], err)
		os.Exit(2)
	}
}

// repoRoot is where the code under test was built from: /repo, or a scratch copy during development
// (VERIF_REPO); stack frames are reported relative to it.
func repoRoot() string {
	if r := os.Getenv("VERIF_REPO"); r != "" {
		return r
	}
	return "/repo"
}
