package main

import (
	"flag"
	"fmt"
	"math/rand"
	"strings"
	"time"

	"github.com/openconfig/gnmi/latency"
	"verifharness/internal/trace"
)

// latency family (C15, latency clause): latency.Latency with a stubbed clock.
//
//   verifdrv latency run -n N -out DIR -shards K
//
// Every scenario fixes the window sizes and the averaging precision, then mixes Compute calls
// (sample latency = clock - timestamp; zero, negative and large values included) with
// UpdateReset/UpdateLast calls at regular and irregular clock advances. Logged: the clock and
// latency of every sample and, for every update, exactly what it exported through SetInt.

func init() { register("latency", latencyMain) }

type latMeta struct{ got []trace.E }

func (m *latMeta) SetInt(name string, v int64) error {
	m.got = append(m.got, trace.E{"name": name, "val": v})
	return nil
}

func latencyScenario(w *trace.Writer, r *rand.Rand, sc int) {
	const unit = 1000 // ns: the update period; everything stays far below 2^31 for TLC
	clock := int64(1_000_000)
	latency.Now = func() time.Time { return time.Unix(0, clock) }
	nw := 1 + r.Intn(3)
	var sizes []time.Duration
	var sizesNs []int64
	for len(sizes) < nw {
		z := int64(1+r.Intn(4)) * unit * int64(1+r.Intn(2))
		dup := false
		for _, x := range sizesNs {
			dup = dup || x == z
		}
		if !dup {
			sizes = append(sizes, time.Duration(z))
			sizesNs = append(sizesNs, z)
		}
	}
	prec := []int64{1, 1, 10, 1000}[r.Intn(4)]
	var opts *latency.Options
	if prec != 1 || r.Intn(2) == 0 {
		opts = &latency.Options{AvgPrecision: time.Duration(prec)}
	}
	l := latency.New(sizes, opts)
	names := map[string]trace.E{}
	for _, z := range sizes {
		for _, st := range []latency.StatType{latency.Avg, latency.Max, latency.Min} {
			names[latency.MetadataName(z, st)] = trace.E{"size": int64(z), "typ": st.String()}
		}
	}
	w.Emit(trace.E{"ev": "cfg", "sc": sc, "sizes": sizesNs, "prec": prec})
	regular := r.Intn(2) == 0
	base := []int64{0, 3, 40, 900, 20000}[r.Intn(5)] // typical latency of the scenario
	for k, n := 0, 10+r.Intn(40); k < n; k++ {
		if r.Intn(3) > 0 {
			clock += []int64{0, 1, unit / 4, unit / 2}[r.Intn(4)]
			lat := base + int64(r.Intn(7)) - 3
			switch r.Intn(8) {
			case 0:
				lat = 0
			case 1:
				lat = -lat - 1 // a device clock ahead of ours
			case 2:
				lat = base*3 + 17
			}
			l.Compute(time.Unix(0, clock-lat))
			w.Emit(trace.E{"ev": "compute", "at": clock, "lat": lat})
			continue
		}
		if regular {
			clock = (clock/unit + 1) * unit
		} else {
			clock += []int64{0, 1, unit / 2, unit, 2 * unit, 5 * unit}[r.Intn(6)]
		}
		m := &latMeta{}
		last := r.Intn(12) == 0
		if last {
			l.UpdateLast(m)
		} else {
			l.UpdateReset(m)
		}
		exp := []trace.E{}
		for _, g := range m.got {
			d, ok := names[g["name"].(string)]
			if !ok {
				d = trace.E{"size": int64(0), "typ": "unknown:" + strings.ToLower(g["name"].(string))}
			}
			exp = append(exp, trace.E{"size": d["size"], "typ": d["typ"], "val": g["val"]})
		}
		w.Emit(trace.E{"ev": "update", "at": clock, "last": last, "exp": exp})
	}
}

func latencyMain(args []string) error {
	if len(args) == 0 || args[0] != "run" {
		return fmt.Errorf("latency: mode must be run")
	}
	fs := flag.NewFlagSet("latency run", flag.ContinueOnError)
	n := fs.Int("n", 500, "scenarios")
	out := fs.String("out", "", "output directory")
	shards := fs.Int("shards", 8, "trace files")
	if err := fs.Parse(args[1:]); err != nil {
		return err
	}
	ss, err := newShards(*out, "lat", *shards)
	if err != nil {
		return err
	}
	seed := seedFromEnv()
	saved := latency.Now
	defer func() { latency.Now = saved }()
	for i := 0; i < *n; i++ { // sequential: the clock stub is a package variable
		latencyScenario(ss.ws[i%len(ss.ws)], rand.New(rand.NewSource(seed*104729+int64(i))), i)
	}
	ev := ss.close()
	fmt.Printf("DRV latency run scenarios=%d events=%d\n", *n, ev)
	return nil
}
