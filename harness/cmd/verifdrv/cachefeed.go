package main

import (
	"flag"
	"fmt"
	"math/rand"
	"strings"
	"sync"
	"time"

	"github.com/openconfig/gnmi/cache"
	"github.com/openconfig/gnmi/ctree"
	"github.com/openconfig/gnmi/metadata"
	pb "github.com/openconfig/gnmi/proto/gnmi"
	"verifharness/internal/trace"
)

// cache feedconc (C03 between quiescent points): several writers update ONE target at the same time. The calls
// are placed with the cache's feed.before hook: a writer can be held where it is about to hand its leaf to the
// change feed while other writers run their whole call, and is let go afterwards (other rounds start the writers
// together behind a barrier and let them race). The feed callback records, under one lock, what the leaf it is
// handed holds at that moment; when all writers have returned the cache is read back. CacheFeedConcTrace.tla
// replays the feed entries and holds the result against what was read. Concurrent rounds carry updates only (a
// delete racing with an update of the same leaf has no defined outcome for two writers of one target); deletes
// come in rounds of their own so that leaves are created again and again.
//
//   verifdrv cache feedconc -n N -out DIR -shards K

type feedWriter struct {
	id       int
	n        *pb.Notification
	holdAt   int // hold at the k-th hand-over to the feed (0: never)
	arrivals int
	held     chan struct{}
	release  chan struct{}
	done     chan struct{}
	res      string
}

var feedWriters sync.Map // goroutine id -> *feedWriter

func feedHook(point string, _ interface{}) {
	if point != "feed.before" {
		return
	}
	v, ok := feedWriters.Load(goid())
	if !ok {
		return
	}
	fw := v.(*feedWriter)
	fw.arrivals++
	if fw.arrivals == fw.holdAt {
		close(fw.held)
		<-fw.release
	}
}

func feedPath(pre, p *pb.Path) string {
	var e []string
	for _, x := range pre.GetElem() {
		e = append(e, x.GetName())
	}
	for _, x := range p.GetElem() {
		e = append(e, x.GetName())
	}
	return strings.Join(e, "/")
}

func cacheFeedScenario(w *trace.Writer, seed int64, sc int) {
	r := rand.New(rand.NewSource(seed))
	targets := []string{"dev1", "dev2"}
	ed := r.Intn(2) == 0
	// every written value is distinct, so nothing can be suppressed: with two writers of one target the event-driven
	// test compares against the value read BEFORE the write (Look and Write are separate critical sections), and a
	// write that lands on a leaf another writer has changed in between can be withheld although it changes the leaf -
	// the design defines no outcome there (CacheFeed_with_suppression.cfg), so the concurrent rounds stay away from it
	strict := true
	opts := []cache.Option{}
	if !ed {
		opts = append(opts, cache.DisableEventDrivenEmulation())
	}
	c := cache.New(targets, opts...)
	var recMu sync.Mutex
	c.SetClient(func(l *ctree.Leaf) {
		recMu.Lock()
		defer recMu.Unlock()
		n, ok := l.Value().(*pb.Notification)
		if !ok {
			w.Emit(trace.E{"ev": "fbad", "what": fmt.Sprintf("%T", l.Value())})
			return
		}
		t := n.GetPrefix().GetTarget()
		for _, u := range n.GetUpdate() {
			p := feedPath(n.GetPrefix(), u.GetPath())
			if strings.HasPrefix(p, metadata.Root+"/") {
				continue
			}
			w.Emit(trace.E{"ev": "fcb", "p": t + ":" + p, "ts": n.GetTimestamp(), "v": u.GetVal().GetIntVal(), "del": false})
		}
		for _, d := range n.GetDelete() {
			w.Emit(trace.E{"ev": "fcb", "p": t + ":" + feedPath(n.GetPrefix(), d), "ts": n.GetTimestamp(), "v": 0, "del": true})
		}
	})
	w.Emit(trace.E{"ev": "fsc", "sc": sc, "ed": ed, "strict": strict})
	pool := [][]string{{"a", "b"}, {"a", "c"}, {"x"}, {"a", "d", "e"}}
	tsc, vc := int64(100), int64(0)
	val := func() int64 {
		if strict {
			vc++
			return 1000 + vc
		}
		return int64(1 + r.Intn(2))
	}
	upd := func(p []string, v int64) *pb.Update {
		return &pb.Update{Path: &pb.Path{Elem: pathElems(p...)}, Val: &pb.TypedValue{Value: &pb.TypedValue_IntVal{IntVal: v}}}
	}
	type upRec struct {
		P  string `json:"p"`
		Ts int64  `json:"ts"`
		V  int64  `json:"v"`
	}
	describe := func(n *pb.Notification) ([]upRec, []string) {
		ups, dels := []upRec{}, []string{}
		t := n.GetPrefix().GetTarget()
		for _, u := range n.GetUpdate() {
			ups = append(ups, upRec{t + ":" + feedPath(n.GetPrefix(), u.GetPath()), n.GetTimestamp(), u.GetVal().GetIntVal()})
		}
		for _, d := range n.GetDelete() {
			dels = append(dels, t+":"+feedPath(n.GetPrefix(), d))
		}
		return ups, dels
	}
	run := func(fw *feedWriter, start <-chan struct{}) {
		go func() {
			feedWriters.Store(goid(), fw)
			defer feedWriters.Delete(goid())
			defer close(fw.done)
			if start != nil {
				<-start
			}
			fw.res = "ok"
			if err := c.GnmiUpdate(fw.n); err != nil {
				fw.res = "err"
			}
		}()
	}
	quiet := func() {
		type leafRec struct {
			P  string `json:"p"`
			Ts int64  `json:"ts"`
			V  int64  `json:"v"`
		}
		leaves := []leafRec{}
		for _, t := range targets {
			c.Query(t, []string{"*"}, func(p []string, _ *ctree.Leaf, v interface{}) error {
				if isMetaIdx(p) {
					return nil
				}
				if n, ok := v.(*pb.Notification); ok && len(n.GetUpdate()) == 1 {
					leaves = append(leaves, leafRec{t + ":" + feedPath(n.GetPrefix(), n.GetUpdate()[0].GetPath()), n.GetTimestamp(), n.GetUpdate()[0].GetVal().GetIntVal()})
				} else {
					leaves = append(leaves, leafRec{t + ":?" + strings.Join(p, "/"), -1, -1})
				}
				return nil
			})
		}
		w.Emit(trace.E{"ev": "fq", "strict": strict, "leaves": leaves})
	}
	rounds := 6 + r.Intn(8)
	for k := 0; k < rounds; k++ {
		if r.Intn(10) < 2 { // a delete, alone
			tsc++
			p := pool[r.Intn(len(pool))]
			if r.Intn(3) == 0 {
				p = p[:1]
			}
			n := &pb.Notification{Timestamp: tsc, Prefix: &pb.Path{Target: targets[0]}, Delete: []*pb.Path{{Elem: pathElems(p...)}}}
			if r.Intn(3) == 0 {
				n.Update = []*pb.Update{upd(pool[r.Intn(len(pool))], val())}
			}
			fw := &feedWriter{id: 0, n: n, held: make(chan struct{}), release: make(chan struct{}), done: make(chan struct{})}
			ups, dels := describe(n)
			w.Emit(trace.E{"ev": "fw", "w": 0, "ups": ups, "dels": dels})
			run(fw, nil)
			<-fw.done
			w.Emit(trace.E{"ev": "fret", "w": 0, "res": fw.res})
			quiet()
			continue
		}
		nw := 2 + r.Intn(2)
		stamps := make([]int64, nw)
		for i := range stamps {
			tsc++
			stamps[i] = tsc
		}
		if r.Intn(8) == 0 {
			stamps[1] = stamps[0]
		}
		r.Shuffle(nw, func(i, j int) { stamps[i], stamps[j] = stamps[j], stamps[i] })
		// the writers of a round mostly aim at the same leaf
		focus := pool[r.Intn(len(pool))]
		gated := r.Intn(10) < 7
		ws := make([]*feedWriter, nw)
		for i := range ws {
			p := focus
			if r.Intn(4) == 0 {
				p = pool[r.Intn(len(pool))]
			}
			t := targets[0]
			if r.Intn(6) == 0 {
				t = targets[1]
			}
			n := &pb.Notification{Timestamp: stamps[i], Prefix: &pb.Path{Target: t}, Update: []*pb.Update{upd(p, val())}}
			if r.Intn(5) == 0 {
				if q := pool[r.Intn(len(pool))]; strings.Join(q, "/") != strings.Join(p, "/") {
					n.Update = append(n.Update, upd(q, val()))
				}
			}
			ws[i] = &feedWriter{id: i, n: n, held: make(chan struct{}), release: make(chan struct{}), done: make(chan struct{})}
			if gated && i < nw-1 && r.Intn(3) > 0 {
				ws[i].holdAt = 1 + r.Intn(len(n.Update))
			}
		}
		if gated {
			var heldW []*feedWriter
			for _, fw := range ws {
				ups, dels := describe(fw.n)
				w.Emit(trace.E{"ev": "fw", "w": fw.id, "ups": ups, "dels": dels})
				run(fw, nil)
				select {
				case <-fw.held:
					heldW = append(heldW, fw)
				case <-fw.done:
				case <-time.After(300 * time.Millisecond):
					// neither at the gate nor back: it waits for a writer that is held (not a schedule the code admits); go on
				}
			}
			r.Shuffle(len(heldW), func(i, j int) { heldW[i], heldW[j] = heldW[j], heldW[i] })
			for _, fw := range heldW {
				close(fw.release)
				<-fw.done
			}
		} else {
			start := make(chan struct{})
			for _, fw := range ws {
				ups, dels := describe(fw.n)
				w.Emit(trace.E{"ev": "fw", "w": fw.id, "ups": ups, "dels": dels})
				run(fw, start)
			}
			close(start)
		}
		for _, fw := range ws {
			<-fw.done
			w.Emit(trace.E{"ev": "fret", "w": fw.id, "res": fw.res})
		}
		quiet()
	}
}

func cacheFeedConc(args []string) error {
	fs := flag.NewFlagSet("cache feedconc", flag.ContinueOnError)
	n := fs.Int("n", 200, "scenarios")
	out := fs.String("out", "", "output directory")
	shards := fs.Int("shards", 8, "trace files")
	if err := fs.Parse(args); err != nil {
		return err
	}
	ss, err := newShards(*out, "cfeed", *shards)
	if err != nil {
		return err
	}
	seed := seedFromEnv()
	cache.VerifHook = feedHook
	defer func() { cache.VerifHook = nil }()
	// one cache at a time: creating a cache registers metadata names in package-level maps
	for i := 0; i < *n; i++ {
		cacheFeedScenario(ss.ws[i%len(ss.ws)], seed*4409+int64(i), i)
	}
	ev := ss.close()
	fmt.Printf("DRV cache feedconc scenarios=%d events=%d\n", *n, ev)
	return nil
}
