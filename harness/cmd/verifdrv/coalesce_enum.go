package main

import (
	"context"
	"encoding/json"
	"flag"
	"fmt"
	"sort"
	"sync"
	"sync/atomic"
	"time"

	"github.com/openconfig/gnmi/coalesce"
	"verifharness/internal/trace"
)

// coalesce enum (C11): bounded EXHAUSTIVE enumeration of schedules on the real queue. A small program (producers
// with one or two inserts, one consumer, a closer) is run under a gate scheduler: every goroutine parks before each
// call and at the three hook points inside Insert and Next (insert.checked, insert.done, next.empty); exactly one
// goroutine runs at a time, the scheduler picks which parked goroutine goes next, and a stateless depth-first search
// over those choices visits every order of the gate-delimited steps - the steps of CoalesceChan.tla. Every run is
// recorded as an inv/ret history and validated by CoalesceLin.tla (identical histories once).
//
//   verifdrv coalesce enum -out DIR -shards K [-max N]

type gateSched struct {
	mu      sync.Mutex
	parked  map[string]chan struct{} // goroutine name -> its release channel while parked
	point   map[string]string
	running string // the goroutine released last and not yet parked again / finished / known blocked
	done    map[string]bool
	blocked map[string]bool // released from next.empty and not back: inside the select
	names   map[int64]string
	wake    chan struct{}
}

func newGateSched() *gateSched {
	return &gateSched{parked: map[string]chan struct{}{}, point: map[string]string{}, done: map[string]bool{}, blocked: map[string]bool{},
		names: map[int64]string{}, wake: make(chan struct{}, 64)}
}

func (s *gateSched) signal() {
	select {
	case s.wake <- struct{}{}:
	default:
	}
}

// at parks the calling goroutine at a gate until the scheduler releases it.
func (s *gateSched) at(name, point string) {
	ch := make(chan struct{})
	s.mu.Lock()
	s.parked[name] = ch
	s.point[name] = point
	delete(s.blocked, name)
	if s.running == name {
		s.running = ""
	}
	s.mu.Unlock()
	s.signal()
	<-ch
}

func (s *gateSched) finish(name string) {
	s.mu.Lock()
	s.done[name] = true
	delete(s.blocked, name)
	if s.running == name {
		s.running = ""
	}
	s.mu.Unlock()
	s.signal()
}

// hook is installed as coalesce.VerifHook for the duration of the enumeration (single queue at a time).
func (s *gateSched) hook(point string, _ interface{}) {
	s.mu.Lock()
	name := s.names[goid()]
	s.mu.Unlock()
	if name != "" {
		s.at(name, point)
	}
}

// settle waits until the goroutine released last has parked again, finished, or - having been released from
// next.empty - stayed away for the grace period (it is then inside Next's select, the only place a step can block).
func (s *gateSched) settle(grace time.Duration) {
	deadline := time.Now().Add(grace)
	for {
		s.mu.Lock()
		r := s.running
		s.mu.Unlock()
		if r == "" {
			return
		}
		left := time.Until(deadline)
		if left <= 0 {
			s.mu.Lock()
			if s.running != "" {
				s.blocked[s.running] = true
				s.running = ""
			}
			s.mu.Unlock()
			return
		}
		select {
		case <-s.wake:
		case <-time.After(left):
		}
	}
}

type enumProg struct {
	Producers [][]string `json:"producers"` // items inserted by each producer, in order
	Nexts     int        `json:"nexts"`     // Next calls of the consumer (it stops earlier on closed/cancelled)
	Closer    bool       `json:"closer"`
}

// run executes the program once; choice i of the schedule picks among the parked goroutines (sorted by name);
// beyond the given prefix the first parked goroutine is taken. Returns the events, the number of options at each
// step (for the search) and whether the run hung.
func (p enumProg) run(prefix []int) (evs []trace.E, opts []int, hung bool) {
	s := newGateSched()
	old := coalesce.VerifHook
	coalesce.VerifHook = s.hook
	defer func() { coalesce.VerifHook = old }()
	q := coalesce.NewQueue()
	var emu sync.Mutex
	emit := func(e trace.E) { emu.Lock(); evs = append(evs, e); emu.Unlock() }
	emit(trace.E{"ev": "reset"})
	ctx, cancel := context.WithCancel(context.Background())
	defer cancel()
	var all []string
	start := func(name string, body func()) {
		all = append(all, name)
		ready := make(chan struct{})
		go func() {
			s.mu.Lock()
			s.names[goid()] = name
			s.mu.Unlock()
			close(ready)
			body()
			s.finish(name)
		}()
		<-ready
	}
	for i, items := range p.Producers {
		name := fmt.Sprintf("p%d", i)
		items := items
		start(name, func() {
			for _, it := range items {
				s.at(name, "call")
				emit(trace.E{"ev": "inv", "g": name, "op": "Insert", "i": it})
				fresh, err := q.Insert(it)
				kind := "coalesced"
				if err != nil {
					kind = "refused"
				} else if fresh {
					kind = "fresh"
				}
				emit(trace.E{"ev": "ret", "g": name, "op": "Insert", "res": trace.E{"kind": kind}})
			}
		})
	}
	start("c", func() {
		for k := 0; k < p.Nexts; k++ {
			s.at("c", "call")
			emit(trace.E{"ev": "inv", "g": "c", "op": "Next"})
			it, dup, err := q.Next(ctx)
			switch {
			case err == nil:
				emit(trace.E{"ev": "ret", "g": "c", "op": "Next", "res": trace.E{"kind": "item", "i": fmt.Sprint(it), "dup": dup}})
			case coalesce.IsClosedQueue(err):
				emit(trace.E{"ev": "ret", "g": "c", "op": "Next", "res": trace.E{"kind": "closed"}})
				return
			case err == context.Canceled:
				emit(trace.E{"ev": "ret", "g": "c", "op": "Next", "res": trace.E{"kind": "cancelled"}})
				return
			default:
				emit(trace.E{"ev": "ret", "g": "c", "op": "Next", "res": trace.E{"kind": "error:" + err.Error()}})
				return
			}
		}
	})
	if p.Closer {
		start("x", func() {
			s.at("x", "call")
			emit(trace.E{"ev": "inv", "g": "x", "op": "Close"})
			q.Close()
			emit(trace.E{"ev": "ret", "g": "x", "op": "Close", "res": trace.E{"kind": "ok"}})
		})
	}
	const grace = 2 * time.Millisecond
	// every goroutine reaches its first gate
	for {
		s.mu.Lock()
		n := len(s.parked)
		s.mu.Unlock()
		if n == len(all) {
			break
		}
		<-s.wake
	}
	step := 0
	for {
		s.settle(grace)
		s.mu.Lock()
		var cands []string
		for n := range s.parked {
			cands = append(cands, n)
		}
		nBlocked, nDone := len(s.blocked), len(s.done)
		s.mu.Unlock()
		sort.Strings(cands)
		if len(cands) == 0 {
			if nDone == len(all) {
				break
			}
			if nBlocked > 0 {
				// only the consumer is left, inside Next's select. It must be asleep for a reason: nothing pending
				// and the queue open. Give a wake-up that is on its way time to arrive, then judge.
				deadline := time.Now().Add(200 * time.Millisecond)
				for time.Now().Before(deadline) {
					s.mu.Lock()
					back := len(s.blocked) == 0
					s.mu.Unlock()
					if back {
						break
					}
					time.Sleep(50 * time.Microsecond)
				}
				s.mu.Lock()
				still := len(s.blocked) > 0
				s.mu.Unlock()
				if !still {
					continue
				}
				if q.Len() > 0 || q.IsClosed() {
					emit(trace.E{"ev": "hang", "what": "consumer asleep in Next although items are pending or the queue is closed", "len": q.Len()})
					cancel()
					return evs, opts, true
				}
				// legitimately waiting for more: the test ends it through its context
				emit(trace.E{"ev": "inv", "g": "y", "op": "Cancel"})
				cancel()
				emit(trace.E{"ev": "ret", "g": "y", "op": "Cancel", "res": trace.E{"kind": "ok"}})
				s.mu.Lock()
				for n := range s.blocked {
					s.running = n
					delete(s.blocked, n)
				}
				s.mu.Unlock()
				continue
			}
			time.Sleep(20 * time.Microsecond)
			continue
		}
		pick := 0
		if step < len(prefix) {
			pick = prefix[step]
		}
		if pick >= len(cands) {
			pick = len(cands) - 1
		}
		opts = append(opts, len(cands))
		step++
		name := cands[pick]
		s.mu.Lock()
		ch := s.parked[name]
		delete(s.parked, name)
		s.running = name
		s.mu.Unlock()
		close(ch)
	}
	emit(trace.E{"ev": "final", "len": q.Len()})
	return evs, opts, false
}

func coalesceEnum(args []string) error {
	fs := flag.NewFlagSet("coalesce enum", flag.ContinueOnError)
	out := fs.String("out", "", "output directory")
	shards := fs.Int("shards", 16, "trace files")
	max := fs.Int("max", 0, "stop after this many schedules per program (0 = all)")
	big := fs.Bool("big", false, "larger programs (thorough tier)")
	if err := fs.Parse(args); err != nil {
		return err
	}
	ss, err := newShards(*out, "enum", *shards)
	if err != nil {
		return err
	}
	progs := []enumProg{
		{Producers: [][]string{{"a"}, {"b"}}, Nexts: 2, Closer: false},
		{Producers: [][]string{{"a"}}, Nexts: 2, Closer: true},
		{Producers: [][]string{{"a"}, {"a"}}, Nexts: 2, Closer: true},
		{Producers: [][]string{{"a", "b"}}, Nexts: 3, Closer: true},
	}
	if *big {
		progs = append(progs,
			enumProg{Producers: [][]string{{"a"}, {"b"}}, Nexts: 3, Closer: true},
			enumProg{Producers: [][]string{{"a", "a"}, {"b"}}, Nexts: 3, Closer: false},
			enumProg{Producers: [][]string{{"a", "b"}, {"b", "a"}}, Nexts: 3, Closer: false})
	}
	seen := map[string]bool{}
	total, distinct, hangs := 0, 0, 0
	for pi, p := range progs {
		// stateless depth-first search over the scheduler's choices
		prefix := []int{}
		n := 0
		for {
			evs, opts, hung := p.run(prefix)
			total++
			n++
			if hung {
				hangs++
			}
			b, _ := json.Marshal(evs)
			if k := string(b); !seen[k] {
				seen[k] = true
				w := ss.ws[distinct%len(ss.ws)]
				distinct++
				for _, e := range evs {
					w.Emit(e)
				}
			}
			// next schedule: the deepest choice that can still be advanced
			full := make([]int, len(opts))
			copy(full, prefix)
			i := len(opts) - 1
			for i >= 0 && full[i]+1 >= opts[i] {
				i--
			}
			if i < 0 || (*max > 0 && n >= *max) || hangs > 3 {
				break
			}
			prefix = append(full[:i:i], full[i]+1)
		}
		fmt.Printf("ENUM program=%d schedules=%d\n", pi, n)
	}
	ev := ss.close()
	fmt.Printf("DRV coalesce enum programs=%d schedules=%d histories=%d events=%d hangs=%d\n", len(progs), total, distinct, ev, hangs)
	return nil
}

// coalesce duel (C11): two or three producers released together by a spin barrier, each inserting one item (mostly
// the same one) into a fresh queue; afterwards the queue is drained. Windows of a few nanoseconds inside Insert -
// between two of its critical sections, where no hook sits - are only met when the calls really start together.
// Identical histories are written once.
//
//   verifdrv coalesce duel -n N -out DIR -shards K
func coalesceDuel(args []string) error {
	fs := flag.NewFlagSet("coalesce duel", flag.ContinueOnError)
	n := fs.Int("n", 50000, "rounds")
	out := fs.String("out", "", "output directory")
	shards := fs.Int("shards", 16, "trace files")
	if err := fs.Parse(args); err != nil {
		return err
	}
	ss, err := newShards(*out, "duel", *shards)
	if err != nil {
		return err
	}
	seen := map[string]bool{}
	distinct := 0
	for i := 0; i < *n; i++ {
		np := 2 + i%2
		items := make([]string, np)
		for p := range items {
			items[p] = "a"
			if (i/2+p)%5 == 0 {
				items[p] = "b"
			}
		}
		q := coalesce.NewQueue()
		var evs []trace.E
		var mu sync.Mutex
		emit := func(e trace.E) { mu.Lock(); evs = append(evs, e); mu.Unlock() }
		emit(trace.E{"ev": "reset"})
		if i%3 == 0 { // something already pending
			emit(trace.E{"ev": "inv", "g": "init", "op": "Insert", "i": "b"})
			q.Insert("b")
			emit(trace.E{"ev": "ret", "g": "init", "op": "Insert", "res": trace.E{"kind": "fresh"}})
		}
		for p := 0; p < np; p++ {
			emit(trace.E{"ev": "inv", "g": fmt.Sprintf("p%d", p), "op": "Insert", "i": items[p]})
		}
		var ready int32
		var wg sync.WaitGroup
		for p := 0; p < np; p++ {
			wg.Add(1)
			go func(p int) {
				defer wg.Done()
				atomic.AddInt32(&ready, 1)
				for atomic.LoadInt32(&ready) < int32(np) {
				}
				fresh, err := q.Insert(items[p])
				kind := "coalesced"
				if err != nil {
					kind = "refused"
				} else if fresh {
					kind = "fresh"
				}
				emit(trace.E{"ev": "ret", "g": fmt.Sprintf("p%d", p), "op": "Insert", "res": trace.E{"kind": kind}})
			}(p)
		}
		wg.Wait()
		// drain: what is delivered, with which duplicate counts
		for q.Len() > 0 {
			emit(trace.E{"ev": "inv", "g": "c", "op": "Next"})
			it, dup, err := q.Next(context.Background())
			if err != nil {
				emit(trace.E{"ev": "ret", "g": "c", "op": "Next", "res": trace.E{"kind": "error:" + err.Error()}})
				break
			}
			emit(trace.E{"ev": "ret", "g": "c", "op": "Next", "res": trace.E{"kind": "item", "i": fmt.Sprint(it), "dup": dup}})
		}
		emit(trace.E{"ev": "final", "len": q.Len()})
		b, _ := json.Marshal(evs)
		if k := string(b); !seen[k] {
			seen[k] = true
			w := ss.ws[distinct%len(ss.ws)]
			distinct++
			for _, e := range evs {
				w.Emit(e)
			}
		}
	}
	ev := ss.close()
	fmt.Printf("DRV coalesce duel rounds=%d histories=%d events=%d\n", *n, distinct, ev)
	return nil
}
