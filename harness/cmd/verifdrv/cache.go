package main

import (
	"bufio"
	"encoding/hex"
	"encoding/json"
	"errors"
	"flag"
	"fmt"
	"math/rand"
	"os"
	"runtime/debug"
	"sort"
	"strconv"
	"strings"
	"time"

	"google.golang.org/protobuf/proto"

	"github.com/openconfig/gnmi/cache"
	"github.com/openconfig/gnmi/ctree"
	"github.com/openconfig/gnmi/metadata"
	pb "github.com/openconfig/gnmi/proto/gnmi"
	"verifharness/internal/trace"
)

// cache family (C02, C03, C14, C15): sequential use of cache.Cache.
//
//   verifdrv cache random -n N -len L -out DIR -shards K
//   verifdrv cache replay -scenario F -out FILE

func init() { register("cache", cacheMain) }

// ---- scenario description (JSON, replayable) ----

type elemDesc struct {
	Name string            `json:"name"`
	Keys map[string]string `json:"keys,omitempty"`
}

type pathDesc struct {
	Origin  string     `json:"origin,omitempty"`
	Target  string     `json:"target,omitempty"`
	Elems   []elemDesc `json:"elems,omitempty"`
	Element []string   `json:"element,omitempty"`
	Shared  int        `json:"shared,omitempty"` // >0: one object shared by every use of this id in the scenario
	Spare   int        `json:"spare,omitempty"`  // spare capacity of the elem slice
}

type valDesc struct {
	Arm string `json:"arm"`
	V   string `json:"v"`
}

type updDesc struct {
	Path pathDesc `json:"path"`
	Val  valDesc  `json:"val"`
}

type cacheOp struct {
	Op     string     `json:"op"`
	T      string     `json:"t,omitempty"`
	Ts     int64      `json:"ts,omitempty"`
	Now    int64      `json:"now"`
	Atomic bool       `json:"atomic,omitempty"`
	Prefix *pathDesc  `json:"prefix,omitempty"` // nil: no prefix at all
	Ups    []updDesc  `json:"ups,omitempty"`
	Dels   []pathDesc `json:"dels,omitempty"`
	Msg    string     `json:"msg,omitempty"`
	Q      []string   `json:"q,omitempty"`
	// AtWalk (subscribe driver only): the writer holds this op back until a subscriber of the
	// scenario enters its initial walk (bounded wait), so that the op lands inside the walk.
	AtWalk bool `json:"at_walk,omitempty"`
}

type cacheScenario struct {
	Sc      int       `json:"sc"`
	Thr     int64     `json:"thr"`
	Ed      bool      `json:"ed"`
	Targets []string  `json:"targets"`
	Ops     []cacheOp `json:"ops"`
}

func buildVal(v valDesc) *pb.TypedValue {
	switch v.Arm {
	case "int":
		i, _ := strconv.ParseInt(v.V, 10, 64)
		return &pb.TypedValue{Value: &pb.TypedValue_IntVal{IntVal: i}}
	case "uint":
		i, _ := strconv.ParseUint(v.V, 10, 64)
		return &pb.TypedValue{Value: &pb.TypedValue_UintVal{UintVal: i}}
	case "bool":
		return &pb.TypedValue{Value: &pb.TypedValue_BoolVal{BoolVal: v.V == "true"}}
	case "string":
		return &pb.TypedValue{Value: &pb.TypedValue_StringVal{StringVal: v.V}}
	case "double":
		f, _ := strconv.ParseFloat(v.V, 64)
		return &pb.TypedValue{Value: &pb.TypedValue_DoubleVal{DoubleVal: f}}
	case "float":
		f, _ := strconv.ParseFloat(v.V, 32)
		return &pb.TypedValue{Value: &pb.TypedValue_FloatVal{FloatVal: float32(f)}}
	case "bytes":
		b, _ := hex.DecodeString(v.V)
		return &pb.TypedValue{Value: &pb.TypedValue_BytesVal{BytesVal: b}}
	case "json":
		return &pb.TypedValue{Value: &pb.TypedValue_JsonVal{JsonVal: []byte(v.V)}}
	case "json_ietf":
		return &pb.TypedValue{Value: &pb.TypedValue_JsonIetfVal{JsonIetfVal: []byte(v.V)}}
	case "ascii":
		return &pb.TypedValue{Value: &pb.TypedValue_AsciiVal{AsciiVal: v.V}}
	case "decimal": // "digits/precision"
		d, p := v.V, "2"
		for i := 0; i < len(v.V); i++ {
			if v.V[i] == '/' {
				d, p = v.V[:i], v.V[i+1:]
			}
		}
		i, _ := strconv.ParseInt(d, 10, 64)
		pr, _ := strconv.ParseUint(p, 10, 32)
		return &pb.TypedValue{Value: &pb.TypedValue_DecimalVal{DecimalVal: &pb.Decimal64{Digits: i, Precision: uint32(pr)}}}
	case "leaflist":
		sa := &pb.ScalarArray{}
		for _, c := range v.V {
			sa.Element = append(sa.Element, &pb.TypedValue{Value: &pb.TypedValue_StringVal{StringVal: string(c)}})
		}
		return &pb.TypedValue{Value: &pb.TypedValue_LeaflistVal{LeaflistVal: sa}}
	}
	panic("cache: unknown value arm " + v.Arm)
}

type pathPool map[string]*pb.Path

func (pp pathPool) build(d *pathDesc) *pb.Path {
	if d == nil {
		return nil
	}
	key := fmt.Sprintf("%d|%s|%s", d.Shared, d.Target, d.Origin)
	if d.Shared > 0 {
		if p, ok := pp[key]; ok {
			return p
		}
	}
	p := &pb.Path{Origin: d.Origin, Target: d.Target}
	if len(d.Elems) > 0 {
		p.Elem = make([]*pb.PathElem, 0, len(d.Elems)+d.Spare)
		for _, e := range d.Elems {
			pe := &pb.PathElem{Name: e.Name}
			if len(e.Keys) > 0 {
				pe.Key = map[string]string{}
				for k, v := range e.Keys {
					pe.Key[k] = v
				}
			}
			p.Elem = append(p.Elem, pe)
		}
	}
	if len(d.Element) > 0 {
		p.Element = make([]string, 0, len(d.Element)+d.Spare)
		p.Element = append(p.Element, d.Element...)
	}
	if d.Shared > 0 {
		pp[key] = p
	}
	return p
}

func (pp pathPool) notification(o cacheOp) *pb.Notification {
	n := &pb.Notification{Timestamp: o.Ts, Atomic: o.Atomic}
	if o.Prefix != nil {
		n.Prefix = pp.build(o.Prefix)
	}
	for i := range o.Ups {
		n.Update = append(n.Update, &pb.Update{Path: pp.build(&o.Ups[i].Path), Val: buildVal(o.Ups[i].Val)})
	}
	for i := range o.Dels {
		n.Delete = append(n.Delete, pp.build(&o.Dels[i]))
	}
	return n
}

// ---- execution and logging ----

type feedEntry = trace.E

type cacheDrv struct {
	c    *cache.Cache
	w    *trace.Writer
	now  int64
	feed []feedEntry
	pool pathPool
	dead bool // the code under test panicked: locks may still be held, the scenario ends here
	// every notification handed to the cache in this scenario, with a copy taken before the call: the caller's
	// notification is left unmodified - also by later calls (the cache may keep the caller's object)
	given []*pb.Notification
	copies []*pb.Notification
}

// onFeed is the SetClient callback: it projects what a consumer of the feed sees
// at callback time.
func (d *cacheDrv) onFeed(l *ctree.Leaf) {
	n, ok := l.Value().(*pb.Notification)
	if !ok {
		d.feed = append(d.feed, feedEntry{"k": "other", "t": "", "p": []string{}, "ts": 0})
		return
	}
	t := n.GetPrefix().GetTarget()
	for _, del := range n.GetDelete() {
		d.feed = append(d.feed, feedEntry{"k": "del", "t": t, "p": idxPath(n.GetPrefix(), del), "ts": n.GetTimestamp()})
	}
	if len(n.GetUpdate()) > 0 {
		var p []string
		var tok string
		if n.GetAtomic() {
			p, tok = idxPath(n.GetPrefix(), nil), atomicTok(n)
		} else {
			p = idxPath(n.GetPrefix(), n.GetUpdate()[0].GetPath())
			tok = normMetaTok(p, valTok(n.GetUpdate()[0].GetVal()))
		}
		d.feed = append(d.feed, feedEntry{"k": "upd", "t": t, "p": p, "ts": n.GetTimestamp(), "val": tok})
	}
}

func (d *cacheDrv) targets() []string {
	ts := []string{}
	for t := range d.c.Metadata() {
		ts = append(ts, t)
	}
	sort.Strings(ts)
	return ts
}

func projLeaf(t string, p []string, v interface{}) trace.E {
	n, ok := v.(*pb.Notification)
	if !ok {
		return trace.E{"t": t, "p": trace.Strs(p), "ts": 0, "val": fmt.Sprintf("corrupt:%T", v)}
	}
	tok := ""
	if n.GetAtomic() {
		tok = atomicTok(n)
	} else if len(n.GetUpdate()) > 0 {
		tok = normMetaTok(p, valTok(n.GetUpdate()[0].GetVal()))
	}
	return trace.E{"t": t, "p": trace.Strs(p), "ts": n.GetTimestamp(), "val": tok}
}

func (d *cacheDrv) proj() []trace.E {
	out := []trace.E{}
	for _, t := range d.targets() {
		d.c.Query(t, []string{}, func(p []string, _ *ctree.Leaf, v interface{}) error {
			out = append(out, projLeaf(t, p, v))
			return nil
		})
	}
	return out
}

func (d *cacheDrv) meta() []trace.E {
	out := []trace.E{}
	md := d.c.Metadata()
	for _, t := range d.targets() {
		m := md[t]
		gi := func(k string) int64 { v, _ := m.GetInt(k); return v }
		gb := func(k string) bool { v, _ := m.GetBool(k); return v }
		cerr := "-unset-"
		if s, err := m.GetStr(metadata.ConnectError); err == nil {
			cerr = "string:" + s
		}
		out = append(out, trace.E{"t": t,
			"leaves": gi(metadata.LeafCount), "added": gi(metadata.AddCount), "deleted": gi(metadata.DelCount),
			"updated": gi(metadata.UpdateCount), "suppressed": gi(metadata.SuppressedCount), "stale": gi(metadata.StaleCount),
			"future": gi(metadata.FutureCount), "empty": gi(metadata.EmptyCount), "size": gi(metadata.Size),
			"sync": gb(metadata.Sync), "connected": gb(metadata.Connected), "cerr": cerr})
	}
	return out
}

func (d *cacheDrv) start(sc cacheScenario) {
	opts := []cache.Option{cache.WithFutureThreshold(time.Duration(sc.Thr))}
	if !sc.Ed {
		opts = append(opts, cache.DisableEventDrivenEmulation())
	}
	d.c = cache.New(sc.Targets, opts...)
	d.c.SetClient(d.onFeed)
	d.pool = pathPool{}
	d.now = 1
	cache.Now = func() time.Time { return time.Unix(0, d.now) }
	d.w.Emit(trace.E{"ev": "config", "sc": sc.Sc, "thr": sc.Thr, "ed": sc.Ed, "targets": trace.Strs(sc.Targets)})
}

func resClass(err error) string {
	switch {
	case err == nil:
		return "ok"
	case errors.Is(err, cache.ErrStale):
		return "stale"
	case errors.Is(err, cache.ErrFuture):
		return "future"
	}
	return "err"
}

func (d *cacheDrv) apply(o cacheOp) {
	d.now = o.Now
	d.feed = []feedEntry{}
	e := trace.E{"ev": o.Op, "now": o.Now}
	read := false
	defer func() {
		if r := recover(); r != nil {
			site := ""
			for _, ln := range strings.Split(string(debug.Stack()), "\n") {
				if ln = strings.Replace(ln, repoRoot()+"/", "/repo/", 1); strings.Contains(ln, "/repo/") {
					site = strings.TrimSpace(strings.Split(ln, " +")[0])
					break
				}
			}
			d.dead = true
			d.w.Emit(trace.E{"ev": "panic", "op": o.Op, "msg": fmt.Sprint(r), "site": site})
			return
		}
		if !read {
			d.w.Emit(e)
		}
	}()
	switch o.Op {
	case "GnmiUpdate":
		n := d.pool.notification(o)
		before := proto.Clone(n)
		t := "-nil-"
		if n.Prefix != nil {
			t = n.Prefix.GetTarget()
		}
		ups, dels := []trace.E{}, []trace.E{}
		for _, u := range n.Update {
			ups = append(ups, trace.E{"p": idxPath(n.Prefix, u.Path), "val": valTok(u.Val), "enc": encTok(n.Prefix, u.Path)})
		}
		for _, dl := range n.Delete {
			dels = append(dels, trace.E{"p": idxPath(n.Prefix, dl)})
		}
		e["t"], e["ts"], e["at"], e["ups"], e["dels"] = t, o.Ts, o.Atomic, ups, dels
		if o.Atomic {
			e["ap"], e["aval"], e["aenc"] = idxPath(n.Prefix, nil), atomicTok(n), hashTok(n)
		}
		err := d.c.GnmiUpdate(n)
		e["res"] = resClass(err)
		unmod := proto.Equal(before, n)
		for i := range d.given {
			unmod = unmod && proto.Equal(d.given[i], d.copies[i])
		}
		e["unmod"] = unmod
		if len(d.given) < 64 {
			d.given, d.copies = append(d.given, n), append(d.copies, before.(*pb.Notification))
		}
	case "Sync":
		d.c.Sync(o.T)
		e["t"] = o.T
	case "Connect":
		d.c.Connect(o.T)
		e["t"] = o.T
	case "ConnectError":
		d.c.ConnectError(o.T, errors.New(o.Msg))
		e["t"], e["val"] = o.T, "string:"+o.Msg
	case "Reset":
		d.c.Reset(o.T)
		e["t"] = o.T
	case "Remove":
		d.c.Remove(o.T)
		e["t"] = o.T
	case "Add":
		d.c.Add(o.T)
		e["t"] = o.T
	case "UpdateMetadata":
		d.c.UpdateMetadata()
	case "UpdateSize":
		d.c.UpdateSize()
	case "HasTarget":
		d.w.Emit(trace.E{"ev": "HasTarget", "t": o.T, "res": d.c.HasTarget(o.T)})
		read = true
		return
	case "Query":
		leaves := []trace.E{}
		err := d.c.Query(o.T, o.Q, func(p []string, _ *ctree.Leaf, v interface{}) error {
			n, _ := v.(*pb.Notification)
			leaves = append(leaves, projLeaf(n.GetPrefix().GetTarget(), p, v))
			return nil
		})
		res := "ok"
		if err != nil {
			res = "err"
		}
		d.w.Emit(trace.E{"ev": "Query", "t": o.T, "q": trace.Strs(o.Q), "res": res, "leaves": leaves})
		read = true
		return
	default:
		panic("cache: unknown op " + o.Op)
	}
	e["feed"] = d.feed
	e["proj"] = d.proj()
	e["meta"] = d.meta()
}

// ---- random scenarios ----

var cacheArms = []string{"int", "uint", "bool", "string", "double", "float", "bytes", "json", "json_ietf", "ascii", "decimal", "leaflist"}

func randVal(r *rand.Rand) valDesc { return randValFav(r, "") }

// randValFav: when fav is set most values use that arm, so that a leaf is updated again and again
// with (nearly) equal values of one type.
func randValFav(r *rand.Rand, fav string) valDesc {
	arm := cacheArms[r.Intn(len(cacheArms))]
	if fav != "" && r.Intn(10) < 7 {
		arm = fav
	} else if r.Intn(3) > 0 {
		arm = []string{"int", "string"}[r.Intn(2)] // few arms, few payloads: equal values are frequent
	}
	// a few payloads per arm, two of them "nearly equal" (equal after a lossy conversion, or
	// the same number in another encoding): a comparison that is too coarse shows up
	k := r.Intn(3)
	switch arm {
	case "int":
		return valDesc{arm, []string{"1", "9007199254740992", "9007199254740993", "2"}[r.Intn(4)]}
	case "uint":
		return valDesc{arm, []string{"1", "18446744073709551614", "18446744073709551615", "2"}[r.Intn(4)]}
	case "decimal":
		return valDesc{arm, []string{"1234567890/3", "1234567891/3", "120/1", "12/0"}[r.Intn(4)]}
	case "bool":
		return valDesc{arm, strconv.FormatBool(k%2 == 0)}
	case "double":
		return valDesc{arm, []string{"1.5", "1.5000000000000002", "3"}[k]}
	case "float":
		return valDesc{arm, []string{"1.5", "1.5000001", "3"}[k]}
	case "bytes":
		return valDesc{arm, []string{"00", "0000", "ab"}[k]}
	case "json", "json_ietf":
		return valDesc{arm, []string{`{"a":1}`, `"x"`, `[1,2]`}[k]}
	case "leaflist":
		return valDesc{arm, []string{"ab", "abc", "b"}[k]}
	}
	return valDesc{arm, []string{"x", "X", "x ", "y"}[r.Intn(4)]}
}

type cacheGen struct {
	r        *rand.Rand
	targets  []string // all names ever used
	shared   int
	fav      string    // favourite value arm of this scenario
	hist     []cacheOp // recent GnmiUpdate ops, source of same-timestamp variants
	w        []int     // weights of the op kinds, see cacheProfiles
	tsDense  bool      // timestamps close together (many equal / out-of-order)
	thr      int64     // future threshold of the scenario (0: none)
	lastFut  int64     // timestamp of the last future probe
	follow   string    // target of a future probe just made: the next op re-probes it
	metaDel  bool      // deletes addressed to the cache's own leaf-accounting leaves (profile meta)
	mixKinds bool      // containers written where leaves are and the reverse (cache family only: a subscriber's queue
	//                   holds leaf handles, and a handle whose leaf changed kind in place is outside the stream properties)
}

// Weights per op kind: single, multi, atomic, delete, empty, unknown-target, Sync, Connect,
// ConnectError, Reset, Remove, Add, UpdateMetadata, UpdateSize, HasTarget, Query.
var cacheProfiles = map[string][]int{
	"mixed": {34, 14, 8, 14, 2, 2, 4, 3, 3, 3, 2, 2, 3, 1, 1, 4},
	"ts":    {55, 8, 6, 22, 1, 1, 1, 0, 0, 1, 0, 0, 2, 0, 0, 3},
	"feed":  {28, 24, 12, 20, 2, 1, 2, 1, 1, 3, 2, 2, 1, 0, 0, 1},
	"multi": {30, 8, 4, 10, 1, 3, 3, 3, 3, 8, 7, 7, 3, 1, 4, 5},
	"meta":  {26, 8, 4, 10, 4, 2, 7, 7, 7, 6, 2, 2, 10, 3, 0, 2},
}

// dataPath generates a (prefix, path) pair for target data. Names come from a
// small alphabet so that prefix collisions, re-adds and overlaps are frequent.
func (g *cacheGen) dataPath(target string, glob bool) (*pathDesc, pathDesc) {
	r := g.r
	names := []string{"a", "b", "c"}
	full := []elemDesc{}
	depth := 1 + r.Intn(3)
	for i := 0; i < depth; i++ {
		e := elemDesc{Name: names[r.Intn(len(names))]}
		if glob && r.Intn(4) == 0 {
			e.Name = "*"
		} else if r.Intn(5) == 0 {
			e.Name = "l"
			e.Keys = map[string]string{"k1": []string{"x", "y", "x/y"}[r.Intn(3)]} // a key value may contain the path separator
			if r.Intn(2) == 0 {
				e.Keys["k0"] = []string{"x", "y"}[r.Intn(2)]
			}
			if glob && r.Intn(3) == 0 {
				e.Keys["k1"] = "*"
			}
		}
		full = append(full, e)
	}
	if r.Intn(6) == 0 {
		full = append([]elemDesc{{Name: "p"}}, full...) // a container that is never itself a leaf (see prefixContainer)
	}
	split := r.Intn(len(full) + 1)
	pre := &pathDesc{Target: target}
	if r.Intn(3) == 0 {
		pre.Origin = "oc"
	}
	var path pathDesc
	if r.Intn(5) == 0 {
		// deprecated element encoding (keys flattened, as a sender would)
		flat := func(es []elemDesc) []string {
			out := []string{}
			for _, e := range es {
				out = append(out, e.Name)
				ks := make([]string, 0)
				for k := range e.Keys {
					ks = append(ks, k)
				}
				sort.Strings(ks)
				for _, k := range ks {
					out = append(out, e.Keys[k])
				}
			}
			return out
		}
		pre.Element, path.Element = flat(full[:split]), flat(full[split:])
	} else {
		pre.Elems, path.Elems = full[:split], full[split:]
	}
	pre.Spare = r.Intn(4)
	path.Spare = r.Intn(4)
	return pre, path
}

// futureTs probes the future threshold: a timestamp just around "now + threshold", or one close to
// the previous probe (which is what tells a rejected probe that left no trace from one that did).
func (g *cacheGen) futureTs(now int64) int64 {
	r := g.r
	ts := now + g.thr - 1 + int64(r.Intn(4))
	if g.lastFut > 0 && r.Intn(2) == 0 {
		ts = g.lastFut - 1 + int64(r.Intn(int(g.thr)+3))
	}
	if ts < 1 {
		ts = 1
	}
	g.lastFut = ts
	if r.Intn(2) == 0 {
		g.follow = "?" // resolved to the probing op's target by the caller
	}
	return ts
}

func (g *cacheGen) pickTarget() string { return g.targets[g.r.Intn(len(g.targets))] }

// op returns the next operation. About one in eight is a variant of a recent notification: the same
// prefix and (mostly) the same timestamp with one small difference -- none at all, one value, one
// update more or less -- which is where "identical", "different at the same timestamp" and "newer"
// have to be told apart.
func (g *cacheGen) op(now *int64) cacheOp {
	r := g.r
	follow := g.follow
	g.follow = ""
	if len(g.hist) > 0 && (r.Intn(8) == 0 || follow != "") {
		o := g.hist[r.Intn(len(g.hist))]
		if follow != "" {
			// right after a future probe: a notification of the same target close to the probe's timestamp
			// (accepted only if the probe, rejected or not, moved the target's latest timestamp)
			var same []cacheOp
			for _, h := range g.hist {
				if h.T == follow {
					same = append(same, h)
				}
			}
			if len(same) > 0 {
				o = same[r.Intn(len(same))]
			}
			*now += int64(r.Intn(2))
			o.Now = *now
			o.Ups = append([]updDesc(nil), o.Ups...)
			o.Dels = append([]pathDesc(nil), o.Dels...)
			o.Ts = g.lastFut - 1 + int64(r.Intn(int(g.thr)+2))
			if o.Ts < 1 {
				o.Ts = 1
			}
			if len(o.Ups) > 0 && r.Intn(2) == 0 {
				o.Ups[0].Val = randValFav(r, o.Ups[0].Val.Arm)
			}
			return o
		}
		*now += int64(r.Intn(2))
		o.Now = *now
		o.Ups = append([]updDesc(nil), o.Ups...)
		o.Dels = append([]pathDesc(nil), o.Dels...)
		if r.Intn(5) == 0 {
			o.Ts += int64(r.Intn(3)) - 1
			if o.Ts < 1 {
				o.Ts = 1
			}
		} else if g.thr > 0 && r.Intn(3) == 0 {
			o.Ts = g.futureTs(*now)
			if g.follow == "?" {
				g.follow = o.T
			}
		}
		switch k := r.Intn(5); {
		case k == 0 && len(o.Ups) > 0:
			i := r.Intn(len(o.Ups))
			o.Ups[i].Val = randValFav(r, o.Ups[i].Val.Arm)
		case k == 1 && len(o.Ups) > 1:
			o.Ups = o.Ups[:len(o.Ups)-1]
		case k == 2 && len(o.Ups) > 0:
			o.Ups = append(o.Ups, updDesc{pathDesc{Elems: []elemDesc{{Name: []string{"x", "y", "z"}[r.Intn(3)]}}}, randValFav(r, g.fav)})
		case k == 3 && len(o.Ups) > 1:
			i := 1 + r.Intn(len(o.Ups)-1)
			o.Ups[i].Val = randValFav(r, o.Ups[i].Val.Arm)
		}
		return o
	}
	o := g.fresh(now)
	if g.follow == "?" {
		g.follow = o.T
	}
	if o.Op == "GnmiUpdate" && o.T != "" {
		if len(g.hist) < 6 {
			g.hist = append(g.hist, o)
		} else {
			g.hist[r.Intn(len(g.hist))] = o
		}
	}
	return o
}

func (g *cacheGen) fresh(now *int64) cacheOp {
	r := g.r
	*now += int64(r.Intn(3))
	ts := *now - 8 + int64(r.Intn(24))
	if ts < 1 {
		ts = 1
	}
	if g.tsDense {
		ts = *now - 2 + int64(r.Intn(5))
		if ts < 1 {
			ts = 1
		}
	}
	if g.thr > 0 && r.Intn(8) == 0 {
		ts = g.futureTs(*now)
	}
	t := g.pickTarget()
	// map the weighted kind onto the thresholds of the switch below
	bounds := []int{34, 48, 56, 70, 72, 74, 78, 81, 84, 87, 89, 91, 94, 95, 96, 100}
	tot := 0
	for _, w := range g.w {
		tot += w
	}
	pick, kind := r.Intn(tot), 0
	for i, w := range g.w {
		if pick < w {
			kind = i
			break
		}
		pick -= w
	}
	x := bounds[kind] - 1
	switch {
	case x < 34: // single update
		pre, p := g.dataPath(t, false)
		if g.mixKinds && r.Intn(12) == 0 {
			// a plain leaf exactly where an atomic container is (or was) stored, often with the value of one of its members
			for _, h := range g.hist {
				if h.T == t && h.Atomic && h.Prefix != nil && len(h.Ups) > 0 {
					pre, p = &pathDesc{Target: t}, pathDesc{Elems: append([]elemDesc{}, h.Prefix.Elems...)}
					v := randValFav(r, g.fav)
					if r.Intn(2) == 0 {
						v = h.Ups[0].Val
					}
					return cacheOp{Op: "GnmiUpdate", T: t, Ts: ts, Now: *now, Prefix: pre, Ups: []updDesc{{p, v}}}
				}
			}
		}
		if r.Intn(4) == 0 { // share the prefix object with other notifications
			pre.Shared = 1 + r.Intn(3)
			pre.Spare = 1 + r.Intn(3)
			pre.Origin = ""
			pre.Element = nil
			pre.Elems = []elemDesc{{Name: "a"}}
			pre.Target = t
			pre.Shared += 10 * (1 + indexOf(g.targets, t))
			p = pathDesc{Elems: []elemDesc{{Name: []string{"x", "y", "z"}[r.Intn(3)]}}}
		}
		return cacheOp{Op: "GnmiUpdate", T: t, Ts: ts, Now: *now, Prefix: pre, Ups: []updDesc{{p, randValFav(r, g.fav)}}}
	case x < 48: // multi
		pre, _ := g.dataPath(t, false)
		pre.Elems, pre.Element = nil, nil
		o := cacheOp{Op: "GnmiUpdate", T: t, Ts: ts, Now: *now, Prefix: pre}
		nu, nd := r.Intn(4), r.Intn(3)
		if nu+nd < 2 {
			nu = 2
		}
		for i := 0; i < nu; i++ {
			_, p := g.dataPath(t, false)
			if len(p.Elems) == 0 && len(p.Element) == 0 {
				p.Elems = []elemDesc{{Name: "a"}}
			}
			o.Ups = append(o.Ups, updDesc{p, randValFav(r, g.fav)})
		}
		for i := 0; i < nd; i++ {
			_, p := g.dataPath(t, true)
			if len(p.Elems) == 0 && len(p.Element) == 0 {
				p.Elems = []elemDesc{{Name: "a"}}
			}
			o.Dels = append(o.Dels, p)
		}
		return o
	case x < 56: // atomic container under a reserved name
		pre := &pathDesc{Target: t, Elems: []elemDesc{{Name: "at" + strconv.Itoa(r.Intn(2))}}}
		if r.Intn(3) == 0 {
			pre.Elems = append(pre.Elems, elemDesc{Name: "a"})
		}
		if g.mixKinds && r.Intn(6) == 0 {
			// ... or exactly where a plain leaf was written: a container replacing a leaf (and, through the
			// single updates below, a leaf replacing a container) - the stored kind and the incoming kind differ
			for _, h := range g.hist {
				if h.T == t && !h.Atomic && len(h.Ups) == 1 && h.Prefix != nil && len(h.Prefix.Element)+len(h.Ups[0].Path.Element) == 0 && h.Prefix.Origin == "" {
					pre = &pathDesc{Target: t, Elems: append(append([]elemDesc{}, h.Prefix.Elems...), h.Ups[0].Path.Elems...)}
					break
				}
			}
		}
		o := cacheOp{Op: "GnmiUpdate", T: t, Ts: ts, Now: *now, Atomic: true, Prefix: pre}
		for i, k := 0, r.Intn(4); i < k; i++ {
			o.Ups = append(o.Ups, updDesc{pathDesc{Elems: []elemDesc{{Name: []string{"x", "y"}[r.Intn(2)]}}}, randValFav(r, g.fav)})
		}
		if len(o.Ups) > 0 && len(g.hist) > 0 && r.Intn(3) == 0 {
			if h := g.hist[r.Intn(len(g.hist))]; len(h.Ups) > 0 {
				o.Ups[0].Val = h.Ups[0].Val // a first member that equals some stored value
			}
		}
		if r.Intn(12) == 0 {
			o.Dels = append(o.Dels, pathDesc{Elems: []elemDesc{{Name: "x"}}})
		}
		return o
	case x < 70: // single delete (literal or wildcard)
		if g.metaDel && r.Intn(25) == 0 {
			// a delete addressed to one of the cache's own leaf-accounting leaves (a target - through the collector,
			// with the prefix origin "meta" - or any user of the cache can send it)
			name := []string{"targetLeaves", "targetLeavesAdded", "targetLeavesDeleted"}[r.Intn(3)]
			return cacheOp{Op: "GnmiUpdate", T: t, Ts: *now + 1, Now: *now, Prefix: &pathDesc{Target: t},
				Dels: []pathDesc{{Elems: []elemDesc{{Name: "meta"}, {Name: name}}}}}
		}
		pre, p := g.dataPath(t, true)
		if len(pre.Elems)+len(pre.Element)+len(p.Elems)+len(p.Element) == 0 || r.Intn(6) == 0 {
			pre.Elems, pre.Element, pre.Origin = nil, nil, ""
			p = pathDesc{Elems: []elemDesc{{Name: []string{"*", "a", "at0"}[r.Intn(3)]}}}
		}
		return cacheOp{Op: "GnmiUpdate", T: t, Ts: ts, Now: *now, Prefix: pre, Dels: []pathDesc{p}}
	case x < 72:
		return cacheOp{Op: "GnmiUpdate", T: t, Ts: ts, Now: *now, Prefix: &pathDesc{Target: t}}
	case x < 74:
		if r.Intn(2) == 0 {
			return cacheOp{Op: "GnmiUpdate", Ts: ts, Now: *now, Ups: []updDesc{{pathDesc{Elems: []elemDesc{{Name: "a"}}}, randValFav(r, g.fav)}}}
		}
		return cacheOp{Op: "GnmiUpdate", Ts: ts, Now: *now, Prefix: &pathDesc{Target: "nosuch"}, Ups: []updDesc{{pathDesc{Elems: []elemDesc{{Name: "a"}}}, randValFav(r, g.fav)}}}
	case x < 78:
		return cacheOp{Op: "Sync", T: t, Now: *now}
	case x < 81:
		return cacheOp{Op: "Connect", T: t, Now: *now}
	case x < 84:
		return cacheOp{Op: "ConnectError", T: t, Now: *now, Msg: []string{"e1", "e2"}[r.Intn(2)]}
	case x < 87:
		return cacheOp{Op: "Reset", T: t, Now: *now}
	case x < 89:
		return cacheOp{Op: "Remove", T: t, Now: *now}
	case x < 91:
		return cacheOp{Op: "Add", T: t, Now: *now}
	case x < 94:
		return cacheOp{Op: "UpdateMetadata", Now: *now}
	case x < 95:
		return cacheOp{Op: "UpdateSize", Now: *now}
	case x < 96:
		return cacheOp{Op: "HasTarget", T: []string{t, "", "*", "nosuch"}[r.Intn(4)], Now: *now}
	default:
		q := []string{}
		for i, k := 0, r.Intn(4); i < k; i++ {
			q = append(q, []string{"a", "b", "c", "*", "oc", "l", "x", "meta"}[r.Intn(8)])
		}
		return cacheOp{Op: "Query", T: []string{t, t, "*", "nosuch", ""}[r.Intn(5)], Q: q, Now: *now}
	}
}

func indexOf(ss []string, s string) int {
	for i, x := range ss {
		if x == s {
			return i
		}
	}
	return -1
}

func cacheRandom(args []string) error {
	fs := flag.NewFlagSet("cache random", flag.ContinueOnError)
	n := fs.Int("n", 100, "number of scenarios")
	length := fs.Int("len", 60, "operations per scenario")
	out := fs.String("out", "", "output directory")
	shards := fs.Int("shards", 16, "number of trace files")
	profile := fs.String("profile", "mixed", "generator profile: mixed|ts|feed|multi|meta")
	if err := fs.Parse(args); err != nil {
		return err
	}
	weights, ok := cacheProfiles[*profile]
	if !ok {
		return fmt.Errorf("unknown profile %q", *profile)
	}
	ss, err := newShards(*out, "cache", *shards)
	if err != nil {
		return err
	}
	scf, err := os.Create(*out + "/scenarios.ndjson")
	if err != nil {
		return err
	}
	defer scf.Close()
	sw := bufio.NewWriterSize(scf, 1<<20)
	defer sw.Flush()
	seed := seedFromEnv()
	nops := 0
	for i := 0; i < *n; i++ {
		r := rand.New(rand.NewSource(seed*7919 + int64(i)))
		all := []string{"dev1", "dev2", "dev10", "dev3"}[:1+r.Intn(4)]
		if *profile == "ts" {
			all = all[:1+r.Intn(2)]
		}
		if *profile == "multi" && len(all) < 2 {
			all = []string{"dev1", "dev10"}
		}
		g := &cacheGen{r: r, targets: all, w: weights, tsDense: *profile == "ts" || r.Intn(3) == 0, mixKinds: true, metaDel: *profile == "meta"}
		if r.Intn(2) == 0 {
			g.fav = cacheArms[r.Intn(len(cacheArms))]
		}
		sc := cacheScenario{Sc: i, Thr: []int64{0, 0, 3, 10}[r.Intn(4)], Ed: r.Intn(3) > 0, Targets: all[:1+r.Intn(len(all))]}
		g.thr = sc.Thr
		d := &cacheDrv{w: ss.ws[i%len(ss.ws)]}
		d.start(sc)
		known := map[string]bool{}
		for _, t := range sc.Targets {
			known[t] = true
		}
		now := int64(10)
		for k := 0; k < *length; k++ {
			o := g.op(&now)
			// Adding a target that is already known is outside the properties.
			if o.Op == "Add" {
				if known[o.T] {
					o = cacheOp{Op: "Sync", T: o.T, Now: o.Now}
				} else {
					known[o.T] = true
				}
			}
			if o.Op == "Remove" {
				delete(known, o.T)
			}
			sc.Ops = append(sc.Ops, o)
			d.apply(o)
			nops++
			if d.dead {
				break
			}
		}
		b, _ := json.Marshal(sc)
		sw.Write(b)
		sw.WriteByte('\n')
	}
	ev := ss.close()
	fmt.Printf("DRV cache random scenarios=%d ops=%d events=%d\n", *n, nops, ev)
	return nil
}

func cacheReplay(args []string) error {
	fs := flag.NewFlagSet("cache replay", flag.ContinueOnError)
	scenario := fs.String("scenario", "", "scenario JSON file")
	out := fs.String("out", "", "output trace file")
	if err := fs.Parse(args); err != nil {
		return err
	}
	b, err := os.ReadFile(*scenario)
	if err != nil {
		return err
	}
	var sc cacheScenario
	if err := json.Unmarshal(b, &sc); err != nil {
		return err
	}
	w, err := trace.New(*out)
	if err != nil {
		return err
	}
	d := &cacheDrv{w: w}
	d.start(sc)
	for _, o := range sc.Ops {
		if d.apply(o); d.dead {
			break
		}
	}
	return w.Close()
}

func cacheMain(args []string) error {
	if len(args) == 0 {
		return fmt.Errorf("cache: need a mode")
	}
	switch args[0] {
	case "random":
		return cacheRandom(args[1:])
	case "replay":
		return cacheReplay(args[1:])
	case "conc":
		return cacheConc(args[1:])
	case "lat":
		return cacheLat(args[1:])
	case "feedconc":
		return cacheFeedConc(args[1:])
	}
	return fmt.Errorf("cache: unknown mode %q", args[0])
}
