package main

import (
	"context"
	"errors"
	"flag"
	"fmt"
	"io"
	"math/rand"
	"net"
	"sync"
	"sync/atomic"
	"time"

	"github.com/openconfig/gnmi/client"
	gclient "github.com/openconfig/gnmi/client/gnmi"
	"verifharness/internal/trace"
)

// client family (C18): client.Reconnect(&client.BaseClient{}) with
//  (a) a scripted Impl (registered per scenario) whose New/Subscribe/Recv follow a
//      script and honour context cancellation and Close, Close being fired at a
//      chosen point of the run;
//  (b) the real gnmi Impl against the scripted gRPC server.
//
//   verifdrv reconnect random -n N -out DIR -shards K

func init() { register("reconnect", reconnectMain) }

type attemptScript struct {
	New  string // "ok" | "err"
	Sub  string // "ok" | "err"
	Msgs int
	Out  string // "error" | "eof" | "block"
}

type recEnv struct {
	w       *trace.Writer
	mu      sync.Mutex
	script  []attemptScript
	n       int32 // attempts started
	closeAt string
	lateCtx bool   // the Impl notices cancellation only where it blocks (a dial/stream set-up racing with the cancel completes)
	fire    func() // fires Close (once)
	hung    bool
}

func (e *recEnv) emit(ev trace.E) { e.mu.Lock(); e.w.Emit(ev); e.mu.Unlock() }

func (e *recEnv) at(point string) {
	if e.closeAt == point {
		e.fire()
		if e.lateCtx {
			time.Sleep(2 * time.Millisecond) // Close gets going while this step is still in progress
		}
	}
}

type scriptImpl struct {
	e      *recEnv
	k      int
	s      attemptScript
	ctx    context.Context
	q      client.Query
	closed chan struct{}
	once   sync.Once
	sent   int
}

func (i *scriptImpl) Subscribe(ctx context.Context, q client.Query) error {
	i.e.at(fmt.Sprintf("sub%d", i.k))
	if ctx.Err() != nil && !i.e.lateCtx {
		return ctx.Err()
	}
	if i.s.Sub == "err" {
		return errors.New("scripted subscribe failure")
	}
	if i.s.Sub == "ctxerr" {
		return ctxLikeErr(i.k)
	}
	i.ctx, i.q = ctx, q
	return nil
}

func (i *scriptImpl) Recv() error {
	i.e.at(fmt.Sprintf("recv%d", i.k))
	if !i.e.lateCtx || i.sent >= i.s.Msgs {
		select {
		case <-i.ctx.Done():
			return i.ctx.Err()
		case <-i.closed:
			return errors.New("closed")
		default:
		}
	}
	if i.sent < i.s.Msgs {
		i.sent++
		msg := i.k*100 + i.sent
		if i.sent == 1 {
			i.e.emit(trace.E{"ev": "noti", "k": "connected", "id": 0, "msg": msg})
			i.q.NotificationHandler(client.Connected{})
		}
		i.e.emit(trace.E{"ev": "noti", "k": "update", "id": msg, "msg": msg})
		i.q.NotificationHandler(client.Update{Path: client.Path{"a"}, Val: msg, TS: time.Unix(0, int64(msg))})
		return nil
	}
	switch i.s.Out {
	case "error":
		return errors.New("scripted stream failure")
	case "ctxerr":
		// the stream reports a cancellation or deadline of its own (server side, transport): the client's context is alive
		return ctxLikeErr(i.k)
	case "eof":
		return io.EOF
	}
	i.e.at(fmt.Sprintf("block%d", i.k))
	select {
	case <-i.ctx.Done():
		return i.ctx.Err()
	case <-i.closed:
		return errors.New("closed")
	}
}

func (i *scriptImpl) Close() error { i.once.Do(func() { close(i.closed) }); return nil }
func (i *scriptImpl) Poll() error  { return nil }

// ctxLikeErr is a failure that wraps a context error although the client's own context has not been cancelled.
func ctxLikeErr(k int) error {
	return fmt.Errorf("scripted failure: %w", []error{context.Canceled, context.DeadlineExceeded}[k%2])
}

var recTypeSeq int64

// reconnectScripted runs one scenario with the scripted Impl.
func reconnectScripted(w *trace.Writer, seed int64) bool {
	r := rand.New(rand.NewSource(seed))
	e := &recEnv{w: w}
	e.emit(trace.E{"ev": "reset"})
	na := 1 + r.Intn(3)
	for k := 0; k < na; k++ {
		a := attemptScript{New: "ok", Sub: "ok", Msgs: r.Intn(3), Out: []string{"error", "eof", "error", "ctxerr"}[r.Intn(4)]}
		switch r.Intn(8) {
		case 0:
			a.New = "err"
		case 1:
			a.Sub = "err"
		case 2:
			a.New = "ctxerr"
		case 3:
			a.Sub = "ctxerr"
		}
		e.script = append(e.script, a)
	}
	e.script = append(e.script, attemptScript{New: "ok", Sub: "ok", Msgs: r.Intn(3), Out: "block"})
	// where Close is called
	points := []string{"before"}
	for k := 1; k <= len(e.script); k++ {
		points = append(points, fmt.Sprintf("new%d", k), fmt.Sprintf("sub%d", k), fmt.Sprintf("recv%d", k), fmt.Sprintf("D%d", k), fmt.Sprintf("R%d", k))
	}
	points = append(points, fmt.Sprintf("block%d", len(e.script)), fmt.Sprintf("sleep%d", 1+r.Intn(len(e.script))))
	e.closeAt = points[r.Intn(len(points))]
	e.lateCtx = r.Intn(3) == 0
	if e.lateCtx {
		// a connect that completes although Close has cancelled it, followed by a stream with several messages
		for k := range e.script {
			e.script[k].Msgs = 2 + r.Intn(2)
		}
		if r.Intn(2) == 0 {
			k := 1 + r.Intn(len(e.script))
			e.closeAt = []string{fmt.Sprintf("new%d", k), fmt.Sprintf("sub%d", k)}[r.Intn(2)]
		}
	}

	typ := fmt.Sprintf("verif-%d", atomic.AddInt64(&recTypeSeq, 1))
	client.RegisterTest(typ, func(ctx context.Context, d client.Destination) (client.Impl, error) {
		k := int(atomic.AddInt32(&e.n, 1))
		e.emit(trace.E{"ev": "attempt", "n": k})
		if ctx.Err() != nil {
			return nil, ctx.Err() // cancelled before the attempt began: no dial completes
		}
		e.at(fmt.Sprintf("new%d", k))
		s := attemptScript{New: "ok", Sub: "ok", Out: "block"}
		if k <= len(e.script) {
			s = e.script[k-1]
		}
		if ctx.Err() != nil && !e.lateCtx {
			return nil, ctx.Err()
		}
		if s.New == "err" {
			return nil, errors.New("scripted dial failure")
		}
		if s.New == "ctxerr" {
			return nil, ctxLikeErr(k)
		}
		return &scriptImpl{e: e, k: k, s: s, closed: make(chan struct{})}, nil
	})
	nd, nr := 0, 0
	var rc *client.ReconnectClient
	closeDone := make(chan struct{})
	var fireOnce sync.Once
	e.fire = func() {
		fireOnce.Do(func() {
			go func() {
				e.emit(trace.E{"ev": "inv", "op": "Close"})
				rc.Close()
				e.emit(trace.E{"ev": "ret", "op": "Close"})
				close(closeDone)
			}()
		})
	}
	rc = client.Reconnect(&client.BaseClient{}, func() {
		nd++
		e.emit(trace.E{"ev": "cb", "k": "D"})
		e.at(fmt.Sprintf("D%d", nd))
		if e.closeAt == fmt.Sprintf("sleep%d", nd) {
			// during the back-off sleep that follows this disconnect
			go func() { time.Sleep(time.Duration(5+r.Intn(100)) * time.Millisecond); e.fire() }()
		}
	}, func() {
		nr++
		e.emit(trace.E{"ev": "cb", "k": "R"})
		e.at(fmt.Sprintf("R%d", nr))
	})
	q := client.Query{Addrs: []string{"scripted"}, Target: "t1", Queries: []client.Path{{"a"}}, Type: client.Stream,
		NotificationHandler: func(client.Notification) error { return nil }}
	if e.closeAt == "before" {
		e.fire()
		<-closeDone
	}
	subDone := make(chan struct{})
	// the caller's context: usually never done; sometimes it carries a deadline that expires while the client is
	// connecting, streaming or backing off - Subscribe then returns although nobody has called Close
	sctx := context.Background()
	var ctxOnce sync.Once
	if r.Intn(4) == 0 && e.closeAt != "before" {
		var cf context.CancelFunc
		sctx, cf = context.WithTimeout(sctx, time.Duration(20+r.Intn(200))*time.Millisecond)
		defer cf()
		e.closeAt = "never-by-script" // Close comes from the safety timer, long after the deadline
		go func() {
			<-sctx.Done()
			ctxOnce.Do(func() { e.emit(trace.E{"ev": "ctxdone"}) })
		}()
	}
	go func() {
		e.emit(trace.E{"ev": "inv", "op": "Subscribe"})
		err := rc.Subscribe(sctx, q, typ)
		if sctx.Err() != nil {
			// the context was done before Subscribe returned: say so before the return is logged
			ctxOnce.Do(func() { e.emit(trace.E{"ev": "ctxdone"}) })
		}
		res := "nil"
		if err != nil {
			res = "err"
		}
		e.emit(trace.E{"ev": "ret", "op": "Subscribe", "res": res})
		close(subDone)
	}()
	if sctx != context.Background() {
		// the deadline ends Subscribe by itself
		select {
		case <-subDone:
		case <-time.After(750*time.Millisecond + 20*client.RetryMaxDelay + 5*time.Second):
			e.emit(trace.E{"ev": "hang", "what": "Subscribe does not return after its context's deadline"})
			go rc.Close() // it may never return either: the scenario is over
			return true
		}
		e.fire()
	}
	// Both calls return within the current back-off interval of Close being called: the first
	// back-off is 250-750 ms whatever RetryBaseDelay says (DESIGN note N5); allow 20x on top.
	bound := 750*time.Millisecond + 20*client.RetryMaxDelay + 5*time.Second
	// a client that is never closed by the script point (e.g. point not reached) is closed after a while
	safety := time.AfterFunc(4*time.Second, func() { e.fire() })
	defer safety.Stop()
	select {
	case <-closeDone:
	case <-time.After(4*time.Second + bound):
		e.emit(trace.E{"ev": "hang", "what": "Close not called/returned"})
		return true
	}
	select {
	case <-subDone:
	case <-time.After(bound):
		e.emit(trace.E{"ev": "hang", "what": "Subscribe does not return after Close"})
		return true
	}
	if r.Intn(3) == 0 {
		// the client stays closed: a further Subscribe on it returns at once
		again := make(chan struct{})
		go func() {
			e.emit(trace.E{"ev": "inv", "op": "Subscribe"})
			err := rc.Subscribe(context.Background(), q, typ)
			res := "nil"
			if err != nil {
				res = "err"
			}
			e.emit(trace.E{"ev": "ret", "op": "Subscribe", "res": res})
			close(again)
		}()
		select {
		case <-again:
		case <-time.After(bound):
			e.emit(trace.E{"ev": "hang", "what": "Subscribe on a closed client does not return"})
			go rc.Close() // it may never return either: the scenario is over
			return true
		}
	}
	e.emit(trace.E{"ev": "final"})
	return false
}

// reconnectReal runs one scenario with the real gnmi Impl against the scripted server.
func reconnectReal(w *trace.Writer, seed int64) bool {
	r := rand.New(rand.NewSource(seed))
	var emu sync.Mutex
	emit := func(ev trace.E) { emu.Lock(); w.Emit(ev); emu.Unlock() }
	emit(trace.E{"ev": "reset"})
	srv, err := newFakeServer(func(t, kind string, sess, id int) {
		emit(trace.E{"ev": "srv", "t": t, "k": kind, "sess": sess})
		if kind == "open" {
			emit(trace.E{"ev": "attempt", "n": sess}) // a new stream starts
		}
	})
	if err != nil {
		panic(err)
	}
	defer srv.stop()
	var script []fakeSession
	for i, k := 0, 1+r.Intn(3); i < k; i++ {
		fs := fakeSession{Outcome: []string{"error", "eof"}[r.Intn(2)], DelayUs: r.Intn(300)}
		for j, nm := 0, r.Intn(4); j < nm; j++ {
			fs.Msgs = append(fs.Msgs, []string{"u", "u", "s"}[r.Intn(3)])
		}
		script = append(script, fs)
	}
	srv.mu.Lock()
	srv.scripts["t1"] = script
	srv.mu.Unlock()
	var msgSeq int64
	handler := func(n client.Notification) error {
		switch v := n.(type) {
		case client.Connected:
			emit(trace.E{"ev": "noti", "k": "connected", "id": 0, "msg": int(atomic.AddInt64(&msgSeq, 1))})
		case client.Update:
			id, _ := v.Val.(int64)
			emit(trace.E{"ev": "noti", "k": "update", "id": int(id), "msg": int(id)})
		case client.Sync:
			emit(trace.E{"ev": "noti", "k": "sync", "id": 0, "msg": int(atomic.AddInt64(&msgSeq, 1)) + 100000})
		default:
			emit(trace.E{"ev": "noti", "k": "other", "id": 0, "msg": int(atomic.AddInt64(&msgSeq, 1)) + 200000})
		}
		return nil
	}
	rc := client.Reconnect(&client.BaseClient{}, func() { emit(trace.E{"ev": "cb", "k": "D"}) }, func() { emit(trace.E{"ev": "cb", "k": "R"}) })
	q := client.Query{Addrs: []string{srv.addr}, Target: "t1", Queries: []client.Path{{"a"}}, Type: client.Stream,
		NotificationHandler: handler, Timeout: 5 * time.Second}
	unreachable := r.Intn(4) == 0
	if unreachable {
		// the target does not answer: a listener that accepts and stays silent (the dial hangs in the handshake) or a
		// port nobody listens on (every dial is refused); the connection timeout is long, Close must not wait for it
		lis, err := net.Listen("tcp", "127.0.0.1:0")
		if err != nil {
			panic(err)
		}
		q.Addrs = []string{lis.Addr().String()}
		if r.Intn(2) == 0 {
			lis.Close() // refused from now on
		} else {
			defer lis.Close()
			go func() {
				for {
					c, err := lis.Accept()
					if err != nil {
						return
					}
					defer c.Close() // held open, never written to
				}
			}()
		}
		q.Timeout = 30 * time.Second
	}
	subDone := make(chan struct{})
	go func() {
		emit(trace.E{"ev": "inv", "op": "Subscribe"})
		err := rc.Subscribe(context.Background(), q, gclient.Type)
		res := "nil"
		if err != nil {
			res = "err"
		}
		emit(trace.E{"ev": "ret", "op": "Subscribe", "res": res})
		close(subDone)
	}()
	if unreachable {
		time.Sleep(time.Duration(20+r.Intn(400)) * time.Millisecond)
	} else {
		time.Sleep(time.Duration(r.Intn(1500)) * time.Millisecond)
	}
	emit(trace.E{"ev": "inv", "op": "Close"})
	cd := make(chan struct{})
	go func() { rc.Close(); emit(trace.E{"ev": "ret", "op": "Close"}); close(cd) }()
	bound := 750*time.Millisecond + 20*client.RetryMaxDelay + 5*time.Second
	for _, ch := range []chan struct{}{cd, subDone} {
		select {
		case <-ch:
		case <-time.After(bound):
			emit(trace.E{"ev": "hang", "what": "Close/Subscribe does not return"})
			return true
		}
	}
	time.Sleep(20 * time.Millisecond) // anything delivered now is "after Close returned"
	emit(trace.E{"ev": "final"})
	return false
}

func reconnectRandom(args []string) error {
	fs := flag.NewFlagSet("reconnect random", flag.ContinueOnError)
	n := fs.Int("n", 200, "scripted scenarios")
	nreal := fs.Int("real", 60, "scenarios with the real gnmi Impl")
	out := fs.String("out", "", "output directory")
	shards := fs.Int("shards", 32, "trace files (= scenarios run in parallel)")
	if err := fs.Parse(args); err != nil {
		return err
	}
	ss, err := newShards(*out, "rec", *shards)
	if err != nil {
		return err
	}
	client.RetryBaseDelay = 20 * time.Millisecond
	client.RetryMaxDelay = 40 * time.Millisecond
	seed := seedFromEnv()
	var wg sync.WaitGroup
	var hangs int64
	for s := 0; s < len(ss.ws); s++ {
		wg.Add(1)
		go func(s int) {
			defer wg.Done()
			for i := s; i < *n+*nreal; i += len(ss.ws) {
				var h bool
				if i < *n {
					h = reconnectScripted(ss.ws[s], seed*4409+int64(i))
				} else {
					h = reconnectReal(ss.ws[s], seed*4409+int64(i))
				}
				if h {
					atomic.AddInt64(&hangs, 1)
				}
			}
		}(s)
	}
	wg.Wait()
	ev := ss.close()
	fmt.Printf("DRV reconnect random scenarios=%d scripted=%d real=%d events=%d hangs=%d\n", *n+*nreal, *n, *nreal, ev, hangs)
	return nil
}

func reconnectMain(args []string) error {
	if len(args) == 0 {
		return fmt.Errorf("reconnect: need a mode")
	}
	if args[0] == "random" {
		return reconnectRandom(args[1:])
	}
	return fmt.Errorf("reconnect: unknown mode %q", args[0])
}
