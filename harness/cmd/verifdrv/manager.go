package main

import (
	"context"
	"errors"
	"flag"
	"fmt"
	"math/rand"
	"sync"
	"sync/atomic"
	"time"

	"google.golang.org/grpc"
	"google.golang.org/grpc/credentials/insecure"

	"github.com/openconfig/gnmi/collector"
	"github.com/openconfig/gnmi/connection"
	"github.com/openconfig/gnmi/manager"
	cpb "github.com/openconfig/gnmi/proto/collector"
	pb "github.com/openconfig/gnmi/proto/gnmi"
	tpb "github.com/openconfig/gnmi/proto/target"
	"verifharness/internal/trace"
)

// manager family (C13): a real manager.Manager against scripted gNMI servers
// over localhost gRPC, a connection manager that may refuse dials, and a
// controller goroutine issuing Add / Remove / Reconnect at random moments.
//
//   verifdrv manager random -n N -out DIR -shards K

func init() { register("manager", managerMain) }

type refusingCM struct {
	inner  *connection.Manager
	mu     sync.Mutex
	r      *rand.Rand
	refuse int // percent
	calls  int // connection attempts so far
}

func (c *refusingCM) Connection(ctx context.Context, addr, dialer string) (*grpc.ClientConn, func(), error) {
	c.mu.Lock()
	c.calls++
	no := c.r.Intn(100) < c.refuse
	c.mu.Unlock()
	if no {
		return nil, func() {}, errors.New("dial refused (scripted)")
	}
	return c.inner.Connection(ctx, addr, dialer)
}

func managerScenario(w *trace.Writer, seed int64) bool {
	var emu sync.Mutex
	emit := func(e trace.E) { emu.Lock(); w.Emit(e); emu.Unlock() }
	r := rand.New(rand.NewSource(seed))
	emit(trace.E{"ev": "reset"})
	hung := false
	srvEvent := func(t, kind string, sess, id int) { emit(trace.E{"ev": "srv", "t": t, "k": kind, "sess": sess}) }
	nsrv := 1 + r.Intn(2)
	var servers []*fakeServer
	for i := 0; i < nsrv; i++ {
		s, err := newFakeServer(srvEvent)
		if err != nil {
			panic(err)
		}
		servers = append(servers, s)
		defer s.stop()
	}
	inner, _ := connection.NewManager(grpc.WithTransportCredentials(insecure.NewCredentials()))
	cm := &refusingCM{inner: inner, r: rand.New(rand.NewSource(seed ^ 0x1234)), refuse: []int{0, 0, 15, 40}[r.Intn(4)]}
	slowCb := r.Intn(3) == 0
	// receive timeout: the manager-wide default and, per target, an override in the target's metadata ("0" switches it off)
	globalRT := []time.Duration{60 * time.Millisecond, 60 * time.Millisecond, 0}[r.Intn(3)]
	cb := func(k string) func(string) {
		return func(t string) { emit(trace.E{"ev": "cb", "t": t, "k": k, "id": 0}) }
	}
	m, err := manager.NewManager(manager.Config{
		Connect: cb("connect"), Reset: cb("reset"), Sync: cb("sync"),
		Update: func(t string, n *pb.Notification) {
			emit(trace.E{"ev": "cb", "t": t, "k": "update", "id": int(n.GetUpdate()[0].GetVal().GetIntVal())})
			if slowCb {
				time.Sleep(2 * time.Millisecond) // a session that takes its time to wind down
			}
		},
		ConnectError:      func(t string, _ error) { emit(trace.E{"ev": "cb", "t": t, "k": "connecterr", "id": 0}) },
		MonitorError:      func(t string, _ error) { emit(trace.E{"ev": "cb", "t": t, "k": "monitorerr", "id": 0}) },
		ConnectionManager: cm,
		ReceiveTimeout:    globalRT,
	})
	if err != nil {
		panic(err)
	}
	names := []string{"t1", "t2", "t3"}[:1+r.Intn(3)]
	meta := map[string]map[string]string{}
	effRT := map[string]time.Duration{}
	home := map[string]*fakeServer{}
	for _, t := range names {
		s := servers[r.Intn(len(servers))]
		home[t] = s
		var script []fakeSession
		for i, k := 0, 1+r.Intn(4); i < k; i++ {
			fs := fakeSession{Outcome: []string{"error", "eof", "silent", "long", "error"}[r.Intn(5)], DelayUs: r.Intn(300)}
			for j, nm := 0, r.Intn(4); j < nm; j++ {
				fs.Msgs = append(fs.Msgs, []string{"u", "u", "s"}[r.Intn(3)])
			}
			if r.Intn(5) == 0 {
				// the stream's first message carries nothing (Connect is due all the same, no other callback)
				fs.Msgs = append([]string{"e"}, fs.Msgs...)
			}
			script = append(script, fs)
		}
		s.mu.Lock()
		s.scripts[t] = script
		s.mu.Unlock()
		effRT[t] = globalRT
		switch r.Intn(4) {
		case 0:
			meta[t] = map[string]string{"receive_timeout": "40ms"}
			effRT[t] = 40 * time.Millisecond
		case 1:
			meta[t] = map[string]string{"receive_timeout": "0"}
			effRT[t] = 0
		}
	}
	sr := &pb.SubscribeRequest{Request: &pb.SubscribeRequest_Subscribe{Subscribe: &pb.SubscriptionList{}}}
	var hmu sync.Mutex
	callAs := func(c, op, t string, f func() error) string {
		emit(trace.E{"ev": "inv", "c": c, "op": op, "t": t})
		done := make(chan error, 1)
		go func() { done <- f() }()
		select {
		case err := <-done:
			res := "ok"
			if err != nil {
				res = "err"
			}
			emit(trace.E{"ev": "ret", "c": c, "op": op, "t": t, "res": res})
			return res
		case <-time.After(10 * time.Second):
			emit(trace.E{"ev": "hang", "what": op + " does not return", "t": t})
			hmu.Lock()
			hung = true
			hmu.Unlock()
		}
		return "hang"
	}
	call := func(op, t string, f func() error) { callAs("c1", op, t, f) }
	tdesc := func(t string) *tpb.Target {
		return &tpb.Target{Addresses: []string{home[t].addr}, Meta: meta[t]}
	}
	add := func(t string) {
		emit(trace.E{"ev": "tcfg", "t": t, "rt": int(effRT[t] / time.Millisecond)})
		call("Add", t, func() error { return m.Add(t, tdesc(t), sr) })
	}
	// remove: the script's Remove; in some scenarios a second controller races an Add of the same target against it.
	// Reports whether the target is managed afterwards.
	raceAdds := r.Intn(2) == 0
	remove := func(t string) bool {
		if !raceAdds || r.Intn(4) == 0 {
			call("Remove", t, func() error { return m.Remove(t) })
			return false
		}
		delay := time.Duration(r.Intn(1500)) * time.Microsecond
		resc := make(chan string, 1)
		go func() {
			time.Sleep(delay)
			resc <- callAs("c2", "Add", t, func() error { return m.Add(t, tdesc(t), sr) })
		}()
		call("Remove", t, func() error { return m.Remove(t) })
		return <-resc == "ok"
	}
	active := map[string]bool{}
	for _, t := range names {
		add(t)
		active[t] = true
	}
	steps := 2 + r.Intn(7)
	for i := 0; i < steps && !hung; i++ {
		time.Sleep(time.Duration(r.Intn(40)) * time.Millisecond)
		t := names[r.Intn(len(names))]
		switch x := r.Intn(10); {
		case x < 4:
			call("Reconnect", t, func() error { return m.Reconnect(t) })
		case x < 6:
			if active[t] {
				active[t] = remove(t)
			} else {
				call("Remove", t, func() error { return m.Remove(t) })
			}
		case x < 8:
			add(t)
			active[t] = true
		case x < 9 && r.Intn(2) == 0:
			// the collector's Reconnect RPC: a list of names, reconnecting the known ones, NotFound if any is unknown
			var ts []string
			for k, n := 0, 1+r.Intn(3); k < n; k++ {
				ts = append(ts, append(append([]string{}, names...), "nosuch")[r.Intn(len(names)+1)])
			}
			emit(trace.E{"ev": "inv", "c": "c1", "op": "ReconnectMany", "t": "", "ts": ts})
			_, err := collector.New(m.Reconnect).Reconnect(context.Background(), &cpb.ReconnectRequest{Target: ts})
			res := "ok"
			if err != nil {
				res = "err"
			}
			emit(trace.E{"ev": "ret", "c": "c1", "op": "ReconnectMany", "t": "", "res": res})
		case x < 9:
			call("Remove", "nosuch", func() error { return m.Remove("nosuch") })
		default:
			call("Reconnect", "nosuch", func() error { return m.Reconnect("nosuch") })
		}
	}
	// a session on which nothing arrives for longer than the target's receive timeout is ended and replaced, without
	// anybody's help (every script ends in sessions that fall silent)
	for _, t := range names {
		if !active[t] || hung || effRT[t] == 0 {
			continue
		}
		before := home[t].opened(t)
		deadline := time.Now().Add(3*time.Second + 50*effRT[t])
		for home[t].opened(t) <= before && time.Now().Before(deadline) {
			time.Sleep(time.Millisecond)
		}
		if home[t].opened(t) <= before {
			emit(trace.E{"ev": "hang", "what": "a silent session was not ended by the target's receive timeout", "t": t})
			hung = true
		}
	}
	// failed sessions are retried for as long as the target is managed: force one more
	// failure and wait for the next stream (bound: 50x the maximum back-off, at least 5 s)
	for _, t := range names {
		if !active[t] || hung {
			continue
		}
		before := home[t].opened(t)
		cm.mu.Lock()
		cm.refuse = 0
		cm.mu.Unlock()
		call("Reconnect", t, func() error { return m.Reconnect(t) })
		deadline := time.Now().Add(5 * time.Second)
		for home[t].opened(t) <= before && time.Now().Before(deadline) {
			time.Sleep(time.Millisecond)
		}
		if home[t].opened(t) <= before {
			emit(trace.E{"ev": "hang", "what": "no new session after a failure while the target is managed", "t": t})
			hung = true
		}
	}
	for _, t := range names {
		if active[t] && !hung {
			if remove(t) { // the racing Add won: remove the new incarnation as well
				call("Remove", t, func() error { return m.Remove(t) })
			}
		}
	}
	// anything arriving now would be a callback after Remove returned
	time.Sleep(30 * time.Millisecond)
	emit(trace.E{"ev": "final"})
	return hung
}

// managerBackoff: with a retry delay of an hour, a failed attempt is followed by no further attempt for a long time
// (the retry loop backs off; it neither stops nor spins). One target whose attempts all fail - refused dials or
// streams that break - is watched for 1.5 s after its first failure.
func managerBackoff(w *trace.Writer, seed int64) {
	r := rand.New(rand.NewSource(seed))
	w.Emit(trace.E{"ev": "reset"})
	srv, err := newFakeServer(func(string, string, int, int) {})
	if err != nil {
		panic(err)
	}
	defer srv.stop()
	inner, _ := connection.NewManager(grpc.WithTransportCredentials(insecure.NewCredentials()))
	cm := &refusingCM{inner: inner, r: rand.New(rand.NewSource(seed)), refuse: []int{100, 0}[r.Intn(2)]}
	var fails int64
	m, err := manager.NewManager(manager.Config{
		Reset:             func(string) { atomic.AddInt64(&fails, 1) },
		ConnectError:      func(string, error) { atomic.AddInt64(&fails, 1) },
		ConnectionManager: cm,
	})
	if err != nil {
		panic(err)
	}
	// every stream breaks after a message or two
	var script []fakeSession
	for i := 0; i < 50; i++ {
		script = append(script, fakeSession{Msgs: []string{"u", "s"}[:1+r.Intn(2)], Outcome: []string{"error", "eof"}[r.Intn(2)]})
	}
	srv.mu.Lock()
	srv.scripts["t1"] = script
	srv.mu.Unlock()
	sr := &pb.SubscribeRequest{Request: &pb.SubscribeRequest_Subscribe{Subscribe: &pb.SubscriptionList{}}}
	if err := m.Add("t1", &tpb.Target{Addresses: []string{srv.addr}}, sr); err != nil {
		panic(err)
	}
	deadline := time.Now().Add(10 * time.Second)
	for atomic.LoadInt64(&fails) == 0 && time.Now().Before(deadline) {
		time.Sleep(time.Millisecond)
	}
	cm.mu.Lock()
	before := cm.calls
	cm.mu.Unlock()
	time.Sleep(1500 * time.Millisecond)
	cm.mu.Lock()
	after := cm.calls
	cm.mu.Unlock()
	w.Emit(trace.E{"ev": "backoffwin", "t": "t1", "failed": atomic.LoadInt64(&fails) > 0, "attempts": after - before, "window_ms": 1500, "base_ms": 3600000})
	m.Remove("t1")
}

func managerRandom(args []string) error {
	fs := flag.NewFlagSet("manager random", flag.ContinueOnError)
	n := fs.Int("n", 100, "scenarios")
	out := fs.String("out", "", "output directory")
	shards := fs.Int("shards", 16, "trace files")
	if err := fs.Parse(args); err != nil {
		return err
	}
	ss, err := newShards(*out, "mgr", *shards)
	if err != nil {
		return err
	}
	manager.RetryBaseDelay = 5 * time.Millisecond
	manager.RetryMaxDelay = 20 * time.Millisecond
	seed := seedFromEnv()
	var wg sync.WaitGroup
	hangs := 0
	var mu sync.Mutex
	for s := 0; s < len(ss.ws); s++ {
		wg.Add(1)
		go func(s int) {
			defer wg.Done()
			for i := s; i < *n; i += len(ss.ws) {
				if managerScenario(ss.ws[s], seed*3571+int64(i)) {
					mu.Lock()
					hangs++
					mu.Unlock()
				}
			}
		}(s)
	}
	wg.Wait()
	// back-off scenarios last and alone: the retry delays are package-level variables
	manager.RetryBaseDelay, manager.RetryMaxDelay = time.Hour, time.Hour
	for i := 0; i < 3; i++ {
		managerBackoff(ss.ws[i%len(ss.ws)], seed*911+int64(i))
	}
	ev := ss.close()
	fmt.Printf("DRV manager random scenarios=%d events=%d hangs=%d\n", *n+3, ev, hangs)
	return nil
}

func managerMain(args []string) error {
	if len(args) == 0 {
		return fmt.Errorf("manager: need a mode")
	}
	if args[0] == "random" {
		return managerRandom(args[1:])
	}
	return fmt.Errorf("manager: unknown mode %q", args[0])
}
