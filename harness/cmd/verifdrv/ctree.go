package main

import (
	"bufio"
	"encoding/json"
	"flag"
	"fmt"
	"math/rand"
	"os"
	"sort"
	"strings"

	"github.com/openconfig/gnmi/ctree"
	"verifharness/internal/trace"
)

// ctree family (C09): sequential use of ctree.Tree.
//
//   verifdrv ctree universe -states F -names a,b,* -maxq 3 -values v1 -out DIR -shards N
//   verifdrv ctree random   -n N -len L -out DIR -shards N
//   verifdrv ctree replay   -scenario F -out FILE

func init() { register("ctree", ctreeMain) }

type pv struct {
	P []string `json:"p"`
	V string   `json:"v"`
}

type ctreeDrv struct {
	t *ctree.Tree
	w *trace.Writer
}

func valStr(v interface{}) string {
	if s, ok := v.(string); ok {
		return s
	}
	if v == nil {
		return "-"
	}
	return fmt.Sprintf("?%T", v)
}

// proj reads the content back with Walk. The path slices handed to the visitor are kept and only looked at
// after the walk has returned, as the repository's own callers of Walk do (client.CacheClient.Leaves, the CLI).
func (d *ctreeDrv) proj() []pv {
	var ps [][]string
	var vs []string
	d.t.Walk(func(p []string, _ *ctree.Leaf, v interface{}) error {
		ps = append(ps, p)
		vs = append(vs, valStr(v))
		return nil
	})
	r := make([]pv, 0, len(ps))
	for i := range ps {
		r = append(r, pv{trace.Strs(ps[i]), vs[i]})
	}
	return r
}

func (d *ctreeDrv) reset() {
	d.t = &ctree.Tree{}
	d.w.Emit(trace.E{"ev": "reset"})
}

// jump rebuilds the given content in a fresh tree and logs what Walk reads back.
func (d *ctreeDrv) jump(leaves []pv) {
	d.t = &ctree.Tree{}
	for _, l := range leaves {
		d.t.Add(l.P, l.V)
	}
	d.w.Emit(trace.E{"ev": "jump", "proj": d.proj()})
}

type ctreeOp struct {
	Op   string   `json:"op"`
	P    []string `json:"p"`
	V    string   `json:"v,omitempty"`
	Cond []string `json:"cond,omitempty"`
}

func condFunc(cond []string) func(interface{}) bool {
	return func(v interface{}) bool {
		s := valStr(v)
		for _, c := range cond {
			if c == s {
				return true
			}
		}
		return false
	}
}

func ranks(paths [][]string) [][]int {
	set := map[string]bool{}
	for _, p := range paths {
		for _, e := range p {
			set[e] = true
		}
	}
	all := make([]string, 0, len(set))
	for s := range set {
		all = append(all, s)
	}
	sort.Strings(all)
	rk := map[string]int{}
	for i, s := range all {
		rk[s] = i + 1
	}
	out := make([][]int, len(paths))
	for i, p := range paths {
		out[i] = make([]int, len(p))
		for j, e := range p {
			out[i][j] = rk[e]
		}
	}
	return out
}

// apply performs one public call on the real tree and logs call, result and
// the content read back.
func (d *ctreeDrv) apply(o ctreeOp) {
	p := trace.Strs(o.P)
	switch o.Op {
	case "Add":
		res := "ok"
		if err := d.t.Add(o.P, o.V); err != nil {
			res = "err"
		}
		d.w.Emit(trace.E{"ev": "Add", "p": p, "v": o.V, "res": res, "proj": d.proj()})
	case "Get":
		n := d.t.Get(o.P)
		kind, val := "none", "-"
		if n != nil {
			if n.IsBranch() {
				kind = "branch"
			} else if v := n.Value(); v != nil {
				kind, val = "leaf", valStr(v)
			}
		}
		d.w.Emit(trace.E{"ev": "Get", "p": p, "kind": kind, "val": val, "proj": d.proj()})
	case "GetLeafValue":
		d.w.Emit(trace.E{"ev": "GetLeafValue", "p": p, "val": valStr(d.t.GetLeafValue(o.P)), "proj": d.proj()})
	case "GetLeaf":
		d.w.Emit(trace.E{"ev": "GetLeaf", "p": p, "val": valStr(d.t.GetLeaf(o.P).Value()), "proj": d.proj()})
	case "IsBranch":
		d.w.Emit(trace.E{"ev": "IsBranch", "p": p, "res": d.t.Get(o.P).IsBranch(), "proj": d.proj()})
	case "Children":
		names := make([]string, 0)
		for k := range d.t.Get(o.P).Children() {
			names = append(names, k)
		}
		d.w.Emit(trace.E{"ev": "Children", "p": p, "names": names, "proj": d.proj()})
	case "Query":
		leaves := make([]pv, 0)
		d.t.Query(o.P, func(q []string, _ *ctree.Leaf, v interface{}) error {
			leaves = append(leaves, pv{trace.Strs(q), valStr(v)})
			return nil
		})
		d.w.Emit(trace.E{"ev": "Query", "q": p, "leaves": leaves, "proj": d.proj()})
	case "Walk":
		d.w.Emit(trace.E{"ev": "Walk", "leaves": d.proj(), "proj": d.proj()})
	case "WalkSorted":
		type pvr struct {
			P []string `json:"p"`
			V string   `json:"v"`
			R []int    `json:"r"`
		}
		var ps [][]string
		var vs []string
		d.t.WalkSorted(func(q []string, _ *ctree.Leaf, v interface{}) error {
			ps = append(ps, q) // kept, looked at after the walk (see proj)
			vs = append(vs, valStr(v))
			return nil
		})
		for i := range ps {
			ps[i] = trace.Strs(ps[i])
		}
		rk := ranks(ps)
		leaves := make([]pvr, len(ps))
		for i := range ps {
			leaves[i] = pvr{ps[i], vs[i], rk[i]}
		}
		d.w.Emit(trace.E{"ev": "WalkSorted", "leaves": leaves, "proj": d.proj()})
	case "Delete":
		paths := make([][]string, 0)
		for _, q := range d.t.Delete(o.P) {
			paths = append(paths, trace.Strs(q))
		}
		d.w.Emit(trace.E{"ev": "Delete", "q": p, "paths": paths, "proj": d.proj()})
	case "DeleteConditional":
		paths := make([][]string, 0)
		for _, q := range d.t.DeleteConditional(o.P, condFunc(o.Cond)) {
			paths = append(paths, trace.Strs(q))
		}
		d.w.Emit(trace.E{"ev": "DeleteConditional", "q": p, "cond": trace.Strs(o.Cond), "paths": paths, "proj": d.proj()})
	case "WalkDeleted":
		vals := make([]string, 0)
		d.t.WalkDeleted(o.P, condFunc(o.Cond), func(v interface{}) { vals = append(vals, valStr(v)) })
		d.w.Emit(trace.E{"ev": "WalkDeleted", "q": p, "cond": trace.Strs(o.Cond), "vals": vals, "proj": d.proj()})
	default:
		panic("ctree: unknown op " + o.Op)
	}
}

func pathsUpTo(names []string, n int) [][]string {
	out := [][]string{{}}
	cur := [][]string{{}}
	for k := 1; k <= n; k++ {
		var nxt [][]string
		for _, p := range cur {
			for _, s := range names {
				q := append(append([]string{}, p...), s)
				nxt = append(nxt, q)
			}
		}
		out = append(out, nxt...)
		cur = nxt
	}
	return out
}

type shardSet struct {
	ws []*trace.Writer
}

func newShards(dir, prefix string, n int) (*shardSet, error) {
	if err := os.MkdirAll(dir, 0o755); err != nil {
		return nil, err
	}
	s := &shardSet{}
	for i := 0; i < n; i++ {
		w, err := trace.New(fmt.Sprintf("%s/%s-%02d.ndjson", dir, prefix, i))
		if err != nil {
			return nil, err
		}
		s.ws = append(s.ws, w)
	}
	return s, nil
}

func (s *shardSet) close() (total int) {
	for _, w := range s.ws {
		total += w.Len()
		w.Close()
	}
	return total
}

func ctreeUniverse(args []string) error {
	fs := flag.NewFlagSet("ctree universe", flag.ContinueOnError)
	states := fs.String("states", "", "file with one JSON tree per line (from TLC)")
	namesF := fs.String("names", "a,b,*", "element alphabet")
	valuesF := fs.String("values", "v1", "value alphabet")
	maxq := fs.Int("maxq", 3, "longest query path")
	maxs := fs.Int("maxs", 2, "longest stored path")
	out := fs.String("out", "", "output directory")
	shards := fs.Int("shards", 16, "number of trace files")
	if err := fs.Parse(args); err != nil {
		return err
	}
	names := strings.Split(*namesF, ",")
	values := strings.Split(*valuesF, ",")
	qpaths := pathsUpTo(names, *maxq)
	spaths := pathsUpTo(names, *maxs)
	conds := [][]string{values}
	for _, v := range values {
		conds = append(conds, []string{v})
	}
	f, err := os.Open(*states)
	if err != nil {
		return err
	}
	defer f.Close()
	ss, err := newShards(*out, "universe", *shards)
	if err != nil {
		return err
	}
	sc := bufio.NewScanner(f)
	sc.Buffer(make([]byte, 1<<20), 1<<24)
	nTrees, nTrans := 0, 0
	for sc.Scan() {
		var leaves []pv
		if err := json.Unmarshal(sc.Bytes(), &leaves); err != nil {
			return fmt.Errorf("bad state line %q: %v", sc.Text(), err)
		}
		d := &ctreeDrv{w: ss.ws[nTrees%len(ss.ws)]}
		nTrees++
		// Reads: one rebuild, every read with every argument.
		d.jump(leaves)
		for _, q := range qpaths {
			for _, op := range []string{"Get", "GetLeafValue", "GetLeaf", "IsBranch", "Children", "Query"} {
				d.apply(ctreeOp{Op: op, P: q})
				nTrans++
			}
		}
		d.apply(ctreeOp{Op: "Walk"})
		d.apply(ctreeOp{Op: "WalkSorted"})
		nTrans += 2
		// Adds.
		for _, p := range spaths {
			for _, v := range values {
				d.jump(leaves)
				d.apply(ctreeOp{Op: "Add", P: p, V: v})
				nTrans++
			}
		}
		// Deletes, each followed by an add at the parent position of the
		// first removed leaf (pruning) and a read-back.
		for _, q := range qpaths {
			for ci, c := range conds {
				for _, op := range []string{"Delete", "DeleteConditional", "WalkDeleted"} {
					if op == "Delete" && ci > 0 {
						continue
					}
					d.jump(leaves)
					before := d.proj()
					d.apply(ctreeOp{Op: op, P: q, Cond: c})
					nTrans++
					after := map[string]bool{}
					for _, l := range d.proj() {
						after[strings.Join(l.P, "\x00")] = true
					}
					for _, l := range before {
						if !after[strings.Join(l.P, "\x00")] && len(l.P) > 0 {
							d.apply(ctreeOp{Op: "Add", P: l.P[:len(l.P)-1], V: values[0]})
							d.apply(ctreeOp{Op: "Query", P: []string{"*"}})
							nTrans += 2
							break
						}
					}
				}
			}
		}
	}
	if err := sc.Err(); err != nil {
		return err
	}
	ev := ss.close()
	fmt.Printf("DRV ctree universe trees=%d transitions=%d events=%d\n", nTrees, nTrans, ev)
	return nil
}

func randPath(r *rand.Rand, names []string, maxLen int, globP float64) []string {
	n := r.Intn(maxLen + 1)
	p := make([]string, n)
	for i := range p {
		if r.Float64() < globP {
			p[i] = "*"
		} else {
			p[i] = names[r.Intn(len(names))]
		}
	}
	return p
}

func randCtreeOp(r *rand.Rand, names, values []string, maxLen int) ctreeOp {
	x := r.Intn(100)
	cond := func() []string {
		c := make([]string, 0)
		for _, v := range values {
			if r.Intn(2) == 0 {
				c = append(c, v)
			}
		}
		return c
	}
	switch {
	case x < 35:
		return ctreeOp{Op: "Add", P: randPath(r, names, maxLen, 0.05), V: values[r.Intn(len(values))]}
	case x < 40:
		return ctreeOp{Op: "Get", P: randPath(r, names, maxLen, 0.05)}
	case x < 44:
		return ctreeOp{Op: "GetLeafValue", P: randPath(r, names, maxLen, 0.05)}
	case x < 48:
		return ctreeOp{Op: "GetLeaf", P: randPath(r, names, maxLen, 0.05)}
	case x < 52:
		return ctreeOp{Op: "IsBranch", P: randPath(r, names, maxLen, 0.05)}
	case x < 56:
		return ctreeOp{Op: "Children", P: randPath(r, names, maxLen, 0.05)}
	case x < 66:
		return ctreeOp{Op: "Query", P: randPath(r, names, maxLen+1, 0.35)}
	case x < 69:
		return ctreeOp{Op: "Walk"}
	case x < 73:
		return ctreeOp{Op: "WalkSorted"}
	case x < 82:
		return ctreeOp{Op: "Delete", P: randPath(r, names, maxLen+1, 0.3)}
	case x < 91:
		return ctreeOp{Op: "DeleteConditional", P: randPath(r, names, maxLen+1, 0.3), Cond: cond()}
	default:
		return ctreeOp{Op: "WalkDeleted", P: randPath(r, names, maxLen+1, 0.3), Cond: cond()}
	}
}

func ctreeRandom(args []string) error {
	fs := flag.NewFlagSet("ctree random", flag.ContinueOnError)
	n := fs.Int("n", 100, "number of sequences")
	length := fs.Int("len", 200, "operations per sequence")
	out := fs.String("out", "", "output directory")
	shards := fs.Int("shards", 16, "number of trace files")
	if err := fs.Parse(args); err != nil {
		return err
	}
	ss, err := newShards(*out, "random", *shards)
	if err != nil {
		return err
	}
	seed := seedFromEnv()
	for i := 0; i < *n; i++ {
		r := rand.New(rand.NewSource(seed*1000003 + int64(i)))
		// Alphabet and depth vary per sequence: small alphabets collide often.
		alph := []string{"a", "b", "c", "d", "e", "ab", "", "é"}[:2+r.Intn(7)]
		values := []string{"v1", "v2", "v3"}[:1+r.Intn(3)]
		maxLen := 1 + r.Intn(5)
		d := &ctreeDrv{w: ss.ws[i%len(ss.ws)]}
		d.reset()
		for k := 0; k < *length; k++ {
			d.apply(randCtreeOp(r, alph, values, maxLen))
		}
	}
	ev := ss.close()
	fmt.Printf("DRV ctree random sequences=%d events=%d\n", *n, ev)
	return nil
}

// ctreeReplay re-executes one recorded scenario ({"pre":[...], "ops":[...]}).
func ctreeReplay(args []string) error {
	fs := flag.NewFlagSet("ctree replay", flag.ContinueOnError)
	scenario := fs.String("scenario", "", "scenario JSON file")
	out := fs.String("out", "", "output trace file")
	if err := fs.Parse(args); err != nil {
		return err
	}
	b, err := os.ReadFile(*scenario)
	if err != nil {
		return err
	}
	var sc struct {
		Pre []pv      `json:"pre"`
		Ops []ctreeOp `json:"ops"`
	}
	if err := json.Unmarshal(b, &sc); err != nil {
		return err
	}
	w, err := trace.New(*out)
	if err != nil {
		return err
	}
	d := &ctreeDrv{w: w}
	d.jump(sc.Pre)
	for _, o := range sc.Ops {
		d.apply(o)
	}
	return w.Close()
}

func ctreeMain(args []string) error {
	if len(args) == 0 {
		return fmt.Errorf("ctree: need a mode")
	}
	switch args[0] {
	case "universe":
		return ctreeUniverse(args[1:])
	case "random":
		return ctreeRandom(args[1:])
	case "replay":
		return ctreeReplay(args[1:])
	case "conc":
		return ctreeConc(args[1:])
	}
	return fmt.Errorf("ctree: unknown mode %q", args[0])
}
