package main

import (
	"context"
	"flag"
	"fmt"
	"math"
	"math/rand"
	"strings"
	"time"

	"google.golang.org/grpc"
	"google.golang.org/grpc/credentials/insecure"
	"google.golang.org/protobuf/proto"

	gpb "github.com/openconfig/gnmi/proto/gnmi"
	fgnmi "github.com/openconfig/gnmi/testing/fake/gnmi"
	fpb "github.com/openconfig/gnmi/testing/fake/proto"
	"github.com/openconfig/gnmi/testing/fake/queue"
	"verifharness/internal/trace"
)

// fakequeue family (C20): testing/fake/queue.UpdateQueue.
//   verifdrv fakequeue random -n N -emit M -out DIR -shards K

func init() { register("fakequeue", fakequeueMain) }

const dblScale = 1000 // doubles are logged as integers (thousandths); slack 1 covers the rounding

type fqVal struct {
	ID     string  `json:"id"`
	Kind   string  `json:"kind"`
	Ts     int64   `json:"ts"`
	Dmin   int64   `json:"dmin"`
	Dmax   int64   `json:"dmax"`
	Repeat int32   `json:"repeat"`
	Val    int64   `json:"val"`
	Lo     int64   `json:"lo"`
	Hi     int64   `json:"hi"`
	Dlo    int64   `json:"dlo"`
	Dhi    int64   `json:"dhi"`
	Opts   []int64 `json:"opts"`
	Random bool    `json:"random"`
	Pos    int     `json:"pos"`
}

// content token of an emitted value, as an integer
func fqTok(v *fpb.Value, strs map[string]int64) int64 {
	switch x := v.GetValue().(type) {
	case *fpb.Value_IntValue:
		return x.IntValue.Value
	case *fpb.Value_UintValue:
		return int64(x.UintValue.Value)
	case *fpb.Value_DoubleValue:
		return int64(math.Round(x.DoubleValue.Value * dblScale))
	case *fpb.Value_BoolValue:
		if x.BoolValue.Value {
			return 1
		}
		return 0
	case *fpb.Value_StringValue:
		if _, ok := strs[x.StringValue.Value]; !ok {
			strs[x.StringValue.Value] = int64(len(strs) + 1)
		}
		return strs[x.StringValue.Value]
	case *fpb.Value_StringListValue:
		return fqListTok(x.StringListValue.Value, strs)
	case *fpb.Value_Sync:
		return int64(x.Sync)
	case *fpb.Value_Delete:
		return 7
	}
	return -99
}

// fqListTok encodes a list of strings as the decimal number whose digits are the strings' ids (ids are 1..9).
func fqListTok(l []string, strs map[string]int64) int64 {
	t := int64(0)
	for _, e := range l {
		if _, ok := strs[e]; !ok {
			strs[e] = int64(len(strs) + 1)
		}
		t = t*10 + strs[e]
	}
	return t
}

// fqBase: the real timestamps of a scenario are fqBase + the small timestamps of its records (nanoseconds since the
// epoch in half of the scenarios, where float64 no longer tells neighbours apart); emissions are logged minus fqBase, so
// the specification reads the small ones. (Scenarios run one at a time.)
var fqBase int64

func genFqConfig(r *rand.Rand, strs map[string]int64) ([]*fpb.Value, []fqVal, int64) {
	vals, recs, latest := genFqConfig0(r, strs)
	fqBase = 0
	if r.Intn(2) == 0 {
		fqBase = 1_700_000_000_000_000_000 + r.Int63n(1024)
	}
	for _, v := range vals {
		v.Timestamp.Timestamp += fqBase
	}
	return vals, recs, latest
}

func genFqConfig0(r *rand.Rand, strs map[string]int64) ([]*fpb.Value, []fqVal, int64) {
	n := 1 + r.Intn(5)
	var vals []*fpb.Value
	var recs []fqVal
	var latest int64
	hasXSync, xsync := false, -1
	for i := 0; i < n; i++ {
		id := fmt.Sprintf("v%d", i+1)
		ts := int64(r.Intn(6))
		dmin := int64(r.Intn(3))
		dmax := dmin + int64(r.Intn(4))
		if r.Intn(4) == 0 {
			dmax = dmin
		}
		rep := int32([]int{0, 0, 1, 2, 3, 5}[r.Intn(6)])
		v := &fpb.Value{Path: []string{id}, Timestamp: &fpb.Timestamp{Timestamp: ts, DeltaMin: dmin, DeltaMax: dmax}, Repeat: rep}
		if r.Intn(3) == 0 {
			v.Seed = int64(1 + r.Intn(5))
			if r.Intn(4) == 0 {
				v.Seed = -v.Seed
			}
		}
		rec := fqVal{ID: id, Kind: "const", Ts: ts, Dmin: dmin, Dmax: dmax, Repeat: rep, Opts: []int64{}, Pos: 1}
		switch r.Intn(12) {
		case 0: // int constant
			v.Value = &fpb.Value_IntValue{IntValue: &fpb.IntValue{Value: int64(r.Intn(20))}}
		case 1, 2: // int range, with or without deltas
			lo := int64(r.Intn(10))
			hi := lo + int64(r.Intn(10))
			iv := &fpb.IntValue{Value: lo + int64(r.Intn(int(hi-lo+1)))}
			rg := &fpb.IntRange{Minimum: lo, Maximum: hi}
			if r.Intn(2) == 0 {
				rg.DeltaMin = int64(r.Intn(5)) - 3
				rg.DeltaMax = rg.DeltaMin + int64(r.Intn(4))
				if rg.DeltaMin == 0 && rg.DeltaMax == 0 {
					rg.DeltaMax = 1
				}
			}
			iv.Distribution = &fpb.IntValue_Range{Range: rg}
			v.Value = &fpb.Value_IntValue{IntValue: iv}
			rec.Kind, rec.Lo, rec.Hi, rec.Dlo, rec.Dhi = "range", lo, hi, rg.DeltaMin, rg.DeltaMax
		case 3: // int list
			opts := []int64{}
			for k, m := 0, 1+r.Intn(4); k < m; k++ {
				opts = append(opts, int64(r.Intn(9)))
			}
			rnd := r.Intn(2) == 0
			v.Value = &fpb.Value_IntValue{IntValue: &fpb.IntValue{Value: opts[0], Distribution: &fpb.IntValue_List{List: &fpb.IntList{Options: append([]int64{}, opts...), Random: rnd}}}}
			rec.Kind, rec.Opts, rec.Random = "list", opts, rnd
		case 4: // uint range
			lo := uint64(r.Intn(10))
			hi := lo + uint64(r.Intn(10))
			uv := &fpb.UintValue{Value: lo + uint64(r.Intn(int(hi-lo+1)))}
			rg := &fpb.UintRange{Minimum: lo, Maximum: hi}
			if r.Intn(2) == 0 {
				rg.DeltaMin = int64(r.Intn(5)) - 3
				rg.DeltaMax = rg.DeltaMin + int64(r.Intn(4))
				if rg.DeltaMin == 0 && rg.DeltaMax == 0 {
					rg.DeltaMax = 1
				}
			}
			uv.Distribution = &fpb.UintValue_Range{Range: rg}
			v.Value = &fpb.Value_UintValue{UintValue: uv}
			rec.Kind, rec.Lo, rec.Hi, rec.Dlo, rec.Dhi = "range", int64(lo), int64(hi), rg.DeltaMin, rg.DeltaMax
		case 5: // double range (logged in thousandths)
			lo := float64(r.Intn(10))
			hi := lo + float64(r.Intn(10))
			dv := &fpb.DoubleValue{Value: lo + float64(r.Intn(int(hi-lo+1)))}
			rg := &fpb.DoubleRange{Minimum: lo, Maximum: hi}
			if r.Intn(2) == 0 {
				rg.DeltaMin = float64(r.Intn(5)) - 3
				rg.DeltaMax = rg.DeltaMin + float64(r.Intn(4))
				if rg.DeltaMin == 0 && rg.DeltaMax == 0 {
					rg.DeltaMax = 1
				}
			}
			dv.Distribution = &fpb.DoubleValue_Range{Range: rg}
			v.Value = &fpb.Value_DoubleValue{DoubleValue: dv}
			rec.Kind, rec.Lo, rec.Hi, rec.Dlo, rec.Dhi = "range", int64(lo*dblScale), int64(hi*dblScale), int64(rg.DeltaMin*dblScale), int64(rg.DeltaMax*dblScale)
		case 6: // string list
			all := []string{"a", "b", "c", "d"}
			opts := []string{}
			for k, m := 0, 1+r.Intn(4); k < m; k++ {
				opts = append(opts, all[r.Intn(len(all))])
			}
			rnd := r.Intn(2) == 0
			v.Value = &fpb.Value_StringValue{StringValue: &fpb.StringValue{Value: opts[0], Distribution: &fpb.StringValue_List{List: &fpb.StringList{Options: append([]string{}, opts...), Random: rnd}}}}
			rec.Kind, rec.Random = "list", rnd
			for _, o := range opts {
				if _, ok := strs[o]; !ok {
					strs[o] = int64(len(strs) + 1)
				}
				rec.Opts = append(rec.Opts, strs[o])
			}
		case 7: // bool list
			opts := []bool{}
			for k, m := 0, 1+r.Intn(3); k < m; k++ {
				opts = append(opts, r.Intn(2) == 0)
			}
			rnd := r.Intn(2) == 0
			v.Value = &fpb.Value_BoolValue{BoolValue: &fpb.BoolValue{Value: opts[0], Distribution: &fpb.BoolValue_List{List: &fpb.BoolList{Options: append([]bool{}, opts...), Random: rnd}}}}
			rec.Kind, rec.Random = "list", rnd
			for _, o := range opts {
				if o {
					rec.Opts = append(rec.Opts, 1)
				} else {
					rec.Opts = append(rec.Opts, 0)
				}
			}
		case 8:
			v.Value = &fpb.Value_Delete{Delete: &fpb.DeleteValue{}}
		case 9: // string list (leaf-list): a random sub-list of the options, or the options rotating
			all := []string{"a", "b", "c", "d"}
			r.Shuffle(len(all), func(i, j int) { all[i], all[j] = all[j], all[i] })
			opts := all[:1+r.Intn(4)] // distinct
			rnd := r.Intn(2) == 0
			init := append([]string{}, opts[:r.Intn(len(opts)+1)]...)
			v.Value = &fpb.Value_StringListValue{StringListValue: &fpb.StringListValue{Value: init,
				Distribution: &fpb.StringListValue_List{List: &fpb.StringList{Options: append([]string{}, opts...), Random: rnd}}}}
			rec.Kind, rec.Random = "sublist", rnd
			for _, o := range opts {
				if _, ok := strs[o]; !ok {
					strs[o] = int64(len(strs) + 1)
				}
				rec.Opts = append(rec.Opts, strs[o])
			}
		case 10: // an explicit sync value, written like the marker the fake client injects (no path, repeat 1, no deltas)
			if hasXSync {
				v.Value = &fpb.Value_StringValue{StringValue: &fpb.StringValue{Value: "const"}}
				break
			}
			hasXSync = true
			v.Path, v.Seed, v.Repeat = nil, 0, 1
			v.Timestamp = &fpb.Timestamp{Timestamp: ts}
			v.Value = &fpb.Value_Sync{Sync: 1}
			rec.ID, rec.Dmin, rec.Dmax, rec.Repeat = "xsync", 0, 0, 1
			xsync = len(vals)
		default:
			v.Value = &fpb.Value_StringValue{StringValue: &fpb.StringValue{Value: "const"}}
		}
		rec.Val = fqTok(v, strs)
		if ts > latest {
			latest = ts
		}
		vals = append(vals, v)
		recs = append(recs, rec)
	}
	if xsync >= 0 && r.Intn(2) == 0 {
		// ... and stamped like it: at the latest initial timestamp
		vals[xsync].Timestamp.Timestamp = latest
		recs[xsync].Ts = latest
	}
	return vals, recs, latest
}

type fqEm struct {
	id     string
	ts     int64
	val    int64
	repeat int32
}

func fqRun(vals []*fpb.Value, latest int64, seed int64, limit int, strs map[string]int64) ([]fqEm, string) {
	cp := make([]*fpb.Value, len(vals))
	for i, v := range vals {
		cp[i] = proto.Clone(v).(*fpb.Value)
	}
	q := queue.New(false, seed, cp)
	// as the fake client's reset does: the sync marker at the latest initial timestamp
	q.Add(&fpb.Value{Path: []string{"sync"}, Timestamp: &fpb.Timestamp{Timestamp: q.Latest()}, Repeat: 1, Value: &fpb.Value_Sync{Sync: 1}})
	var out []fqEm
	for len(out) < limit {
		x, err := q.Next()
		if err != nil {
			return out, "error"
		}
		if x == nil {
			return out, "exhausted"
		}
		v := x.(*fpb.Value)
		id := strings.Join(v.GetPath(), "/")
		if id == "" {
			id = "xsync" // the configuration's own sync value (the injected marker has the path "sync" here)
		}
		out = append(out, fqEm{id, v.GetTimestamp().GetTimestamp() - fqBase, fqTok(v, strs), v.GetRepeat()})
	}
	return out, "limit"
}

// fqAgentRun streams the same configuration from the repository's fake gNMI agent (testing/fake/gnmi: the real
// client.go builds the queue and injects the sync marker, agent.go serves it over gRPC) and reads the responses
// off the wire. What the wire does not carry - the remaining repeat count, a timestamp for the sync marker - is
// logged as -1 and not compared (the cfg event says obs = "wire").
func fqAgentRun(vals []*fpb.Value, seed int64, limit int, strs map[string]int64) ([]fqEm, string) {
	cp := make([]*fpb.Value, len(vals))
	for i, v := range vals {
		cp[i] = proto.Clone(v).(*fpb.Value)
	}
	a, err := fgnmi.New(&fpb.Config{Target: "t1", Seed: seed, Values: cp, ClientType: fpb.Config_GRPC_GNMI}, nil)
	if err != nil {
		return nil, "agent: " + err.Error()
	}
	defer a.Close()
	conn, err := grpc.NewClient(a.Address(), grpc.WithTransportCredentials(insecure.NewCredentials()))
	if err != nil {
		return nil, "dial: " + err.Error()
	}
	defer conn.Close()
	ctx, cancel := context.WithTimeout(context.Background(), 20*time.Second)
	defer cancel()
	stream, err := gpb.NewGNMIClient(conn).Subscribe(ctx)
	if err != nil {
		return nil, "subscribe: " + err.Error()
	}
	req := &gpb.SubscribeRequest{Request: &gpb.SubscribeRequest_Subscribe{Subscribe: &gpb.SubscriptionList{
		Prefix: &gpb.Path{Target: "t1"}, Mode: gpb.SubscriptionList_STREAM, Subscription: []*gpb.Subscription{{Path: &gpb.Path{}}}}}}
	if err := stream.Send(req); err != nil {
		return nil, "send: " + err.Error()
	}
	var out []fqEm
	lastTs := int64(0)
	nsync := 0
	hasXSync := false
	for _, v := range vals {
		if _, ok := v.GetValue().(*fpb.Value_Sync); ok {
			hasXSync = true
		}
	}
	for len(out) < limit {
		resp, err := stream.Recv()
		if err != nil {
			if ctx.Err() != nil {
				return out, "timeout"
			}
			return out, "exhausted" // the agent ends the stream when its queue has run empty
		}
		switch {
		case resp.GetSyncResponse():
			// the configuration's own sync value (earlier in the queue: same or lower timestamp, inserted first) and the
			// injected marker look the same on the wire: the first is the configuration's, if it has one
			id := "sync"
			if hasXSync && nsync == 0 {
				id = "xsync"
			}
			nsync++
			out = append(out, fqEm{id, lastTs, 1, -1})
		case resp.GetUpdate() != nil:
			n := resp.GetUpdate()
			lastTs = n.GetTimestamp() - fqBase
			for _, d := range n.GetDelete() {
				out = append(out, fqEm{strings.Join(d.GetElement(), "/"), n.GetTimestamp() - fqBase, 7, -1})
			}
			for _, u := range n.GetUpdate() {
				tok := int64(-99)
				switch x := u.GetVal().GetValue().(type) {
				case *gpb.TypedValue_IntVal:
					tok = x.IntVal
				case *gpb.TypedValue_UintVal:
					tok = int64(x.UintVal)
				case *gpb.TypedValue_DoubleVal:
					tok = int64(math.Round(x.DoubleVal * dblScale))
				case *gpb.TypedValue_BoolVal:
					if x.BoolVal {
						tok = 1
					} else {
						tok = 0
					}
				case *gpb.TypedValue_StringVal:
					if _, ok := strs[x.StringVal]; !ok {
						strs[x.StringVal] = int64(len(strs) + 1)
					}
					tok = strs[x.StringVal]
				case *gpb.TypedValue_LeaflistVal:
					l := []string{}
					for _, e := range x.LeaflistVal.GetElement() {
						l = append(l, e.GetStringVal())
					}
					tok = fqListTok(l, strs)
				}
				out = append(out, fqEm{strings.Join(u.GetPath().GetElement(), "/"), n.GetTimestamp() - fqBase, tok, -1})
			}
		}
	}
	return out, "limit"
}

func fakequeueRandom(args []string) error {
	fs := flag.NewFlagSet("fakequeue random", flag.ContinueOnError)
	agent := fs.Bool("agent", false, "stream the configurations from the repository's fake gNMI agent over gRPC instead of calling the queue")
	n := fs.Int("n", 500, "configurations")
	emit := fs.Int("emit", 60, "emissions validated per configuration")
	out := fs.String("out", "", "output directory")
	shards := fs.Int("shards", 16, "trace files")
	if err := fs.Parse(args); err != nil {
		return err
	}
	pfx := "fq"
	if *agent {
		pfx = "fqagent"
	}
	ss, err := newShards(*out, pfx, *shards)
	if err != nil {
		return err
	}
	seed := seedFromEnv()
	for c := 0; c < *n; c++ {
		r := rand.New(rand.NewSource(seed*9973 + int64(c)))
		strs := map[string]int64{"const": 50}
		vals, recs, latest := genFqConfig(r, strs)
		gseed := int64(1 + r.Intn(1000))
		switch r.Intn(6) { // any non-zero seed is a seed: negative and extreme ones too
		case 0:
			gseed = -gseed
		case 1:
			gseed = []int64{math.MaxInt64, math.MinInt64, -1, 1 << 32}[r.Intn(4)]
		}
		window := *emit * 4
		var a, b []fqEm
		var endA string
		obs := "full"
		if *agent {
			obs = "wire"
			hasDelete := false
			for _, v := range vals {
				_, d := v.GetValue().(*fpb.Value_Delete)
				hasDelete = hasDelete || d
			}
			_ = hasDelete
			a, endA = fqAgentRun(vals, gseed, window, strs)
			b, _ = fqAgentRun(vals, gseed, window, strs)
			if endA != "limit" && endA != "exhausted" {
				return fmt.Errorf("fake agent run failed: %s", endA)
			}
		} else {
			a, endA = fqRun(vals, latest, gseed, window, strs)
			b, _ = fqRun(vals, latest, gseed, window, strs)
		}
		w := ss.ws[c%len(ss.ws)]
		recs = append(recs, fqVal{ID: "sync", Kind: "sync", Ts: latest, Repeat: 1, Val: 1, Opts: []int64{}, Pos: 1})
		w.Emit(trace.E{"ev": "cfg", "vals": recs, "seed": gseed, "slack": 1, "obs": obs})
		lim := *emit
		if len(a) < lim {
			lim = len(a)
		}
		for i := 0; i < lim; i++ {
			e := a[i]
			nts, nval := int64(-1), int64(0)
			for j := i + 1; j < len(a); j++ {
				if a[j].id == e.id {
					nts, nval = a[j].ts, a[j].val
					break
				}
			}
			ev := trace.E{"ev": "next", "id": e.id, "ts": e.ts, "val": e.val, "repeat": e.repeat, "nts": nts, "nval": nval,
				"id2": "-none-", "ts2": -1, "val2": -1}
			if i < len(b) {
				ev["id2"], ev["ts2"], ev["val2"] = b[i].id, b[i].ts, b[i].val
			}
			w.Emit(ev)
		}
		kind := "limit"
		if endA == "exhausted" && lim == len(a) {
			kind = "exhausted"
		}
		w.Emit(trace.E{"ev": "end", "kind": kind})
	}
	ev := ss.close()
	fmt.Printf("DRV fakequeue random configs=%d events=%d agent=%v\n", *n, ev, *agent)
	return nil
}

func fakequeueMain(args []string) error {
	if len(args) == 0 || args[0] != "random" {
		return fmt.Errorf("fakequeue: mode must be random")
	}
	return fakequeueRandom(args[1:])
}
