package main

import (
	"flag"
	"fmt"
	"math/rand"
	"time"

	"github.com/openconfig/gnmi/cache"
	"github.com/openconfig/gnmi/ctree"
	"github.com/openconfig/gnmi/latency"
	"github.com/openconfig/gnmi/metadata"
	pb "github.com/openconfig/gnmi/proto/gnmi"
	"verifharness/internal/trace"
)

// cache lat (C15, latency clause at the level of the cache): a cache created with latency windows, a manual clock
// behind cache.Now and latency.Now, one target receiving updates whose timestamps lie a chosen latency behind the
// clock, lifecycle calls, and the periodic metadata refresh. After every refresh the latency leaves the cache
// exports (meta/latency/window/<w>/{avg,max,min}) are read back and logged; CacheLatTrace.tla holds them against
// the latencies of the target's own updates accepted while it was in sync (the only samples there may be).
//
//   verifdrv cache lat -n N -out DIR

type latExport struct {
	W    int64  `json:"w"`    // window, ms
	Stat string `json:"stat"` // avg | max | min
	Val  int64  `json:"val"`  // exported value, microseconds
}

func cacheLatScenario(w *trace.Writer, seed int64, opt cache.Option, windows []time.Duration, period time.Duration) {
	r := rand.New(rand.NewSource(seed))
	now := int64(1_000_000) * int64(time.Second) // far from zero
	cache.Now = func() time.Time { return time.Unix(0, now) }
	latency.Now = cache.Now
	opts := []cache.Option{opt}
	if r.Intn(2) == 0 {
		opts = append(opts, cache.WithAvgLatencyPrecision([]time.Duration{time.Microsecond, time.Millisecond}[r.Intn(2)]))
	}
	ed := r.Intn(2) == 0
	if !ed {
		opts = append(opts, cache.DisableEventDrivenEmulation())
	}
	c := cache.New([]string{"dev1"}, opts...)
	c.SetClient(func(*ctree.Leaf) {})
	wms := []int64{}
	for _, d := range windows {
		wms = append(wms, d.Milliseconds())
	}
	w.Emit(trace.E{"ev": "latcfg", "windows": wms, "period": period.Milliseconds(), "ed": ed})
	// latencies of this scenario: a band well away from zero, so that a sample that is not the target's own stands out
	lo := int64(200+r.Intn(3000)) * int64(time.Millisecond)
	span := int64(1+r.Intn(4000)) * int64(time.Millisecond)
	paths := [][]string{{"a", "b"}, {"a", "c"}, {"x"}}
	vals := []int64{1, 2, 3}
	steps := 20 + r.Intn(60)
	for k := 0; k < steps; k++ {
		switch x := r.Intn(100); {
		case x < 50: // an update of the target, its timestamp a latency behind the clock
			lat := lo + (r.Int63n(span+1)/int64(time.Millisecond))*int64(time.Millisecond)
			p := paths[r.Intn(len(paths))]
			n := &pb.Notification{Timestamp: now - lat, Prefix: &pb.Path{Target: "dev1"},
				Update: []*pb.Update{{Path: &pb.Path{Elem: pathElems(p...)}, Val: &pb.TypedValue{Value: &pb.TypedValue_IntVal{IntVal: vals[r.Intn(len(vals))]}}}}}
			res := "ok"
			if err := c.GnmiUpdate(n); err != nil {
				res = "err"
			}
			w.Emit(trace.E{"ev": "latop", "op": "update", "lat": lat / 1000, "res": res})
		case x < 58:
			c.Sync("dev1")
			w.Emit(trace.E{"ev": "latop", "op": "sync", "lat": 0, "res": "ok"})
		case x < 62:
			c.Connect("dev1")
			w.Emit(trace.E{"ev": "latop", "op": "connect", "lat": 0, "res": "ok"})
		case x < 65:
			c.Reset("dev1")
			w.Emit(trace.E{"ev": "latop", "op": "reset", "lat": 0, "res": "ok"})
		case x < 80: // time passes
			now += int64(r.Intn(1500)) * int64(time.Millisecond)
		default: // the periodic refresh, one period after the previous one more often than not
			if r.Intn(4) > 0 {
				now += int64(period)
			}
			c.UpdateMetadata()
			if r.Intn(3) == 0 {
				c.UpdateSize()
			}
			exports := []latExport{}
			for _, d := range windows {
				for _, st := range []latency.StatType{latency.Avg, latency.Max, latency.Min} {
					c.Query("dev1", metadata.LatencyPath(d, st), func(_ []string, _ *ctree.Leaf, v interface{}) error {
						if n, ok := v.(*pb.Notification); ok && len(n.GetUpdate()) == 1 {
							exports = append(exports, latExport{W: d.Milliseconds(), Stat: st.String(), Val: n.GetUpdate()[0].GetVal().GetIntVal() / 1000})
						}
						return nil
					})
				}
			}
			w.Emit(trace.E{"ev": "refresh", "exports": exports})
		}
	}
}

func cacheLat(args []string) error {
	fs := flag.NewFlagSet("cache lat", flag.ContinueOnError)
	n := fs.Int("n", 200, "scenarios")
	out := fs.String("out", "", "output directory")
	shards := fs.Int("shards", 8, "trace files")
	if err := fs.Parse(args); err != nil {
		return err
	}
	ss, err := newShards(*out, "clat", *shards)
	if err != nil {
		return err
	}
	seed := seedFromEnv()
	period := 2 * time.Second
	ws := []string{"2s", "4s", "6s"}
	opt, err := cache.WithLatencyWindows(ws, period)
	if err != nil {
		return err
	}
	windows, _ := latency.ParseWindows(ws, period)
	oldC, oldL := cache.Now, latency.Now
	defer func() { cache.Now, latency.Now = oldC, oldL }()
	// one cache at a time: the clock stubs and the metadata name registry are package-level
	for i := 0; i < *n; i++ {
		cacheLatScenario(ss.ws[i%len(ss.ws)], seed*6151+int64(i), opt, windows, period)
	}
	ev := ss.close()
	fmt.Printf("DRV cache lat scenarios=%d events=%d\n", *n, ev)
	return nil
}
