package main

import (
	"flag"
	"fmt"
	"math"
	"math/rand"
	"sort"
	"strconv"

	"google.golang.org/protobuf/proto"

	"github.com/openconfig/gnmi/client"
	gclient "github.com/openconfig/gnmi/client/gnmi"
	"github.com/openconfig/gnmi/path"
	pb "github.com/openconfig/gnmi/proto/gnmi"
	"github.com/openconfig/gnmi/value"
	"verifharness/internal/trace"
)

// pathvalue family (C19).
//   verifdrv pathvalue run -n N -out DIR -shards K

func init() { register("pathvalue", pathvalueMain) }

type pvKey struct {
	K string `json:"k"`
	V string `json:"v"`
	R int    `json:"r"`
}
type pvElem struct {
	Name string  `json:"name"`
	Keys []pvKey `json:"keys"`
}
type pvPath struct {
	Nil     bool     `json:"nil"`
	Target  string   `json:"target"`
	Origin  string   `json:"origin"`
	Elems   []pvElem `json:"elems"`
	Element []string `json:"element"`
}

// build makes a fresh proto object (fresh maps) for every evaluation.
func (p pvPath) build() *pb.Path {
	if p.Nil {
		return nil
	}
	out := &pb.Path{Target: p.Target, Origin: p.Origin}
	for _, e := range p.Elems {
		pe := &pb.PathElem{Name: e.Name}
		if len(e.Keys) > 0 {
			pe.Key = map[string]string{}
			for _, k := range e.Keys {
				pe.Key[k.K] = k.V
			}
		}
		out.Elem = append(out.Elem, pe)
	}
	out.Element = append(out.Element, p.Element...)
	return out
}

func rankKeys(keys []pvKey) []pvKey {
	names := make([]string, len(keys))
	for i, k := range keys {
		names[i] = k.K
	}
	sort.Strings(names)
	for i := range keys {
		keys[i].R = sort.SearchStrings(names, keys[i].K) + 1
	}
	return keys
}

var pvNames = []string{"a", "b", "interfaces", "é", "x y", "a/b", "", "*", "meta", "ключ", "z[1]"}

func randPvPath(r *rand.Rand) pvPath {
	p := pvPath{Elems: []pvElem{}, Element: []string{}}
	if r.Intn(25) == 0 {
		p.Nil = true
		return p
	}
	if r.Intn(2) == 0 {
		p.Target = []string{"T", "dev1", "*"}[r.Intn(3)]
	}
	if r.Intn(2) == 0 {
		p.Origin = []string{"O", "openconfig"}[r.Intn(2)]
	}
	for i, n := 0, r.Intn(4); i < n; i++ {
		e := pvElem{Name: pvNames[r.Intn(len(pvNames))], Keys: []pvKey{}}
		used := map[string]bool{}
		for j, nk := 0, []int{0, 0, 1, 2, 3, 6}[r.Intn(6)]; j < nk; j++ {
			k := []string{"name", "id", "k1", "k2", "a", "B", "é", "k10", "k9"}[r.Intn(9)]
			if used[k] {
				continue
			}
			used[k] = true
			e.Keys = append(e.Keys, pvKey{K: k, V: pvNames[r.Intn(len(pvNames))]})
		}
		e.Keys = rankKeys(e.Keys)
		p.Elems = append(p.Elems, e)
	}
	if r.Intn(3) == 0 {
		for i, n := 0, r.Intn(4); i < n; i++ {
			p.Element = append(p.Element, pvNames[r.Intn(len(pvNames))])
		}
	}
	return p
}

func strsOut(s []string) []string {
	if s == nil {
		return []string{}
	}
	return s
}

func scalarTok(v interface{}, prec32 bool) string {
	switch x := v.(type) {
	case int:
		return strconv.FormatInt(int64(x), 10)
	case int8:
		return strconv.FormatInt(int64(x), 10)
	case int16:
		return strconv.FormatInt(int64(x), 10)
	case int32:
		return strconv.FormatInt(int64(x), 10)
	case int64:
		return strconv.FormatInt(x, 10)
	case uint:
		return strconv.FormatUint(uint64(x), 10)
	case uint8:
		return strconv.FormatUint(uint64(x), 10)
	case uint16:
		return strconv.FormatUint(uint64(x), 10)
	case uint32:
		return strconv.FormatUint(uint64(x), 10)
	case uint64:
		return strconv.FormatUint(x, 10)
	case float32:
		return strconv.FormatFloat(float64(x), 'g', -1, 32)
	case float64:
		if prec32 { // "unchanged up to float precision": compare at the precision of the source
			return strconv.FormatFloat(x, 'g', -1, 32)
		}
		return strconv.FormatFloat(x, 'g', -1, 64)
	case bool:
		return strconv.FormatBool(x)
	case string:
		return "s:" + x
	case []byte:
		return fmt.Sprintf("b:%x", x)
	case []string:
		out := "["
		for _, s := range x {
			out += "s:" + s + ","
		}
		return out + "]"
	case []interface{}:
		out := "["
		for _, s := range x {
			out += scalarTok(s, prec32) + ","
		}
		return out + "]"
	}
	return fmt.Sprintf("?%T", v)
}

func randScalar(r *rand.Rand) interface{} {
	ints := []int64{0, 1, -1, 127, -128, 255, 32767, -32768, 65535, math.MaxInt32, math.MinInt32, math.MaxInt64, math.MinInt64, 42}
	i := ints[r.Intn(len(ints))]
	switch r.Intn(17) {
	case 0:
		return int(i)
	case 1:
		return int8(i)
	case 2:
		return int16(i)
	case 3:
		return int32(i)
	case 4:
		return i
	case 5:
		return uint(i)
	case 6:
		return uint8(i)
	case 7:
		return uint16(i)
	case 8:
		return uint32(i)
	case 9:
		return uint64(i)
	case 10:
		return []float32{0, 1.5, -2.25, 1.1, math.MaxFloat32, 1e-10}[r.Intn(6)]
	case 11:
		return []float64{0, 1.5, -2.25, 1.1, math.MaxFloat64, 1e-300, math.Inf(1)}[r.Intn(7)]
	case 12:
		return r.Intn(2) == 0
	case 13:
		return []string{"", "x", "é", "a/b", "long string with spaces"}[r.Intn(5)]
	case 14:
		return []byte{byte(r.Intn(256)), 0, 255}
	case 15:
		return []string{"a", "", "é"}[:r.Intn(4)]
	default:
		return []interface{}{int32(i), "s", true, 1.5}[:r.Intn(5)]
	}
}

func typedValues() []*pb.TypedValue {
	out := []*pb.TypedValue{nil, {}}
	for _, k := range []int{1, 2} {
		f := float64(k) + 0.5
		out = append(out,
			&pb.TypedValue{Value: &pb.TypedValue_StringVal{StringVal: fmt.Sprint("s", k)}},
			&pb.TypedValue{Value: &pb.TypedValue_IntVal{IntVal: int64(k)}},
			&pb.TypedValue{Value: &pb.TypedValue_UintVal{UintVal: uint64(k)}},
			&pb.TypedValue{Value: &pb.TypedValue_BoolVal{BoolVal: k == 1}},
			&pb.TypedValue{Value: &pb.TypedValue_BytesVal{BytesVal: []byte{byte(k)}}},
			&pb.TypedValue{Value: &pb.TypedValue_FloatVal{FloatVal: float32(f)}},
			&pb.TypedValue{Value: &pb.TypedValue_DoubleVal{DoubleVal: f}},
			&pb.TypedValue{Value: &pb.TypedValue_DecimalVal{DecimalVal: &pb.Decimal64{Digits: int64(k), Precision: 2}}},
			&pb.TypedValue{Value: &pb.TypedValue_LeaflistVal{LeaflistVal: &pb.ScalarArray{Element: []*pb.TypedValue{
				{Value: &pb.TypedValue_IntVal{IntVal: int64(k)}}}}}},
			&pb.TypedValue{Value: &pb.TypedValue_JsonVal{JsonVal: []byte(fmt.Sprint(k))}},
			&pb.TypedValue{Value: &pb.TypedValue_JsonIetfVal{JsonIetfVal: []byte(fmt.Sprint(k))}},
			&pb.TypedValue{Value: &pb.TypedValue_AsciiVal{AsciiVal: fmt.Sprint("a", k)}},
			&pb.TypedValue{Value: &pb.TypedValue_ProtoBytes{ProtoBytes: []byte{byte(k)}}},
		)
	}
	// pairs that differ only where a lossy comparison (float32/float64 image, length-only, prefix-only,
	// case-folding) no longer sees it; no two of them denote the same number
	dec := func(d int64, p uint32) *pb.TypedValue {
		return &pb.TypedValue{Value: &pb.TypedValue_DecimalVal{DecimalVal: &pb.Decimal64{Digits: d, Precision: p}}}
	}
	ll := func(ss ...string) *pb.TypedValue {
		sa := &pb.ScalarArray{}
		for _, x := range ss {
			sa.Element = append(sa.Element, &pb.TypedValue{Value: &pb.TypedValue_StringVal{StringVal: x}})
		}
		return &pb.TypedValue{Value: &pb.TypedValue_LeaflistVal{LeaflistVal: sa}}
	}
	out = append(out,
		dec(1234567890, 3), dec(1234567891, 3), dec(16777216, 0), dec(16777217, 0), dec(9007199254740992, 2), dec(9007199254740993, 2),
		dec(7, 400), dec(8, 400), dec(7, 4294967295), dec(-7, 4294967295),
		&pb.TypedValue{Value: &pb.TypedValue_IntVal{IntVal: 9007199254740992}}, &pb.TypedValue{Value: &pb.TypedValue_IntVal{IntVal: 9007199254740993}},
		&pb.TypedValue{Value: &pb.TypedValue_IntVal{IntVal: -1}},
		&pb.TypedValue{Value: &pb.TypedValue_UintVal{UintVal: 18446744073709551614}}, &pb.TypedValue{Value: &pb.TypedValue_UintVal{UintVal: 18446744073709551615}},
		&pb.TypedValue{Value: &pb.TypedValue_FloatVal{FloatVal: 1.5000001}}, &pb.TypedValue{Value: &pb.TypedValue_DoubleVal{DoubleVal: 1.5000000000000002}},
		&pb.TypedValue{Value: &pb.TypedValue_BytesVal{BytesVal: []byte{1, 0}}}, &pb.TypedValue{Value: &pb.TypedValue_BytesVal{BytesVal: []byte{}}},
		&pb.TypedValue{Value: &pb.TypedValue_StringVal{StringVal: "S1"}}, &pb.TypedValue{Value: &pb.TypedValue_StringVal{StringVal: "s1 "}},
		&pb.TypedValue{Value: &pb.TypedValue_StringVal{StringVal: ""}},
		&pb.TypedValue{Value: &pb.TypedValue_AsciiVal{AsciiVal: "s1"}},
		&pb.TypedValue{Value: &pb.TypedValue_JsonVal{JsonVal: []byte("1.0")}}, &pb.TypedValue{Value: &pb.TypedValue_JsonIetfVal{JsonIetfVal: []byte("\"1\"")}},
		ll(), ll("a"), ll("a", "b"), ll("a", "b", "c"), ll("a", "c"), ll("b", "a"),
	)
	// nil inner messages and nested lists
	out = append(out,
		&pb.TypedValue{Value: &pb.TypedValue_DecimalVal{}},
		&pb.TypedValue{Value: &pb.TypedValue_LeaflistVal{}},
		&pb.TypedValue{Value: &pb.TypedValue_LeaflistVal{LeaflistVal: &pb.ScalarArray{Element: []*pb.TypedValue{nil}}}},
		&pb.TypedValue{Value: &pb.TypedValue_LeaflistVal{LeaflistVal: &pb.ScalarArray{Element: []*pb.TypedValue{
			{Value: &pb.TypedValue_LeaflistVal{LeaflistVal: &pb.ScalarArray{}}}}}}},
	)
	return out
}

func eqTok(a, b *pb.TypedValue) string {
	res := "panic"
	func() {
		defer func() { recover() }()
		res = strconv.FormatBool(value.Equal(a, b))
	}()
	return res
}

func tvTok(v *pb.TypedValue) string {
	if v == nil {
		return "nil"
	}
	b, _ := proto.MarshalOptions{Deterministic: true}.Marshal(v)
	return fmt.Sprintf("%T:%x", v.GetValue(), b)
}

func pathvalueRun(args []string) error {
	fs := flag.NewFlagSet("pathvalue run", flag.ContinueOnError)
	n := fs.Int("n", 2000, "random inputs per kind")
	out := fs.String("out", "", "output directory")
	shards := fs.Int("shards", 16, "trace files")
	if err := fs.Parse(args); err != nil {
		return err
	}
	ss, err := newShards(*out, "pv", *shards)
	if err != nil {
		return err
	}
	r := rand.New(rand.NewSource(seedFromEnv()))
	ev := 0
	w := func() *trace.Writer { ev++; return ss.ws[ev%len(ss.ws)] }
	// 1. ToStrings: every input evaluated 30 times on fresh proto objects (fresh maps)
	for i := 0; i < *n; i++ {
		p := randPvPath(r)
		pre := r.Intn(2) == 0
		outs := [][]string{}
		for k := 0; k < 30; k++ {
			outs = append(outs, strsOut(path.ToStrings(p.build(), pre)))
		}
		w().Emit(trace.E{"ev": "tostrings", "path": p, "prefix": pre, "outs": outs})
	}
	// 2. CompletePath over all origin combinations
	for i := 0; i < *n; i++ {
		pre, pa := randPvPath(r), randPvPath(r)
		if r.Intn(2) == 0 {
			pre.Elems, pre.Element = []pvElem{}, []string{}
		}
		res := "ok"
		outs := [][]string{}
		for k := 0; k < 10; k++ {
			o, err := path.CompletePath(pre.build(), pa.build())
			if err != nil {
				res = "err"
				break
			}
			outs = append(outs, strsOut(o))
		}
		w().Emit(trace.E{"ev": "complete", "prefix": pre, "path": pa, "res": res, "outs": outs})
	}
	// 3. client query of plain elements -> request -> wire -> index strings
	// (elements ending in "/" are a known finding, watched by three dedicated queries at the end)
	plain := []string{"a", "b", "interfaces", "é", "a/b", "/a", "x/y/z", "eth0", "1", "a-b_c.d", "ключ", "//a", "a//b"}
	known := []client.Path{{"a/"}, {"x", "/"}, {"a/", "b"}}
	for i := 0; i < *n+len(known); i++ {
		q := client.Path{}
		for k, m := 0, 1+r.Intn(4); k < m; k++ {
			q = append(q, plain[r.Intn(len(plain))])
		}
		if i >= *n {
			q = known[i-*n]
		}
		e := trace.E{"ev": "query", "elems": []string(q), "res": "ok", "out": []string{}}
		sr, err := gclient.ToSubscribeRequest(client.Query{Target: "t", Queries: []client.Path{q}, Type: client.Once})
		if err != nil {
			e["res"] = "err"
		} else {
			b, _ := proto.Marshal(sr)
			back := &pb.SubscribeRequest{}
			proto.Unmarshal(b, back)
			e["out"] = strsOut(path.ToStrings(back.GetSubscribe().GetSubscription()[0].GetPath(), false))
		}
		w().Emit(e)
	}
	// 4. Go scalars through FromScalar / ToScalar
	for i := 0; i < *n; i++ {
		v := randScalar(r)
		if r.Intn(40) == 0 {
			v = struct{}{}
		}
		kind := fmt.Sprintf("%T", v)
		_, is32 := v.(float32)
		e := trace.E{"ev": "scalar", "kind": kind, "tok": scalarTok(v, false), "res": "ok", "arm": "", "back_kind": "", "back_tok": ""}
		tv, err := value.FromScalar(v)
		if err != nil {
			e["res"] = "err"
		} else {
			arm := valTok(tv)
			for j := 0; j < len(arm); j++ {
				if arm[j] == ':' {
					arm = arm[:j]
					break
				}
			}
			e["arm"] = arm
			back, err := value.ToScalar(tv)
			if err != nil {
				e["res"] = "err2"
			} else {
				e["back_kind"] = fmt.Sprintf("%T", back)
				e["back_tok"] = scalarTok(back, is32)
				if _, ok := v.([]string); ok { // []string comes back as []interface{} of strings: same tokens
					e["tok"] = scalarTok(v, false)
				}
			}
		}
		w().Emit(e)
	}
	// 5. Equal over all pairs of the TypedValue universe
	tvs := typedValues()
	for _, a := range tvs {
		for _, b := range tvs {
			w().Emit(trace.E{"ev": "equal", "a": tvTok(a), "b": tvTok(b), "ab": eqTok(a, b), "ba": eqTok(b, a)})
		}
	}
	total := ss.close()
	fmt.Printf("DRV pathvalue run vectors=%d events=%d typedvalues=%d\n", ev, total, len(tvs))
	return nil
}

func pathvalueMain(args []string) error {
	if len(args) == 0 || args[0] != "run" {
		return fmt.Errorf("pathvalue: mode must be run")
	}
	return pathvalueRun(args[1:])
}
