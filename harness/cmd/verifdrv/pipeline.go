package main

import (
	"bytes"
	"context"
	"crypto/ecdsa"
	"crypto/elliptic"
	crand "crypto/rand"
	"crypto/tls"
	"crypto/x509"
	"crypto/x509/pkix"
	"encoding/json"
	"encoding/pem"
	"flag"
	"fmt"
	"math/big"
	"math/rand"
	"net"
	"os"
	"os/exec"
	"path/filepath"
	"sort"
	"strconv"
	"strings"
	"sync"
	"time"

	"google.golang.org/grpc"
	"google.golang.org/grpc/credentials"
	"google.golang.org/protobuf/encoding/prototext"

	"github.com/openconfig/gnmi/client"
	gclient "github.com/openconfig/gnmi/client/gnmi"
	pb "github.com/openconfig/gnmi/proto/gnmi"
	"verifharness/internal/trace"
)

// pipeline family (C01): real gnmi_collector and gnmi_cli binaries built from
// the working tree, scripted TLS targets, library and CLI clients.
//
//   verifdrv pipeline run -n N -bin DIR -out DIR

func init() { register("pipeline", pipelineMain) }

const pipeSentinel = "zzsentinel"

// ---- scripted TLS target ----

type pipeTarget struct {
	pb.UnimplementedGNMIServer
	mu      sync.Mutex
	script  []*pb.SubscribeResponse // data messages, in order
	dropAt  int                     // >0: the first stream is broken after this many messages
	eofAt   int                     // >0: the first stream carries script[:eofAt] and then ends in an orderly way (EOF);
	//                                 the second stream is a new life of the target: it carries script[eofAt:] only
	opens   int
	sentVal int64 // sentinel value of the last completed script
	srv     *grpc.Server
	addr    string
}

func (p *pipeTarget) Subscribe(stream pb.GNMI_SubscribeServer) error {
	if _, err := stream.Recv(); err != nil {
		return err
	}
	p.mu.Lock()
	p.opens++
	n := p.opens
	script := p.script
	drop := p.dropAt
	if p.eofAt > 0 {
		if n == 1 {
			script = script[:p.eofAt]
		} else {
			script = script[p.eofAt:]
		}
	}
	eof := p.eofAt > 0 && n == 1
	p.mu.Unlock()
	if eof {
		for _, m := range script {
			if err := stream.Send(m); err != nil {
				return err
			}
		}
		stream.Send(&pb.SubscribeResponse{Response: &pb.SubscribeResponse_SyncResponse{SyncResponse: true}})
		return nil // the target ends the stream itself
	}
	for i, m := range script {
		if err := stream.Send(m); err != nil {
			return err
		}
		if n == 1 && drop > 0 && i+1 == drop {
			return fmt.Errorf("scripted disconnect")
		}
	}
	// sentinel last, through the same FIFO pipeline, then sync
	sent := &pb.SubscribeResponse{Response: &pb.SubscribeResponse_Update{Update: &pb.Notification{Timestamp: time.Now().UnixNano(),
		Update: []*pb.Update{{Path: &pb.Path{Elem: pathElems(pipeSentinel)}, Val: &pb.TypedValue{Value: &pb.TypedValue_IntVal{IntVal: int64(n)}}}}}}}
	if err := stream.Send(sent); err != nil {
		return err
	}
	stream.Send(&pb.SubscribeResponse{Response: &pb.SubscribeResponse_SyncResponse{SyncResponse: true}})
	<-stream.Context().Done()
	return nil
}

func selfSigned(dir string) (certFile, keyFile string, cert tls.Certificate, err error) {
	key, err := ecdsa.GenerateKey(elliptic.P256(), crand.Reader)
	if err != nil {
		return
	}
	tmpl := &x509.Certificate{SerialNumber: big.NewInt(1), Subject: pkix.Name{CommonName: "verif"}, NotBefore: time.Now().Add(-time.Hour),
		NotAfter: time.Now().Add(24 * time.Hour), KeyUsage: x509.KeyUsageDigitalSignature | x509.KeyUsageCertSign, IsCA: true,
		ExtKeyUsage: []x509.ExtKeyUsage{x509.ExtKeyUsageServerAuth}, BasicConstraintsValid: true,
		IPAddresses: []net.IP{net.IPv4(127, 0, 0, 1)}, DNSNames: []string{"localhost"}}
	der, err := x509.CreateCertificate(crand.Reader, tmpl, tmpl, &key.PublicKey, key)
	if err != nil {
		return
	}
	kb, _ := x509.MarshalECPrivateKey(key)
	certPEM := pem.EncodeToMemory(&pem.Block{Type: "CERTIFICATE", Bytes: der})
	keyPEM := pem.EncodeToMemory(&pem.Block{Type: "EC PRIVATE KEY", Bytes: kb})
	certFile, keyFile = filepath.Join(dir, "cert.pem"), filepath.Join(dir, "key.pem")
	os.WriteFile(certFile, certPEM, 0o600)
	os.WriteFile(keyFile, keyPEM, 0o600)
	cert, err = tls.X509KeyPair(certPEM, keyPEM)
	return
}

func freePort() int {
	l, _ := net.Listen("tcp", "127.0.0.1:0")
	defer l.Close()
	return l.Addr().(*net.TCPAddr).Port
}

// ---- value generation and projection ----

type pipeVal struct {
	tv   *pb.TypedValue
	tok  string // typed token as the client library sees it
	gtok string // rendering in the CLI group display ("" = not comparable there)
}

func genPipeVal(r *rand.Rand) pipeVal {
	switch r.Intn(8) {
	case 0:
		i := int64(r.Intn(2000) - 1000)
		return pipeVal{&pb.TypedValue{Value: &pb.TypedValue_IntVal{IntVal: i}}, "int:" + strconv.FormatInt(i, 10), strconv.FormatInt(i, 10)}
	case 1:
		u := uint64(r.Intn(5000))
		return pipeVal{&pb.TypedValue{Value: &pb.TypedValue_UintVal{UintVal: u}}, "uint:" + strconv.FormatUint(u, 10), strconv.FormatUint(u, 10)}
	case 2:
		b := r.Intn(2) == 0
		return pipeVal{&pb.TypedValue{Value: &pb.TypedValue_BoolVal{BoolVal: b}}, "bool:" + strconv.FormatBool(b), strconv.FormatBool(b)}
	case 3:
		f := float64(r.Intn(100)) + 0.5
		s := strconv.FormatFloat(f, 'g', -1, 64)
		return pipeVal{&pb.TypedValue{Value: &pb.TypedValue_DoubleVal{DoubleVal: f}}, "double:" + s, s}
	case 4:
		f := float32(r.Intn(100)) + 0.25
		s := strconv.FormatFloat(float64(f), 'g', -1, 32)
		return pipeVal{&pb.TypedValue{Value: &pb.TypedValue_FloatVal{FloatVal: f}}, "float:" + s, s}
	case 5:
		ll := []string{"x", "y z", "é"}[:1+r.Intn(3)]
		sa := &pb.ScalarArray{}
		toks := []string{}
		for _, s := range ll {
			sa.Element = append(sa.Element, &pb.TypedValue{Value: &pb.TypedValue_StringVal{StringVal: s}})
			toks = append(toks, "string:"+s)
		}
		return pipeVal{&pb.TypedValue{Value: &pb.TypedValue_LeaflistVal{LeaflistVal: sa}}, "leaflist:[" + strings.Join(toks, ",") + "]", ""}
	default:
		s := []string{"up", "DOWN", "eth 0", "é", "a/b", ""}[r.Intn(6)]
		q, _ := json.Marshal(s)
		return pipeVal{&pb.TypedValue{Value: &pb.TypedValue_StringVal{StringVal: s}}, "string:" + s, string(q)}
	}
}

// scalarTokClient renders a value delivered by the client library.
func scalarTokClient(v interface{}) string {
	switch x := v.(type) {
	case int64:
		return "int:" + strconv.FormatInt(x, 10)
	case uint64:
		return "uint:" + strconv.FormatUint(x, 10)
	case bool:
		return "bool:" + strconv.FormatBool(x)
	case float64:
		return "double:" + strconv.FormatFloat(x, 'g', -1, 64)
	case float32:
		return "float:" + strconv.FormatFloat(float64(x), 'g', -1, 32)
	case string:
		return "string:" + x
	case []byte:
		return fmt.Sprintf("bytes:%x", x)
	case []interface{}:
		toks := []string{}
		for _, e := range x {
			toks = append(toks, scalarTokClient(e))
		}
		return "leaflist:[" + strings.Join(toks, ",") + "]"
	}
	return fmt.Sprintf("other:%T", v)
}

type pipeLeaf struct {
	T   string   `json:"t"`
	P   []string `json:"p"`
	Val string   `json:"val"`
}

func skipLeaf(p []string) bool {
	for _, e := range p {
		if e == pipeSentinel {
			return true
		}
	}
	return len(p) > 0 && p[0] == "meta"
}

// ---- one configuration ----

type pipeEnv struct {
	w       *trace.Writer
	bin     string
	dir     string
	r       *rand.Rand
	targets map[string]*pipeTarget
	names   []string
	port    int
	coll    *exec.Cmd
	// keyed paths sent by the scripts, per target: candidates for a sub-tree query handed to the CLI as a query flag
	keyed map[string][][]*pb.PathElem
	eofCut map[string]int // per target: script index at which a new life of the target begins (0 = none)
	// atomic containers sent by the scripts: origin and member count per target/container
	atomOrigin  map[string]string
	atomMembers map[string]int
	atoms       bool
}

func (e *pipeEnv) genScript(t string) {
	r := e.r
	pt := e.targets[t]
	n := 8 + r.Intn(25)
	names := []string{"a", "b", "c", "interfaces", "state"}
	var used [][]string
	// leaves the script has set with elem-encoded single updates and not deleted since (for the resync idiom)
	type liveLeaf struct {
		full   []string
		origin string
		elems  []*pb.PathElem
		val    pipeVal
		ts     int64
	}
	var live []liveLeaf
	dropLive := func(del []string) {
		kept := live[:0]
		for _, l := range live {
			if len(del) <= len(l.full) && strings.Join(l.full[:len(del)], "\x00") == strings.Join(del, "\x00") {
				continue
			}
			kept = append(kept, l)
		}
		live = kept
	}
	// a target may end its first stream in an orderly way and come back with a new life: what it streamed before is
	// gone unless it streams it again (the collector resets its cache when a stream ends, however it ends)
	sessionMode := r.Intn(3) // 0: one stream; 1: the first stream breaks and is replayed; 2: it ends in an orderly way, a new life follows
	cutAt := -1
	if sessionMode == 2 && n > 4 {
		cutAt = 2 + r.Intn(n-3)
	}
	for i := 0; i < n; i++ {
		if i == cutAt && len(pt.script) > 0 {
			e.eofCut[t] = len(pt.script)
			e.w.Emit(trace.E{"ev": "tsession", "t": t})
			live = nil
			used = nil
		}
		if len(live) >= 2 && r.Intn(8) == 0 {
			// the resync idiom: one notification re-asserts a leaf with a timestamp the collector has already passed
			// (refused as stale - nothing changes) and deletes another, older leaf (which must go all the same)
			a, b := live[r.Intn(len(live))], live[r.Intn(len(live))]
			if a.origin == b.origin && b.ts < a.ts-1 && strings.Join(a.full, "\x00") != strings.Join(b.full, "\x00") {
				rn := &pb.Notification{Timestamp: a.ts - 1, Prefix: &pb.Path{Origin: a.origin},
					Update: []*pb.Update{{Path: &pb.Path{Elem: a.elems}, Val: a.val.tv}},
					Delete: []*pb.Path{{Elem: b.elems}}}
				e.w.Emit(trace.E{"ev": "tsend", "t": t, "k": "del", "p": b.full})
				dropLive(b.full)
				pt.script = append(pt.script, &pb.SubscribeResponse{Response: &pb.SubscribeResponse_Update{Update: rn}})
			}
		}
		// full path: 1-3 elements, some keyed
		var elems []*pb.PathElem
		for k, m := 0, 1+r.Intn(3); k < m; k++ {
			pe := &pb.PathElem{Name: names[r.Intn(len(names))]}
			if r.Intn(4) == 0 {
				pe.Key = map[string]string{"name": []string{"eth0", "eth1", "eth0/1"}[r.Intn(3)]}
				if r.Intn(2) == 0 {
					pe.Key["id"] = []string{"1", "2"}[r.Intn(2)]
				}
			}
			elems = append(elems, pe)
		}
		split := r.Intn(len(elems) + 1)
		origin := []string{"", "", "openconfig", "vendor"}[r.Intn(4)]
		prefix := &pb.Path{Origin: origin, Elem: elems[:split]}
		path := &pb.Path{Elem: elems[split:]}
		if r.Intn(4) == 0 { // deprecated element encoding (unkeyed paths): prefix part, path part or both
			plain := true
			for _, pe := range elems {
				plain = plain && len(pe.Key) == 0
			}
			if plain {
				names := func(es []*pb.PathElem) (out []string) {
					for _, pe := range es {
						out = append(out, pe.Name)
					}
					return
				}
				which := r.Intn(3)
				if which != 1 && split < len(elems) {
					path = &pb.Path{Element: names(elems[split:])}
				}
				if which != 0 && split > 0 {
					prefix = &pb.Path{Origin: origin, Element: names(elems[:split])}
				}
			}
		}
		if r.Intn(10) == 0 {
			prefix = nil
			path = &pb.Path{Elem: elems}
			origin = ""
		}
		eff := origin
		if eff == "" {
			eff = "openconfig"
		}
		full := append([]string{eff}, idxNoOrigin(prefix, path)...)
		// a data tree has no node that is both a leaf and a branch
		clash := false
		for _, u := range used {
			k := len(u)
			if len(full) < k {
				k = len(full)
			}
			if len(u) != len(full) && strings.Join(u[:k], "\x00") == strings.Join(full[:k], "\x00") {
				clash = true
			}
		}
		if clash {
			continue
		}
		used = append(used, full)
		for k, pe := range elems {
			if len(pe.Key) > 0 && len(path.GetElement()) == 0 && (prefix == nil || len(prefix.GetElement()) == 0) {
				e.keyed[t] = append(e.keyed[t], elems[:k+1])
				break
			}
		}
		n := &pb.Notification{Timestamp: time.Now().UnixNano() + int64(i), Prefix: prefix}
		if r.Intn(6) == 0 && len(path.GetElem()) > 1 {
			// the replace idiom: one notification deletes a container and re-asserts a leaf beneath it
			// (the delete removes what was there before, not what the same notification brings)
			dp := &pb.Path{Elem: path.GetElem()[:len(path.GetElem())-1]}
			v := genPipeVal(r)
			n.Delete = []*pb.Path{dp}
			n.Update = []*pb.Update{{Path: path, Val: v.tv}}
			e.w.Emit(trace.E{"ev": "tsend", "t": t, "k": "del", "p": append([]string{eff}, idxNoOrigin(prefix, dp)...)})
			e.w.Emit(trace.E{"ev": "tsend", "t": t, "k": "upd", "p": full, "val": v.tok, "gval": v.gtok})
			dropLive(append([]string{eff}, idxNoOrigin(prefix, dp)...))
		} else if r.Intn(5) == 0 {
			// delete: the leaf itself or its parent subtree
			dp := path
			fullDel := full
			if r.Intn(2) == 0 && len(path.GetElem()) > 1 {
				dp = &pb.Path{Elem: path.GetElem()[:len(path.GetElem())-1]}
				fullDel = append([]string{eff}, idxNoOrigin(prefix, dp)...)
			}
			n.Delete = []*pb.Path{dp}
			e.w.Emit(trace.E{"ev": "tsend", "t": t, "k": "del", "p": fullDel})
			dropLive(fullDel)
		} else {
			v := genPipeVal(r)
			n.Update = []*pb.Update{{Path: path, Val: v.tv}}
			e.w.Emit(trace.E{"ev": "tsend", "t": t, "k": "upd", "p": full, "val": v.tok, "gval": v.gtok})
			dropLive(full)
			if len(path.GetElement()) == 0 && (prefix == nil || len(prefix.GetElement()) == 0) {
				live = append(live, liveLeaf{full: full, origin: origin, elems: elems, val: v, ts: n.Timestamp})
			}
		}
		pt.script = append(pt.script, &pb.SubscribeResponse{Response: &pb.SubscribeResponse_Update{Update: n}})
		if r.Intn(6) == 0 {
			// an atomic container: one notification, the container in the prefix, two or three members;
			// sent again later with every member re-asserted (the containers have names of their own)
			cname := fmt.Sprintf("atom%d", r.Intn(2))
			aorigin := []string{"", "openconfig", "vendor"}[r.Intn(3)]
			aeff := aorigin
			if aeff == "" {
				aeff = "openconfig"
			}
			an := &pb.Notification{Timestamp: time.Now().UnixNano() + int64(i), Atomic: true,
				Prefix: &pb.Path{Origin: aorigin, Elem: []*pb.PathElem{{Name: cname}}}}
			if prev, ok := e.atomOrigin[t+"/"+cname]; ok && prev != aeff {
				continue // one origin per container
			}
			e.atomOrigin[t+"/"+cname] = aeff
			var avals []pipeVal
			for _, m := range []string{"m1", "m2", "m3"}[:2+r.Intn(2)] {
				if len(an.Update) > 0 && e.atomMembers[t+"/"+cname] == 2 && m == "m3" {
					break
				}
				v := genPipeVal(r)
				avals = append(avals, v)
				an.Update = append(an.Update, &pb.Update{Path: &pb.Path{Elem: []*pb.PathElem{{Name: m}}}, Val: v.tv})
			}
			if k, ok := e.atomMembers[t+"/"+cname]; ok && k != len(an.Update) {
				continue // the member set of a container does not change
			}
			e.atomMembers[t+"/"+cname] = len(an.Update)
			for k := range an.Update {
				e.w.Emit(trace.E{"ev": "tsend", "t": t, "k": "upd", "p": []string{aeff, cname, []string{"m1", "m2", "m3"}[k]}, "val": avals[k].tok, "gval": avals[k].gtok})
			}
			e.atoms = true
			pt.script = append(pt.script, &pb.SubscribeResponse{Response: &pb.SubscribeResponse_Update{Update: an}})
		}
	}
	if sessionMode == 1 && len(pt.script) > 0 {
		pt.dropAt = 1 + r.Intn(len(pt.script))
		e.w.Emit(trace.E{"ev": "redial", "t": t})
	} else if e.eofCut[t] > 0 {
		pt.eofAt = e.eofCut[t]
	}
}

func idxNoOrigin(prefix, path *pb.Path) []string {
	return append(elemsOf(prefix), elemsOf(path)...)
}

func (e *pipeEnv) startCollector(certFile, keyFile string) error {
	var cfg bytes.Buffer
	cfg.WriteString("request: { key: \"r1\" value: { subscribe: { prefix: {} subscription: { path: { elem: { name: \"*\" } } } } } }\n")
	cfg.WriteString("request: { key: \"r2\" value: { subscribe: { prefix: {} subscription: { path: {} } } } }\n")
	for i, t := range e.names {
		req := "r1"
		if i%2 == 1 && e.r.Intn(2) == 0 {
			req = "r2" // distinct requests for some targets
		}
		fmt.Fprintf(&cfg, "target: { key: %q value: { addresses: %q request: %q } }\n", t, e.targets[t].addr, req)
	}
	cf := filepath.Join(e.dir, "collector.cfg")
	os.WriteFile(cf, cfg.Bytes(), 0o600)
	e.port = freePort()
	e.coll = exec.Command(filepath.Join(e.bin, "gnmi_collector"), "-config_file", cf, "-cert_file", certFile, "-key_file", keyFile,
		"-port", strconv.Itoa(e.port), "-logtostderr=false", "-log_dir", e.dir, "-dial_timeout", "10s")
	e.coll.Stdout, e.coll.Stderr = nil, nil
	if err := e.coll.Start(); err != nil {
		return err
	}
	deadline := time.Now().Add(15 * time.Second)
	for time.Now().Before(deadline) {
		c, err := net.DialTimeout("tcp", fmt.Sprintf("127.0.0.1:%d", e.port), 200*time.Millisecond)
		if err == nil {
			c.Close()
			return nil
		}
		time.Sleep(50 * time.Millisecond)
	}
	return fmt.Errorf("collector did not start listening")
}

func (e *pipeEnv) query(target string, typ client.Type) client.Query {
	qs := []client.Path{{"*"}}
	if e.atoms {
		// overlapping subscription paths: the walk meets the containers twice (coalesced, duplicates reported)
		qs = append(qs, client.Path{"*", "atom0"}, client.Path{"*", "atom1"})
	}
	return client.Query{Addrs: []string{fmt.Sprintf("127.0.0.1:%d", e.port)}, Target: target, Queries: qs, Type: typ,
		TLS: &tls.Config{InsecureSkipVerify: true}, Timeout: 10 * time.Second}
}

// libView streams one target through client.CacheClient until that target's sentinel shows its
// final value, then reads the client's tree.
func (e *pipeEnv) libView(target string, typ client.Type, want int64) ([]pipeLeaf, bool) {
	c := client.New()
	defer c.Close()
	ctx, cancel := context.WithTimeout(context.Background(), 25*time.Second)
	defer cancel()
	q := e.query(target, typ)
	q.NotificationHandler = func(client.Notification) error { return nil }
	errc := make(chan error, 1)
	go func() { errc <- c.Subscribe(ctx, q, gclient.Type) }()
	ok := false
	deadline := time.Now().Add(20 * time.Second)
	for time.Now().Before(deadline) {
		if typ == client.Once {
			select {
			case err := <-errc:
				ok = err == nil
				deadline = time.Now()
				continue
			default:
			}
		} else {
			for _, l := range c.Leaves() {
				if len(l.Path) > 0 && l.Path[len(l.Path)-1] == pipeSentinel && l.Path[0] == target {
					if v, _ := l.Val.(int64); v >= want {
						ok = true
					}
				}
			}
			if ok {
				break
			}
		}
		time.Sleep(20 * time.Millisecond)
	}
	out := []pipeLeaf{}
	for _, l := range c.Leaves() {
		if len(l.Path) < 1 || skipLeaf(l.Path[1:]) {
			continue
		}
		out = append(out, pipeLeaf{T: l.Path[0], P: trace.Strs(l.Path[1:]), Val: scalarTokClient(l.Val)})
	}
	return out, ok
}

// cliProto runs gnmi_cli with proto display and parses the SubscribeResponses it prints.
func (e *pipeEnv) cli(args ...string) (string, bool) {
	base := []string{"-a", fmt.Sprintf("127.0.0.1:%d", e.port), "-tls_skip_verify", "-timeout", "10s", "-logtostderr=false", "-log_dir", e.dir}
	cmd := exec.Command(filepath.Join(e.bin, "gnmi_cli"), append(base, args...)...)
	var out bytes.Buffer
	cmd.Stdout = &out
	cmd.Stderr = &out
	done := make(chan error, 1)
	go func() { done <- cmd.Run() }()
	select {
	case err := <-done:
		return out.String(), err == nil
	case <-time.After(20 * time.Second):
		cmd.Process.Kill()
		return out.String(), false
	}
}

func parseProtoDisplay(s string) ([]pipeLeaf, bool) {
	// responses are separated by blank lines
	view := map[string]pipeLeaf{}
	ok := true
	for _, chunk := range strings.Split(s, "\n\n") {
		chunk = strings.TrimSpace(chunk)
		if chunk == "" {
			continue
		}
		resp := &pb.SubscribeResponse{}
		if err := prototext.Unmarshal([]byte(chunk), resp); err != nil {
			ok = false
			continue
		}
		n := resp.GetUpdate()
		if n == nil {
			continue
		}
		t := n.GetPrefix().GetTarget()
		for _, u := range n.GetUpdate() {
			p := idxPath(n.GetPrefix(), u.GetPath())
			if skipLeaf(p) {
				continue
			}
			view[t+"\x00"+strings.Join(p, "\x00")] = pipeLeaf{T: t, P: p, Val: valTok(u.GetVal())}
		}
	}
	out := []pipeLeaf{}
	for _, l := range view {
		out = append(out, l)
	}
	sort.Slice(out, func(i, j int) bool { return fmt.Sprint(out[i]) < fmt.Sprint(out[j]) })
	return out, ok
}

func parseGroupDisplay(s string) ([]pipeLeaf, bool) {
	dec := json.NewDecoder(strings.NewReader(s))
	dec.UseNumber()
	var root map[string]interface{}
	if err := dec.Decode(&root); err != nil {
		return []pipeLeaf{}, false
	}
	out := []pipeLeaf{}
	var walk func(t string, p []string, v interface{})
	walk = func(t string, p []string, v interface{}) {
		switch x := v.(type) {
		case map[string]interface{}:
			for k, c := range x {
				if t == "" {
					walk(k, nil, c)
				} else {
					walk(t, append(append([]string{}, p...), k), c)
				}
			}
		default:
			if skipLeaf(p) {
				return
			}
			tok := ""
			switch y := v.(type) {
			case json.Number:
				tok = y.String()
			case string:
				b, _ := json.Marshal(y)
				tok = string(b)
			case bool:
				tok = strconv.FormatBool(y)
			default:
				tok = "" // lists etc.: not compared in this display
			}
			out = append(out, pipeLeaf{T: t, P: p, Val: tok})
		}
	}
	walk("", nil, root)
	sort.Slice(out, func(i, j int) bool { return fmt.Sprint(out[i]) < fmt.Sprint(out[j]) })
	return out, true
}

func pipelineOne(w *trace.Writer, bin, dir string, seed int64) error {
	r := rand.New(rand.NewSource(seed))
	e := &pipeEnv{w: w, bin: bin, dir: dir, r: r, targets: map[string]*pipeTarget{}, atomOrigin: map[string]string{}, atomMembers: map[string]int{}, keyed: map[string][][]*pb.PathElem{}, eofCut: map[string]int{}}
	certFile, keyFile, cert, err := selfSigned(dir)
	if err != nil {
		return err
	}
	nt := 1 + r.Intn(3)
	for i := 0; i < nt; i++ {
		name := []string{"dev1", "dev2", "dev10"}[i]
		lis, err := net.Listen("tcp", "127.0.0.1:0")
		if err != nil {
			return err
		}
		pt := &pipeTarget{addr: lis.Addr().String()}
		pt.srv = grpc.NewServer(grpc.Creds(credentials.NewTLS(&tls.Config{Certificates: []tls.Certificate{cert}})))
		pb.RegisterGNMIServer(pt.srv, pt)
		go pt.srv.Serve(lis)
		defer pt.srv.Stop()
		e.targets[name] = pt
		e.names = append(e.names, name)
	}
	w.Emit(trace.E{"ev": "config", "targets": trace.Strs(e.names), "seed": seed})
	for _, t := range e.names {
		e.genScript(t)
	}
	if err := e.startCollector(certFile, keyFile); err != nil {
		return err
	}
	defer func() { e.coll.Process.Kill(); e.coll.Wait() }()
	final := func(t string) int64 {
		if e.targets[t].dropAt > 0 || e.targets[t].eofAt > 0 {
			return 2
		}
		return 1
	}
	view := func(who, scope, kind string, leaves []pipeLeaf, ok bool) {
		w.Emit(trace.E{"ev": "view", "who": who, "scope": scope, "kind": kind, "leaves": leaves, "ok": ok, "sub": []string{}})
	}
	// library client, STREAM, one target after the other: establishes quiescence (sentinels) for all targets
	for _, t := range e.names {
		lv, ok := e.libView(t, client.Stream, final(t))
		view("lib_stream", t, "typed", lv, ok)
	}
	// library client, ONCE
	t0 := e.names[r.Intn(len(e.names))]
	lv, ok := e.libView(t0, client.Once, 0)
	view("lib_once", t0, "typed", lv, ok)
	// the CLI, three equivalent ways of handing over the same ONCE subscription
	reqText := fmt.Sprintf(`subscribe: { prefix: { target: %q } mode: ONCE subscription: { path: { elem: { name: "*" } } } }`, t0)
	qflag := "*"
	if e.atoms {
		reqText = fmt.Sprintf(`subscribe: { prefix: { target: %q } mode: ONCE subscription: { path: { elem: { name: "*" } } } `+
			`subscription: { path: { elem: { name: "*" } elem: { name: "atom0" } } } subscription: { path: { elem: { name: "*" } elem: { name: "atom1" } } } }`, t0)
		qflag = "*,*/atom0,*/atom1"
	}
	pf := filepath.Join(dir, "req.txt")
	os.WriteFile(pf, []byte(reqText), 0o600)
	for _, inv := range [][]string{
		{"cli_flags", "-t", t0, "-q", qflag, "-qt", "once", "-dt", "p"},
		{"cli_proto", "-proto", reqText, "-dt", "p"},
		{"cli_proto_file", "-proto_file", pf, "-dt", "p"},
	} {
		outS, ok := e.cli(inv[1:]...)
		lv, pok := parseProtoDisplay(outS)
		view(inv[0], t0, "typed", lv, ok && pok)
	}
	// a sub-tree handed over as a query flag: list keys in brackets (their values may contain the delimiter), any origin
	if ks := e.keyed[t0]; len(ks) > 0 {
		el := ks[r.Intn(len(ks))]
		parts := []string{"*"}
		for _, pe := range el {
			str := pe.Name
			names := []string{}
			for k := range pe.Key {
				names = append(names, k)
			}
			sort.Strings(names)
			for _, k := range names {
				str += "[" + k + "=" + pe.Key[k] + "]"
			}
			parts = append(parts, str)
		}
		outS, ok := e.cli("-t", t0, "-q", strings.Join(parts, "/"), "-qt", "once", "-dt", "p")
		lv, pok := parseProtoDisplay(outS)
		w.Emit(trace.E{"ev": "view", "who": "cli_flags_subtree", "scope": t0, "kind": "typed", "leaves": lv, "ok": ok && pok,
			"sub": elemsOf(&pb.Path{Elem: el})})
	}
	outS, ok := e.cli("-t", t0, "-q", qflag, "-qt", "once", "-dt", "g")
	gl, pok := parseGroupDisplay(outS)
	// leaves whose rendering is not compared in the group display are dropped on both sides
	w.Emit(trace.E{"ev": "view", "who": "cli_flags_group", "scope": t0, "kind": "group", "leaves": gl, "ok": ok && pok, "sub": []string{}})
	return nil
}

func pipelineRun(args []string) error {
	fs := flag.NewFlagSet("pipeline run", flag.ContinueOnError)
	n := fs.Int("n", 1, "configurations")
	bin := fs.String("bin", "", "directory with gnmi_collector and gnmi_cli built from the working tree")
	out := fs.String("out", "", "output directory")
	par := fs.Int("par", 4, "configurations run in parallel")
	if err := fs.Parse(args); err != nil {
		return err
	}
	ss, err := newShards(*out, "pipe", *par)
	if err != nil {
		return err
	}
	seed := seedFromEnv()
	var wg sync.WaitGroup
	var mu sync.Mutex
	var firstErr error
	for s := 0; s < *par; s++ {
		wg.Add(1)
		go func(s int) {
			defer wg.Done()
			for i := s; i < *n; i += *par {
				dir, _ := os.MkdirTemp(*out, "run")
				if err := pipelineOne(ss.ws[s], *bin, dir, seed*6089+int64(i)); err != nil {
					mu.Lock()
					if firstErr == nil {
						firstErr = err
					}
					mu.Unlock()
				}
				os.RemoveAll(dir)
			}
		}(s)
	}
	wg.Wait()
	ev := ss.close()
	if firstErr != nil {
		return firstErr
	}
	fmt.Printf("DRV pipeline run configs=%d events=%d\n", *n, ev)
	return nil
}

func pipelineMain(args []string) error {
	if len(args) == 0 || args[0] != "run" {
		return fmt.Errorf("pipeline: mode must be run")
	}
	return pipelineRun(args[1:])
}
