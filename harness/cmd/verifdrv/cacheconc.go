package main

import (
	"errors"
	"flag"
	"fmt"
	"math/rand"
	"sync"
	"sync/atomic"
	"time"

	"github.com/openconfig/gnmi/cache"
	"github.com/openconfig/gnmi/ctree"
	"github.com/openconfig/gnmi/metadata"
	"verifharness/internal/trace"
)

// cache conc (C15, concurrent-refresh clause): one update stream per target, as the collector
// has, running concurrently with the periodic refreshers (UpdateMetadata, UpdateSize) and with
// readers (Query, Metadata). Built with -race this is the execution the race detector monitors;
// after the goroutines have joined the counters are read back and logged for TLC
// (CacheConcTrace.tla): leaf count = non-metadata leaves stored = added - deleted.
//
//   verifdrv cache conc -n N -out DIR -shards K

// created once, before any goroutine starts: the option registers metadata names in package-level maps
var cacheConcLatOpt cache.Option

func cacheConcScenario(w *trace.Writer, seed int64, sc int) {
	r := rand.New(rand.NewSource(seed))
	targets := []string{"dev1", "dev2", "dev10"}[:2+r.Intn(2)]
	opts := []cache.Option{}
	if r.Intn(2) == 0 && cacheConcLatOpt != nil {
		opts = append(opts, cacheConcLatOpt, cache.WithAvgLatencyPrecision(time.Microsecond))
	}
	ed := r.Intn(2) == 0
	if !ed {
		opts = append(opts, cache.DisableEventDrivenEmulation())
	}
	c := cache.New(targets, opts...)
	var fed int64
	c.SetClient(func(*ctree.Leaf) { atomic.AddInt64(&fed, 1) })
	var wg sync.WaitGroup
	stop := make(chan struct{})
	var nops int64
	for i, t := range targets {
		wg.Add(1)
		go func(t string, seed int64) {
			defer wg.Done()
			gr := rand.New(rand.NewSource(seed))
			g := &cacheGen{r: gr, targets: []string{t}, w: cacheProfiles["meta"], tsDense: gr.Intn(2) == 0}
			pool := pathPool{}
			now := int64(10)
			for k := 0; k < 60; k++ {
				o := g.op(&now)
				switch o.Op {
				case "GnmiUpdate":
					if o.Prefix == nil || o.Prefix.Target != t {
						continue
					}
					c.GnmiUpdate(pool.notification(o))
				case "Sync":
					c.Sync(t)
				case "Connect":
					c.Connect(t)
				case "ConnectError":
					c.ConnectError(t, errors.New(o.Msg))
				case "Reset":
					c.Reset(t)
				default:
					continue // the refreshers and readers below do the rest; targets are not added/removed here
				}
				atomic.AddInt64(&nops, 1)
			}
		}(t, seed*131+int64(i))
	}
	var bg sync.WaitGroup
	for _, f := range []func(){
		func() { c.UpdateMetadata() },
		func() { c.UpdateSize() },
		func() {
			c.Query("*", []string{"*"}, func(_ []string, _ *ctree.Leaf, v interface{}) error { _ = v; return nil })
			for _, m := range c.Metadata() {
				m.GetInt(metadata.LeafCount)
				m.GetBool(metadata.Sync)
			}
		},
	} {
		bg.Add(1)
		go func(f func()) {
			defer bg.Done()
			for {
				select {
				case <-stop:
					return
				default:
					f()
				}
			}
		}(f)
	}
	wg.Wait()
	close(stop)
	bg.Wait()
	fin := []trace.E{}
	md := c.Metadata()
	for _, t := range targets {
		nonmeta := 0
		c.Query(t, []string{"*"}, func(p []string, _ *ctree.Leaf, _ interface{}) error {
			if !isMetaIdx(p) {
				nonmeta++
			}
			return nil
		})
		gi := func(k string) int64 { v, _ := md[t].GetInt(k); return v }
		fin = append(fin, trace.E{"t": t, "leaves": gi(metadata.LeafCount), "added": gi(metadata.AddCount), "deleted": gi(metadata.DelCount), "nonmeta": nonmeta})
	}
	w.Emit(trace.E{"ev": "concfinal", "sc": sc, "ed": ed, "ops": atomic.LoadInt64(&nops), "fed": atomic.LoadInt64(&fed), "targets": fin})
}

func cacheConc(args []string) error {
	fs := flag.NewFlagSet("cache conc", flag.ContinueOnError)
	n := fs.Int("n", 200, "scenarios")
	out := fs.String("out", "", "output directory")
	shards := fs.Int("shards", 8, "trace files")
	if err := fs.Parse(args); err != nil {
		return err
	}
	ss, err := newShards(*out, "cconc", *shards)
	if err != nil {
		return err
	}
	seed := seedFromEnv()
	// windows of a few milliseconds: within a scenario they get covered, slide and export (with windows of seconds
	// the refresh never gets past the initial-coverage test and the export code is not executed at all)
	if o, err := cache.WithLatencyWindows([]string{"2ms", "4ms"}, 2*time.Millisecond); err == nil {
		cacheConcLatOpt = o
	}
	// one cache at a time, as in the collector: creating a cache registers metadata names in
	// package-level maps, which is start-up work and not part of the property
	for i := 0; i < *n; i++ {
		cacheConcScenario(ss.ws[i%len(ss.ws)], seed*7907+int64(i), i)
	}
	ev := ss.close()
	fmt.Printf("DRV cache conc scenarios=%d events=%d\n", *n, ev)
	return nil
}
