package main

import (
	"crypto/sha1"
	"encoding/hex"
	"fmt"
	"sort"
	"strconv"
	"strings"

	"google.golang.org/protobuf/proto"

	pb "github.com/openconfig/gnmi/proto/gnmi"
)

// Projection helpers shared by the gNMI-level drivers. They translate protobuf
// messages into the vocabulary of the specifications (index paths, opaque value
// tokens); they take no decisions.

// elemsOf returns the index strings of a path without target and origin: element
// names each followed by its key values ordered by key name; the deprecated
// element field is used only when elem is empty.
func elemsOf(p *pb.Path) []string {
	out := []string{}
	if p == nil {
		return out
	}
	if len(p.GetElem()) == 0 {
		return append(out, p.GetElement()...)
	}
	for _, e := range p.GetElem() {
		out = append(out, e.GetName())
		ks := make([]string, 0, len(e.GetKey()))
		for k := range e.GetKey() {
			ks = append(ks, k)
		}
		sort.Strings(ks)
		for _, k := range ks {
			out = append(out, e.GetKey()[k])
		}
	}
	return out
}

// idxPath is the index path of (prefix, path) inside a target: prefix origin if
// set, then prefix elements, then path elements.
func idxPath(prefix, path *pb.Path) []string {
	out := []string{}
	if o := prefix.GetOrigin(); o != "" {
		out = append(out, o)
	}
	out = append(out, elemsOf(prefix)...)
	return append(out, elemsOf(path)...)
}

func hashTok(m ...proto.Message) string {
	h := sha1.New()
	for _, x := range m {
		b, err := proto.MarshalOptions{Deterministic: true}.Marshal(x)
		if err != nil {
			panic(err)
		}
		fmt.Fprintf(h, "%d:", len(b))
		h.Write(b)
	}
	return hex.EncodeToString(h.Sum(nil))[:10]
}

// encTok identifies the wire encoding of (prefix, path): two notifications with
// equal timestamp, value and encoding token are identical.
func encTok(prefix, path *pb.Path) string {
	if prefix == nil {
		prefix = &pb.Path{}
	}
	if path == nil {
		path = &pb.Path{}
	}
	return hashTok(prefix, path)
}

// valTok renders a TypedValue as an opaque token "arm:payload".
func valTok(v *pb.TypedValue) string {
	if v == nil {
		return "none:"
	}
	switch x := v.GetValue().(type) {
	case nil:
		return "none:"
	case *pb.TypedValue_StringVal:
		return "string:" + x.StringVal
	case *pb.TypedValue_IntVal:
		return "int:" + strconv.FormatInt(x.IntVal, 10)
	case *pb.TypedValue_UintVal:
		return "uint:" + strconv.FormatUint(x.UintVal, 10)
	case *pb.TypedValue_BoolVal:
		return "bool:" + strconv.FormatBool(x.BoolVal)
	case *pb.TypedValue_BytesVal:
		return "bytes:" + hex.EncodeToString(x.BytesVal)
	case *pb.TypedValue_FloatVal:
		return "float:" + strconv.FormatFloat(float64(x.FloatVal), 'g', -1, 32)
	case *pb.TypedValue_DoubleVal:
		return "double:" + strconv.FormatFloat(x.DoubleVal, 'g', -1, 64)
	case *pb.TypedValue_DecimalVal:
		return fmt.Sprintf("decimal:%d/%d", x.DecimalVal.GetDigits(), x.DecimalVal.GetPrecision())
	case *pb.TypedValue_LeaflistVal:
		parts := []string{}
		for _, e := range x.LeaflistVal.GetElement() {
			parts = append(parts, valTok(e))
		}
		return "leaflist:[" + strings.Join(parts, ",") + "]"
	case *pb.TypedValue_JsonVal:
		return "json:" + string(x.JsonVal)
	case *pb.TypedValue_JsonIetfVal:
		return "json_ietf:" + string(x.JsonIetfVal)
	case *pb.TypedValue_AsciiVal:
		return "ascii:" + x.AsciiVal
	case *pb.TypedValue_AnyVal:
		return "any:" + hashTok(x.AnyVal)
	case *pb.TypedValue_ProtoBytes:
		return "proto:" + hex.EncodeToString(x.ProtoBytes)
	}
	return fmt.Sprintf("other:%T", v.GetValue())
}

// atomicTok renders the content of an atomic notification (all its updates).
func atomicTok(n *pb.Notification) string {
	parts := []string{}
	for _, u := range n.GetUpdate() {
		parts = append(parts, strings.Join(elemsOf(u.GetPath()), "/")+"="+valTok(u.GetVal()))
	}
	return "atomic:{" + strings.Join(parts, ";") + "}"
}

func isMetaIdx(p []string) bool { return len(p) > 0 && p[0] == "meta" }

// normMetaTok maps the exported "no timestamp yet" value (time.Time{}.UnixNano(),
// a negative number) to 0: the specification calls that state "unset".
func normMetaTok(p []string, tok string) string {
	if len(p) == 2 && p[0] == "meta" && p[1] == "latestTimestamp" && strings.HasPrefix(tok, "int:-") {
		return "int:0"
	}
	return tok
}

func pathElems(names ...string) []*pb.PathElem {
	out := make([]*pb.PathElem, 0, len(names))
	for _, n := range names {
		out = append(out, &pb.PathElem{Name: n})
	}
	return out
}
