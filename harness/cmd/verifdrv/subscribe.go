package main

import (
	"bufio"
	"context"
	"encoding/json"
	"errors"
	"flag"
	"fmt"
	"io"
	"math/rand"
	"net"
	"os"
	"runtime"
	"sort"
	"strconv"
	"strings"
	"sync"
	"sync/atomic"
	"time"

	"google.golang.org/grpc/metadata"
	"google.golang.org/grpc/peer"
	"google.golang.org/grpc/status"

	"github.com/openconfig/gnmi/cache"
	"github.com/openconfig/gnmi/coalesce"
	"github.com/openconfig/gnmi/ctree"
	pb "github.com/openconfig/gnmi/proto/gnmi"
	"github.com/openconfig/gnmi/subscribe"
	"verifharness/internal/trace"
)

// subscribe family (C04, C05, C06 server part, C07, C08, C14 stream clause):
// a real cache.Cache wired to a real subscribe.Server; subscribers are
// in-memory GNMI_SubscribeServer streams owned by the driver; writers are
// driver goroutines (one per target, as in the collector).
//
//   verifdrv subscribe random -profile P -n N -out DIR -shards K
//   verifdrv subscribe replay -scenario F -out FILE

func init() { register("subscribe", subscribeMain) }

const sentinelName = "zzsent"

// sentinelTarget exists in every scenario's cache, is never removed and is allowed to every
// user: a '*' subscription can always be synchronised through it, even when every real
// target has been removed.
const sentinelTarget = "zzt"

// ---- scenario description ----

type subDesc struct {
	Name        string     `json:"name"`
	Mode        string     `json:"mode"` // stream | once | poll
	Target      string     `json:"target"`
	Origin      string     `json:"origin,omitempty"` // prefix origin of the request
	Paths       []pathDesc `json:"paths"`
	UpdatesOnly bool       `json:"uo,omitempty"`
	User        string     `json:"user,omitempty"`
	// PrefixElems: path elements carried in the prefix of the request (they apply to every subscription path).
	PrefixElems []elemDesc `json:"pe,omitempty"`
	// Stall: during these phases every Send of the subscriber blocks at a driver gate.
	// Kind "transient": the gate opens once the phase's writers are done; "permanent":
	// it never opens (the server's send timeout has to end the RPC).
	StallPhases []int  `json:"stall_phases,omitempty"`
	StallKind   string `json:"stall_kind,omitempty"`
}

type subPhase struct {
	Start   []string             `json:"start,omitempty"`
	Writers map[string][]cacheOp `json:"writers,omitempty"`
	Polls   map[string]int       `json:"polls,omitempty"`
	End     []string             `json:"end,omitempty"` // client half-close (EOF) / cancel
}

type subScenario struct {
	Sc        int                 `json:"sc"`
	Targets   []string            `json:"targets"`
	Ed        bool                `json:"ed"`
	TimeoutMs int                 `json:"timeout_ms"`
	IdleMs    int                 `json:"idle_ms,omitempty"` // silence (longer than the send timeout) between the phases and before the end
	ACL       map[string][]string `json:"acl,omitempty"` // user -> allowed targets; absent: no ACL installed
	ACLErr    []string            `json:"acl_err,omitempty"`
	Prelude   []cacheOp           `json:"prelude,omitempty"`
	Subs      []subDesc           `json:"subs"`
	Phases    []subPhase          `json:"phases"`
}

// ---- environment ----

var subClock int64 = 1000

type subEnv struct {
	w     *trace.Writer
	emu   sync.Mutex
	c     *cache.Cache
	srv   *subscribe.Server
	sc    subScenario
	runs  map[string]*subRun
	fmu   sync.Mutex
	fed   map[string][]trace.E // feed entries per target, collected during a writer call
	pools map[string]pathPool  // one per writer (target)
	sent  int64                // sentinel counter
	hung  bool
	// rendezvous of a held-back writer op (cacheOp.AtWalk) with a subscriber's initial walk; both
	// sides wait for each other for a bounded time only
	walk    chan struct{} // walk.begin hook -> writer
	arrive  chan struct{} // writer -> walk.begin hook
	pending int32         // held-back ops of the running phase not yet executed
	// in every other phase the held-back op is aimed at the registration window of a starting stream (between the
	// target check and the registration) instead of its initial walk
	atReg  int32
	opDone chan struct{} // writer -> stream.register hook: the held-back op has been carried out
	over   int32         // set when the scenario has returned
}

// emit serialises emission: file order is a real-time order.
func (e *subEnv) emit(ev trace.E) {
	if atomic.LoadInt32(&e.over) == 1 {
		return // the scenario is over (given up after a hang): stragglers of it must not write into the next one's trace
	}
	e.emu.Lock()
	e.w.Emit(ev)
	e.emu.Unlock()
}

// prefixContainer is a top-level container that is never a leaf: data paths are sometimes put below
// it (cacheGen.dataPath), requests sometimes carry it as prefix element, and a second sentinel lives in it.
const prefixContainer = "p"

func isAuxPath(p []string) bool {
	if isMetaIdx(p) {
		return true
	}
	for _, x := range p {
		if x == sentinelName {
			return true
		}
	}
	return false
}

// kidsOf lists the full index paths the streaming filter matches a notification
// by: the update paths (for an atomic container: the paths of its children).
func kidsOf(n *pb.Notification) [][]string {
	out := [][]string{}
	for _, u := range n.GetUpdate() {
		out = append(out, idxPath(n.GetPrefix(), u.GetPath()))
	}
	return out
}

func feedProj(n *pb.Notification) []trace.E {
	out := []trace.E{}
	for _, del := range n.GetDelete() {
		out = append(out, trace.E{"k": "del", "p": idxPath(n.GetPrefix(), del), "ts": n.GetTimestamp()})
	}
	if len(n.GetUpdate()) > 0 {
		if n.GetAtomic() {
			out = append(out, trace.E{"k": "upd", "p": idxPath(n.GetPrefix(), nil), "ts": n.GetTimestamp(), "val": atomicTok(n), "kids": kidsOf(n)})
		} else {
			for _, u := range n.GetUpdate() {
				p := idxPath(n.GetPrefix(), u.GetPath())
				out = append(out, trace.E{"k": "upd", "p": p, "ts": n.GetTimestamp(), "val": valTok(u.GetVal()), "kids": [][]string{p}})
			}
		}
	}
	return out
}

// offerCtx: goroutine id -> offers per client queue while one feed notification is handed to the
// server (the offer hook runs on the goroutine of the cache's feed callback).
var offerCtx sync.Map

func (e *subEnv) onFeed(l *ctree.Leaf) {
	n, ok := l.Value().(*pb.Notification)
	if !ok {
		e.srv.Update(l)
		return
	}
	id := goid()
	counts := map[interface{}]int{}
	offerCtx.Store(id, counts)
	e.srv.Update(l)
	offerCtx.Delete(id)
	maxoff := 0
	to := []string{}
	for q, c := range counts {
		if c > maxoff {
			maxoff = c
		}
		if v, ok := queueOwner.Load(q); ok {
			to = append(to, v.(*subRun).d.Name)
		}
	}
	sort.Strings(to)
	t := n.GetPrefix().GetTarget()
	e.fmu.Lock()
	for _, x := range feedProj(n) {
		x["aux"] = isAuxPath(x["p"].([]string))
		if x["aux"].(bool) && x["k"] == "upd" {
			x["val"] = "aux"
		}
		x["maxoff"] = maxoff // the most often this one notification was offered to any single client
		x["to"] = to         // the subscribers it was offered to (those whose queue the driver already knows)
		e.fed[t] = append(e.fed[t], x)
	}
	e.fmu.Unlock()
}

func (e *subEnv) takeFed(t string) []trace.E {
	e.fmu.Lock()
	defer e.fmu.Unlock()
	out := e.fed[t]
	e.fed[t] = nil
	if out == nil {
		out = []trace.E{}
	}
	return out
}

// ---- ACL ----

type userKey struct{}

type drvACL struct{ env *subEnv }

type drvRPCACL struct {
	allowed map[string]bool
}

func (a *drvRPCACL) Check(t string) bool { return a.allowed[t] }

func (a *drvACL) NewRPCACL(ctx context.Context) (subscribe.RPCACL, error) {
	u, _ := ctx.Value(userKey{}).(string)
	for _, x := range a.env.sc.ACLErr {
		if x == u {
			return nil, errors.New("no credentials")
		}
	}
	r := &drvRPCACL{allowed: map[string]bool{sentinelTarget: true}}
	for _, t := range a.env.sc.ACL[u] {
		r.allowed[t] = true
	}
	return r, nil
}

func (a *drvACL) Check(string, string) bool { return true }

// ---- subscriber stream ----

type subRun struct {
	d      subDesc
	env    *subEnv
	port   int // of the peer address, unique per subscriber
	ctx    context.Context
	cancel context.CancelFunc
	reqs   chan *pb.SubscribeRequest
	eof    chan struct{}

	mu       sync.Mutex
	cond     *sync.Cond
	sentSeen map[string]int64 // "target|origin" -> highest sentinel value seen
	syncs    int
	nsend    int
	ended    bool
	code     string
	stalled  bool
	gateShut bool
	gateCh   chan struct{}
	started  bool
	queue    *coalesce.Queue // learnt from the send.dequeue hook
	late     int64           // offers to the queue after the RPC returned
}

func (r *subRun) shutGate() {
	r.mu.Lock()
	if !r.gateShut {
		r.gateShut, r.gateCh = true, make(chan struct{})
	}
	r.mu.Unlock()
}

func (r *subRun) openGate() {
	r.mu.Lock()
	if r.gateShut {
		r.gateShut = false
		close(r.gateCh)
	}
	r.mu.Unlock()
}

func (r *subRun) Context() context.Context     { return r.ctx }
func (r *subRun) SetHeader(metadata.MD) error  { return nil }
func (r *subRun) SendHeader(metadata.MD) error { return nil }
func (r *subRun) SetTrailer(metadata.MD)       {}
func (r *subRun) SendMsg(interface{}) error    { return errors.New("not used") }
func (r *subRun) RecvMsg(interface{}) error    { return errors.New("not used") }

func (r *subRun) Recv() (*pb.SubscribeRequest, error) {
	select {
	case q := <-r.reqs:
		return q, nil
	case <-r.eof:
		return nil, io.EOF
	case <-r.ctx.Done():
		return nil, r.ctx.Err()
	}
}

func (r *subRun) Send(resp *pb.SubscribeResponse) error {
	// Log what is handed to Send, at entry. Emission happens under r.mu and the
	// end of the RPC is recorded under the same lock, so no send event of this
	// subscriber can follow its subend event (a sender goroutine may outlive the RPC).
	r.mu.Lock()
	if r.ended {
		r.mu.Unlock()
		return errors.New("stream closed")
	}
	r.nsend++
	k := r.nsend
	switch x := resp.GetResponse().(type) {
	case *pb.SubscribeResponse_SyncResponse:
		r.env.emit(trace.E{"ev": "send", "s": r.d.Name, "k": "sync", "n": k})
	case *pb.SubscribeResponse_Update:
		n := x.Update
		t := n.GetPrefix().GetTarget()
		for _, del := range n.GetDelete() {
			p := idxPath(n.GetPrefix(), del)
			r.env.emit(trace.E{"ev": "send", "s": r.d.Name, "k": "del", "t": t, "p": p, "ts": n.GetTimestamp(), "aux": isAuxPath(p), "n": k})
		}
		if len(n.GetUpdate()) > 0 {
			var p []string
			var tok string
			if n.GetAtomic() {
				p, tok = idxPath(n.GetPrefix(), nil), atomicTok(n)
			} else {
				p, tok = idxPath(n.GetPrefix(), n.GetUpdate()[0].GetPath()), valTok(n.GetUpdate()[0].GetVal())
			}
			aux := isAuxPath(p)
			if aux && !isMetaIdx(p) {
				tok = "sentinel" // the counter value is irrelevant to the specification
			}
			if aux && isMetaIdx(p) {
				tok = "meta"
			}
			kids := [][]string{p}
			if n.GetAtomic() {
				kids = kidsOf(n)
			}
			r.env.emit(trace.E{"ev": "send", "s": r.d.Name, "k": "upd", "t": t, "p": p, "ts": n.GetTimestamp(), "val": tok,
				"dup": n.GetUpdate()[0].GetDuplicates(), "aux": aux, "n": k, "kids": kids})
		}
	default:
		r.env.emit(trace.E{"ev": "send", "s": r.d.Name, "k": "other", "n": k})
	}
	r.mu.Unlock()
	// Driver gate: a stalled subscriber blocks inside Send.
	r.mu.Lock()
	shut, ch := r.gateShut, r.gateCh
	if shut {
		r.stalled = true
		r.env.emit(trace.E{"ev": "stall", "s": r.d.Name, "n": k, "kind": r.d.StallKind})
		r.cond.Broadcast()
	}
	r.mu.Unlock()
	if shut {
		select {
		case <-ch:
		case <-r.ctx.Done():
		}
		r.mu.Lock()
		r.stalled = false
		if !r.ended {
			r.env.emit(trace.E{"ev": "resume", "s": r.d.Name, "n": k})
		}
		r.mu.Unlock()
		if r.ctx.Err() != nil {
			return r.ctx.Err()
		}
	}
	// Bookkeeping for the driver's own synchronisation (sentinels, syncs).
	r.mu.Lock()
	switch x := resp.GetResponse().(type) {
	case *pb.SubscribeResponse_SyncResponse:
		r.syncs++
	case *pb.SubscribeResponse_Update:
		n := x.Update
		if len(n.GetUpdate()) > 0 && !n.GetAtomic() {
			p := idxPath(n.GetPrefix(), n.GetUpdate()[0].GetPath())
			if len(p) > 0 && p[len(p)-1] == sentinelName {
				key := n.GetPrefix().GetTarget() + "|" + n.GetPrefix().GetOrigin()
				if v := n.GetUpdate()[0].GetVal().GetIntVal(); v > r.sentSeen[key] {
					r.sentSeen[key] = v
				}
			}
		}
	}
	r.cond.Broadcast()
	r.mu.Unlock()
	return nil
}

func (r *subRun) request() *pb.SubscribeRequest {
	sl := &pb.SubscriptionList{Prefix: &pb.Path{Target: r.d.Target, Origin: r.d.Origin}, UpdatesOnly: r.d.UpdatesOnly}
	if len(r.d.PrefixElems) > 0 {
		sl.Prefix.Elem = pathPool{}.build(&pathDesc{Elems: r.d.PrefixElems}).GetElem()
	}
	switch r.d.Mode {
	case "once":
		sl.Mode = pb.SubscriptionList_ONCE
	case "poll":
		sl.Mode = pb.SubscriptionList_POLL
	default:
		sl.Mode = pb.SubscriptionList_STREAM
	}
	pp := pathPool{}
	for i := range r.d.Paths {
		sl.Subscription = append(sl.Subscription, &pb.Subscription{Path: pp.build(&r.d.Paths[i])})
	}
	// Every subscription also covers the driver's sentinel leaf (see quiesce).
	sl.Subscription = append(sl.Subscription, &pb.Subscription{Path: &pb.Path{Elem: pathElems(sentinelName)}})
	return &pb.SubscribeRequest{Request: &pb.SubscribeRequest_Subscribe{Subscribe: sl}}
}

// subPaths renders the subscription paths as index paths (origin first).
func (r *subRun) subPaths() [][]string {
	out := [][]string{}
	pre := elemsOf(pathPool{}.build(&pathDesc{Elems: r.d.PrefixElems}))
	for i := range r.d.Paths {
		pp := pathPool{}
		p := pp.build(&r.d.Paths[i])
		q := []string{}
		if r.d.Origin != "" {
			q = append(q, r.d.Origin)
		} else if p.GetOrigin() != "" {
			q = append(q, p.GetOrigin())
		}
		q = append(q, pre...)
		out = append(out, append(q, elemsOf(p)...))
	}
	// the sentinel path is part of the request (see request)
	if r.d.Origin != "" {
		out = append(out, append(append([]string{r.d.Origin}, pre...), sentinelName))
	} else {
		out = append(out, append(append([]string{}, pre...), sentinelName))
	}
	return out
}

func (e *subEnv) startSub(r *subRun) {
	r.mu.Lock()
	r.started = true
	r.mu.Unlock()
	go func() {
		e.emit(trace.E{"ev": "substart", "s": r.d.Name, "mode": r.d.Mode, "t": r.d.Target, "paths": r.subPaths(),
			"uo": r.d.UpdatesOnly, "user": r.d.User})
		r.reqs <- r.request()
		err := e.srv.Subscribe(r)
		code := "OK"
		if err != nil {
			if st, ok := status.FromError(err); ok {
				code = st.Code().String()
			} else {
				code = "Error"
			}
			if errors.Is(err, context.Canceled) {
				code = "Canceled"
			}
		}
		r.mu.Lock()
		r.ended, r.code = true, code
		e.emit(trace.E{"ev": "subend", "s": r.d.Name, "code": code})
		r.cond.Broadcast()
		r.mu.Unlock()
		r.cancel() // as a real transport does when the handler returns
	}()
}

// waitFor blocks until pred holds (under r.mu) or the subscriber ended or the
// deadline passed; it reports whether pred held.
func (r *subRun) waitFor(d time.Duration, pred func() bool) bool {
	deadline := time.Now().Add(d)
	timer := time.AfterFunc(d, func() { r.mu.Lock(); r.cond.Broadcast(); r.mu.Unlock() })
	defer timer.Stop()
	r.mu.Lock()
	defer r.mu.Unlock()
	for !pred() {
		if r.ended || (r.stalled && r.gateShut) || time.Now().After(deadline) {
			return pred()
		}
		r.cond.Wait()
	}
	return true
}

// ---- writer operations ----

func (e *subEnv) knownTargets() []string {
	ts := []string{}
	for t := range e.c.Metadata() {
		ts = append(ts, t)
	}
	sort.Strings(ts)
	return ts
}

// targetLess stores, through (*cache.Target).GnmiUpdate (Cache.GnmiUpdate refuses the shape), a notification whose prefix
// names no target, at a path of its own that no other operation addresses. Under an ACL nobody is authorised for the
// target "" (drvRPCACL), so nothing of it may ever be sent; it is not logged - the specification knows nothing of it and
// any response that carries it is a response for a target the caller is not authorised for.
func (e *subEnv) targetLess(t string) {
	if tg := e.c.GetTarget(t); tg != nil {
		tg.GnmiUpdate(&pb.Notification{
			Timestamp: atomic.AddInt64(&subClock, 1),
			Prefix:    &pb.Path{Origin: "oc"},
			Update: []*pb.Update{{Path: &pb.Path{Elem: pathElems("tl", "x")},
				Val: &pb.TypedValue{Value: &pb.TypedValue_IntVal{IntVal: atomic.AddInt64(&subClock, 1)}}}},
		})
	}
}

func (e *subEnv) writerOp(t string, o cacheOp) {
	if e.sc.ACL != nil && o.Op == "GnmiUpdate" && o.Now%4 == 0 {
		e.targetLess(t)
	}
	ev := trace.E{"ev": "winv", "t": t, "op": o.Op}
	var n *pb.Notification
	if o.Op == "GnmiUpdate" {
		n = e.pools[t].notification(o)
		ups, dels := []trace.E{}, []trace.E{}
		if o.Atomic {
			ups = append(ups, trace.E{"p": idxPath(n.Prefix, nil), "val": atomicTok(n), "kids": kidsOf(n)})
		} else {
			for _, u := range n.Update {
				p := idxPath(n.Prefix, u.Path)
				ups = append(ups, trace.E{"p": p, "val": valTok(u.Val), "kids": [][]string{p}})
			}
		}
		for _, dl := range n.Delete {
			dels = append(dels, trace.E{"p": idxPath(n.Prefix, dl)})
		}
		ev["ups"], ev["dels"], ev["ts"] = ups, dels, o.Ts
	}
	if o.AtWalk {
		select {
		case e.arrive <- struct{}{}:
		default:
		}
		select {
		case <-e.walk:
			if atomic.LoadInt32(&e.atReg) == 0 {
				time.Sleep(time.Duration(o.Now%8) * 40 * time.Microsecond)
			}
		case <-time.After(20 * time.Millisecond):
		}
		atomic.AddInt32(&e.pending, -1)
		defer func() {
			select {
			case e.opDone <- struct{}{}:
			default:
			}
		}()
	}
	e.emit(ev)
	res := "ok"
	switch o.Op {
	case "GnmiUpdate":
		res = resClass(e.c.GnmiUpdate(n))
	case "Sync":
		e.c.Sync(t)
	case "Connect":
		e.c.Connect(t)
	case "ConnectError":
		e.c.ConnectError(t, errors.New(o.Msg))
	case "Reset":
		e.c.Reset(t)
	case "Remove":
		e.c.Remove(t)
	case "Add":
		e.c.Add(t)
	case "UpdateMetadata":
		e.c.UpdateMetadata()
	default:
		panic("subscribe: unknown writer op " + o.Op)
	}
	e.emit(trace.E{"ev": "wret", "t": t, "op": o.Op, "res": res, "fed": e.takeFed(t)})
}

func (e *subEnv) writeSentinel(t string, v int64) {
	// below the reserved container first (requests that carry it as prefix element see only that
	// one), the top-level one last: whoever receives both receives the top-level one last
	for _, path := range [][]string{{prefixContainer, sentinelName}, {sentinelName}} {
		for _, origin := range []string{"", "oc"} {
			e.c.GnmiUpdate(&pb.Notification{
				Timestamp: atomic.AddInt64(&subClock, 1),
				Prefix:    &pb.Path{Target: t, Origin: origin},
				Update: []*pb.Update{{Path: &pb.Path{Elem: pathElems(path...)},
					Val: &pb.TypedValue{Value: &pb.TypedValue_IntVal{IntVal: v}}}},
			})
		}
	}
	e.takeFed(t)
}

func (e *subEnv) allowed(r *subRun, t string) bool {
	if e.sc.ACL == nil || t == sentinelTarget {
		return true
	}
	for _, x := range e.sc.ACL[r.d.User] {
		if x == t {
			return true
		}
	}
	return false
}

// quiesce waits until every live, unstalled STREAM subscriber has received
// everything offered so far, then logs the cache content. It relies on the
// queue being FIFO by first pending insertion: two successive sentinel writes
// per target, each awaited, bracket everything offered before them.
func (e *subEnv) quiesce() {
	const bound = 10 * time.Second
	targets := e.knownTargets()
	// a POLL subscription has answered its initial request (or was refused)
	for _, r := range e.sortedRuns() {
		if r.started && r.d.Mode == "poll" {
			if !r.waitFor(bound, func() bool { return r.syncs >= 1 }) && !r.isEnded() && !r.isStalled() {
				e.emit(trace.E{"ev": "hang", "s": r.d.Name, "what": "poll not answered"})
				e.hung = true
			}
		}
	}
	// initial snapshot complete (sync seen) for streams that walk
	for _, r := range e.sortedRuns() {
		if !r.started || r.d.Mode != "stream" {
			continue
		}
		if !r.waitFor(bound, func() bool { return r.syncs >= 1 }) && !r.isEnded() && !r.isStalled() {
			e.emit(trace.E{"ev": "hang", "s": r.d.Name, "what": "no sync_response"})
			e.hung = true
		}
	}
	// a single-target stream whose target was removed must end by itself
	for _, r := range e.sortedRuns() {
		if !r.started || r.d.Mode != "stream" || r.d.Target == "*" || r.isEnded() {
			continue
		}
		known := false
		for _, t := range targets {
			known = known || t == r.d.Target
		}
		if !known && !r.waitFor(bound, func() bool { return r.ended }) && !r.isStalled() {
			e.emit(trace.E{"ev": "hang", "s": r.d.Name, "what": "stream not ended after its target was removed"})
			e.hung = true
		}
	}
	for round := 0; round < 2; round++ {
		v := atomic.AddInt64(&e.sent, 1)
		// the order rotates: whichever target's sentinel a subscriber is handed last (possibly one its ACL
		// denies, which is dropped at send time) is the last thing its sender did before the silence
		for i := range targets {
			e.writeSentinel(targets[(i+int(v))%len(targets)], v)
		}
		for _, r := range e.sortedRuns() {
			if !r.started || r.d.Mode != "stream" {
				continue
			}
			for _, t := range targets {
				if (r.d.Target != "*" && r.d.Target != t) || !e.allowed(r, t) {
					continue
				}
				key := t + "|" + r.d.Origin
				if !r.waitFor(bound, func() bool { return r.sentSeen[key] >= v }) && !r.isEnded() && !r.isStalled() {
					e.emit(trace.E{"ev": "hang", "s": r.d.Name, "what": "update not delivered", "t": t})
					e.hung = true
				}
			}
			// a glob subscription also receives the sentinel of the other origin variant:
			// whatever variant it has ever received must arrive as well
			r.mu.Lock()
			seen := []string{}
			for k := range r.sentSeen {
				seen = append(seen, k)
			}
			r.mu.Unlock()
			for _, k := range seen {
				known := false
				for _, t := range targets {
					known = known || strings.HasPrefix(k, t+"|")
				}
				if known {
					r.waitFor(bound, func() bool { return r.sentSeen[k] >= v })
				}
			}
		}
	}
	proj := []trace.E{}
	for _, t := range e.knownTargets() {
		e.c.Query(t, []string{}, func(p []string, _ *ctree.Leaf, v interface{}) error {
			// (a leaf whose stored notification names no target is the driver's own aside, see targetLess)
			if n, ok := v.(*pb.Notification); ok && e.sc.ACL != nil && n.GetPrefix().GetTarget() == "" {
				return nil
			}
			if !isAuxPath(p) {
				x := projLeaf(t, p, v)
				x["kids"] = [][]string{trace.Strs(p)}
				if n, ok := v.(*pb.Notification); ok && n.GetAtomic() {
					x["kids"] = kidsOf(n)
				}
				proj = append(proj, x)
			}
			return nil
		})
	}
	// a refused RPC has returned by now (its transient share of the statistics is gone)
	for _, r := range e.sortedRuns() {
		if r.started && !r.isStalled() {
			r.waitFor(bound, func() bool { return r.ended || r.syncs >= 1 || r.nsend >= 1 })
		}
	}
	// ... and every live sender has drained its queue and is blocked on it (sentinels of the other
	// origin / container may still have been pending when the awaited one arrived)
	idle := map[string]bool{}
	for _, r := range e.sortedRuns() {
		q := r.getQueue()
		if !r.started || r.isEnded() || r.isStalled() || q == nil {
			continue
		}
		deadline := time.Now().Add(2 * time.Second)
		for time.Now().Before(deadline) {
			if v, ok := queueIdle.Load(q); ok && v.(bool) && q.Len() == 0 {
				idle[r.d.Name] = true
				break
			}
			time.Sleep(50 * time.Microsecond)
		}
	}
	subs := []trace.E{}
	for _, r := range e.sortedRuns() {
		r.mu.Lock()
		subs = append(subs, trace.E{"s": r.d.Name, "started": r.started, "ended": r.ended, "stalled": r.stalled, "syncs": r.syncs,
			"late": atomic.LoadInt64(&r.late), "idle": idle[r.d.Name]})
		r.mu.Unlock()
	}
	e.emit(trace.E{"ev": "quiesce", "proj": proj, "subs": subs, "targets": targets, "stats": e.serverStats()})
}

// serverStats projects the server's statistics (subscribe.WithStats): per subscription mode and per
// requested target the active and cumulative RPC counts, per client the coalesce count and queue size
// (clients are told apart by the port of the peer address the driver gave them).
func (e *subEnv) serverStats() trace.E {
	types, tgts, clients := []trace.E{}, []trace.E{}, []trace.E{}
	for k, v := range e.srv.TypeStats() {
		types = append(types, trace.E{"k": k, "active": v.ActiveSubscriptionCount, "total": v.SubscriptionCount})
	}
	for k, v := range e.srv.TargetStats() {
		tgts = append(tgts, trace.E{"k": k, "active": v.ActiveSubscriptionCount, "total": v.SubscriptionCount})
	}
	for k, v := range e.srv.ClientStats() {
		name := "?"
		for _, r := range e.runs {
			if strings.HasPrefix(k, fmt.Sprintf("127.0.0.1:%d:", r.port)) {
				name = r.d.Name
			}
		}
		clients = append(clients, trace.E{"s": name, "t": v.Target, "coalesce": v.CoalesceCount, "qsize": v.QueueSize})
	}
	for _, l := range [][]trace.E{types, tgts, clients} {
		sort.Slice(l, func(i, j int) bool { return fmt.Sprint(l[i]) < fmt.Sprint(l[j]) })
	}
	return trace.E{"types": types, "targets": tgts, "clients": clients}
}

// othersProgress checks, while some subscribers are still stalled, that every other live
// STREAM subscriber receives what is offered (two awaited sentinel rounds, as in quiesce).
func (e *subEnv) othersProgress() {
	targets := e.knownTargets()
	// only subscribers that are registered and past their snapshot now (their sync was sent)
	var elig []*subRun
	for _, r := range e.sortedRuns() {
		r.mu.Lock()
		ok := r.started && !r.ended && !r.gateShut && r.d.Mode == "stream" && r.syncs >= 1
		r.mu.Unlock()
		if ok {
			elig = append(elig, r)
		}
	}
	for round := 0; round < 2; round++ {
		v := atomic.AddInt64(&e.sent, 1)
		for _, t := range targets {
			e.writeSentinel(t, v)
		}
		for _, r := range elig {
			for _, t := range targets {
				if (r.d.Target != "*" && r.d.Target != t) || !e.allowed(r, t) {
					continue
				}
				key := t + "|" + r.d.Origin
				if !r.waitFor(10*time.Second, func() bool { return r.sentSeen[key] >= v }) && !r.isEnded() {
					e.emit(trace.E{"ev": "hang", "s": r.d.Name, "what": "update not delivered while another subscriber is stalled", "t": t})
					e.hung = true
				}
			}
		}
	}
}

func (r *subRun) getQueue() *coalesce.Queue { r.mu.Lock(); defer r.mu.Unlock(); return r.queue }
func (r *subRun) isEnded() bool             { r.mu.Lock(); defer r.mu.Unlock(); return r.ended }
func (r *subRun) isStalled() bool           { r.mu.Lock(); defer r.mu.Unlock(); return r.stalled && r.gateShut }
func (r *subRun) inSend() bool              { r.mu.Lock(); defer r.mu.Unlock(); return r.stalled }

func (e *subEnv) sortedRuns() []*subRun {
	names := []string{}
	for n := range e.runs {
		names = append(names, n)
	}
	sort.Strings(names)
	out := []*subRun{}
	for _, n := range names {
		out = append(out, e.runs[n])
	}
	return out
}

// ---- hook-point delays ----

var subDelayOn int32
var subDelaySeed int64

var queueOwner sync.Map // *coalesce.Queue -> *subRun

var queueIdle sync.Map   // *coalesce.Queue -> bool: its consumer saw it empty and no insertion has refilled it since
var slowWalkers sync.Map // goroutine id -> true
var nSlowWalkers int32

// goid returns the id of the calling goroutine (hooks run on the goroutine of the code under test).
func goid() int64 {
	var buf [64]byte
	n := runtime.Stack(buf[:], false)
	f := strings.Fields(string(buf[:n]))
	if len(f) < 2 {
		return -1
	}
	id, _ := strconv.ParseInt(f[1], 10, 64)
	return id
}

func subHook(point string, arg interface{}) {
	switch point {
	case "walk.begin":
		if r, ok := arg.(*subRun); ok {
			if atomic.LoadInt32(&r.env.pending) > 0 {
				select {
				case <-r.env.arrive:
				case <-time.After(20 * time.Millisecond):
				}
				// this walk is slowed down (every insert) so that the held-back op lands inside it
				slowWalkers.Store(goid(), true)
				atomic.AddInt32(&nSlowWalkers, 1)
			}
			select {
			case r.env.walk <- struct{}{}:
			default:
			}
		}
	case "stream.register":
		// the stream has passed the target check and is about to register: a held-back op aimed at this window is
		// let through and given a moment to finish before the registration goes on
		if r, ok := arg.(*subRun); ok && atomic.LoadInt32(&r.env.atReg) == 1 && atomic.LoadInt32(&r.env.pending) > 0 {
			select {
			case <-r.env.arrive:
			case <-time.After(20 * time.Millisecond):
			}
			select {
			case r.env.walk <- struct{}{}:
			default:
			}
			select {
			case <-r.env.opDone:
			case <-time.After(5 * time.Millisecond):
			}
		}
	case "stream.queue":
		// the client queue of a stream, before it is registered: offers can be told apart from the first one on
		a := arg.([2]interface{})
		if r, ok := a[0].(*subRun); ok {
			q := a[1].(*coalesce.Queue)
			r.mu.Lock()
			r.queue = q
			r.mu.Unlock()
			queueOwner.Store(q, r)
		}
	case "stream.registered":
		if r, ok := arg.(*subRun); ok {
			r.env.emit(trace.E{"ev": "registered", "s": r.d.Name})
		}
	case "walk.end":
		if atomic.LoadInt32(&nSlowWalkers) > 0 {
			if _, ok := slowWalkers.LoadAndDelete(goid()); ok {
				atomic.AddInt32(&nSlowWalkers, -1)
			}
		}
	case "next.empty":
		// the sender found its queue empty and is about to block
		if q, ok := arg.(*coalesce.Queue); ok {
			queueIdle.Store(q, true)
		}
	case "insert.checked", "insert.done":
		if q, ok := arg.(*coalesce.Queue); ok && point == "insert.done" && q.Len() > 0 {
			queueIdle.Store(q, false)
		}
		if atomic.LoadInt32(&nSlowWalkers) > 0 {
			if _, ok := slowWalkers.Load(goid()); ok {
				time.Sleep(150 * time.Microsecond)
				return
			}
		}
	case "send.dequeue":
		a := arg.([2]interface{})
		if r, ok := a[0].(*subRun); ok {
			q := a[1].(*coalesce.Queue)
			r.mu.Lock()
			first := r.queue == nil
			r.queue = q
			r.mu.Unlock()
			if first {
				queueOwner.Store(q, r)
			}
		}
	case "offer":
		if m, ok := offerCtx.Load(goid()); ok {
			m.(map[interface{}]int)[arg]++
		}
		if v, ok := queueOwner.Load(arg); ok {
			r := v.(*subRun)
			if r.isEnded() {
				atomic.AddInt64(&r.late, 1)
			}
		}
	}
	if atomic.LoadInt32(&subDelayOn) == 0 {
		return
	}
	x := uint64(atomic.AddInt64(&subDelaySeed, 0x2545F4914F6CDD1D))
	x ^= x >> 29
	x *= 0xBF58476D1CE4E5B9
	x ^= x >> 32
	if x%4 == 0 {
		time.Sleep(time.Duration((x>>8)%300) * time.Microsecond)
	}
}

func installSubHooks(delays bool) {
	subscribe.VerifHook = subHook
	if delays {
		atomic.StoreInt32(&subDelayOn, 1)
		cache.VerifHook = subHook
		// also inside Insert: a walk or a feed callback that queues a leaf without the lock it
		// relies on loses its ordering against concurrent writers once the insert is slow
		coalesce.VerifHook = subHook
	}
}

// ---- scenario execution ----

func runSubScenario(w *trace.Writer, sc subScenario) bool {
	var e *subEnv
	defer func() {
		if e != nil {
			atomic.StoreInt32(&e.over, 1)
		}
	}()
	e = &subEnv{w: w, sc: sc, runs: map[string]*subRun{}, fed: map[string][]trace.E{}, pools: map[string]pathPool{},
		walk: make(chan struct{}, 1), arrive: make(chan struct{}, 1), opDone: make(chan struct{}, 1)}
	opts := []cache.Option{}
	if !sc.Ed {
		opts = append(opts, cache.DisableEventDrivenEmulation())
	}
	e.c = cache.New(append(append([]string{}, sc.Targets...), sentinelTarget), opts...)
	sopts := []subscribe.Option{subscribe.WithTimeout(time.Duration(sc.TimeoutMs) * time.Millisecond), subscribe.WithStats()}
	if sc.ACL != nil {
		sopts = append(sopts, subscribe.WithACL(&drvACL{env: e}))
	}
	e.srv, _ = subscribe.NewServer(e.c, sopts...)
	e.c.SetClient(e.onFeed)
	acl := []trace.E{}
	for u, ts := range sc.ACL {
		for _, t := range ts {
			acl = append(acl, trace.E{"u": u, "t": t})
		}
	}
	for u := range sc.ACL {
		acl = append(acl, trace.E{"u": u, "t": sentinelTarget})
	}
	sort.Slice(acl, func(i, j int) bool { return fmt.Sprint(acl[i]) < fmt.Sprint(acl[j]) })
	e.emit(trace.E{"ev": "config", "sc": sc.Sc, "targets": append(trace.Strs(sc.Targets), sentinelTarget), "ed": sc.Ed, "acl_on": sc.ACL != nil, "acl": acl,
		"acl_err": trace.Strs(sc.ACLErr), "timeout_ms": sc.TimeoutMs})
	for _, d := range sc.Subs {
		ctx := context.WithValue(context.Background(), userKey{}, d.User)
		port := 1000 + len(e.runs)
		ctx = peer.NewContext(ctx, &peer.Peer{Addr: &net.TCPAddr{IP: net.IPv4(127, 0, 0, 1), Port: port}})
		ctx, cancel := context.WithCancel(ctx)
		r := &subRun{d: d, env: e, port: port, ctx: ctx, cancel: cancel, reqs: make(chan *pb.SubscribeRequest, 4), eof: make(chan struct{}),
			sentSeen: map[string]int64{}}
		r.cond = sync.NewCond(&r.mu)
		e.runs[d.Name] = r
	}
	for _, t := range append(append([]string{}, sc.Targets...), "dev1", "dev2", "dev3") {
		if e.pools[t] == nil {
			e.pools[t] = pathPool{}
		}
	}
	for _, o := range sc.Prelude {
		e.writerOp(o.T, o)
	}
	e.quiesce()
	for phi, ph := range sc.Phases {
		if sc.IdleMs > 0 && phi > 0 {
			// nothing is sent for longer than the send timeout: an idle subscriber is not a stalled one
			time.Sleep(time.Duration(sc.IdleMs) * time.Millisecond)
		}
		var wg sync.WaitGroup
		var stallNow []*subRun
		for _, r := range e.sortedRuns() {
			starting := false
			for _, name := range ph.Start {
				starting = starting || name == r.d.Name
			}
			for _, k := range r.d.StallPhases {
				if k == phi && ((r.started && !r.isEnded()) || (starting && !r.started)) {
					r.shutGate()
					stallNow = append(stallNow, r)
				}
			}
		}
		tnames := []string{}
		held := int32(0)
		for t, ops := range ph.Writers {
			tnames = append(tnames, t)
			for _, o := range ops {
				if o.AtWalk {
					held++
				}
			}
		}
		// drain stale signals of the previous phase
		select {
		case <-e.walk:
		default:
		}
		select {
		case <-e.arrive:
		default:
		}
		select {
		case <-e.opDone:
		default:
		}
		atomic.StoreInt32(&e.atReg, int32((phi+sc.Sc)%2))
		atomic.StoreInt32(&e.pending, held)
		sort.Strings(tnames)
		for _, name := range ph.Start {
			if r := e.runs[name]; r != nil && !r.started {
				wg.Add(1)
				go func(r *subRun) {
					defer wg.Done()
					time.Sleep(time.Duration(rand.Intn(200)) * time.Microsecond)
					e.startSub(r)
				}(r)
			}
		}
		for _, t := range tnames {
			wg.Add(1)
			go func(t string, ops []cacheOp) {
				defer wg.Done()
				for _, o := range ops {
					e.writerOp(t, o)
				}
			}(t, ph.Writers[t])
		}
		done := make(chan struct{})
		go func() { wg.Wait(); close(done) }()
		select {
		case <-done:
		case <-time.After(20 * time.Second):
			// accepting target updates must never wait on a subscriber (C08)
			e.emit(trace.E{"ev": "hang", "what": "writer blocked", "stalled": len(stallNow) > 0})
			e.hung = true
			for _, r := range e.sortedRuns() {
				r.openGate()
				r.cancel()
			}
			return true
		}
		for _, r := range stallNow {
			if q := r.getQueue(); q != nil && !r.isEnded() {
				e.emit(trace.E{"ev": "backlog", "s": r.d.Name, "len": q.Len(), "held": r.inSend()})
			}
		}
		if len(stallNow) > 0 {
			e.othersProgress()
		}
		for _, r := range stallNow {
			if r.isEnded() {
				r.openGate()
				continue
			}
			if r.d.StallKind == "permanent" && r.inSend() {
				// the blocked send must end the RPC with an error after the server's timeout
				bound := time.Duration(50*sc.TimeoutMs) * time.Millisecond
				if bound < 5*time.Second {
					bound = 5 * time.Second
				}
				deadline := time.Now().Add(bound)
				for !r.isEnded() && time.Now().Before(deadline) {
					time.Sleep(time.Millisecond)
				}
				if !r.isEnded() {
					e.emit(trace.E{"ev": "hang", "s": r.d.Name, "what": "blocked send not timed out"})
					e.hung = true
				}
				r.cancel()
			}
			r.openGate()
		}
		// poll triggers: sequential, each after the previous sync_response was received
		pnames := []string{}
		for s := range ph.Polls {
			pnames = append(pnames, s)
		}
		sort.Strings(pnames)
		for _, s := range pnames {
			r := e.runs[s]
			if r == nil || !r.started || r.d.Mode != "poll" {
				continue
			}
			// the initial walk must have completed before the first trigger
			if !r.waitFor(10*time.Second, func() bool { return r.syncs >= 1 }) {
				continue
			}
			for i := 0; i < ph.Polls[s]; i++ {
				r.mu.Lock()
				have := r.syncs
				r.mu.Unlock()
				e.emit(trace.E{"ev": "trigger", "s": s})
				r.reqs <- &pb.SubscribeRequest{Request: &pb.SubscribeRequest_Poll{Poll: &pb.Poll{}}}
				if !r.waitFor(10*time.Second, func() bool { return r.syncs > have }) {
					if !r.isEnded() {
						e.emit(trace.E{"ev": "hang", "s": s, "what": "poll not answered"})
						e.hung = true
					}
					break
				}
			}
		}
		for _, name := range ph.End {
			if r := e.runs[name]; r != nil && r.started && !r.isEnded() {
				e.emit(trace.E{"ev": "clientend", "s": name})
				if r.d.Mode == "poll" {
					// wait for the first walk to finish, then half-close
					r.waitFor(10*time.Second, func() bool { return r.syncs >= 1 })
					close(r.eof)
				} else {
					r.cancel()
				}
				r.waitFor(10*time.Second, func() bool { return r.ended })
			}
		}
		// ONCE subscriptions must finish on their own
		for _, r := range e.sortedRuns() {
			if r.started && r.d.Mode == "once" {
				if !r.waitFor(10*time.Second, func() bool { return r.ended }) && !r.isStalled() {
					e.emit(trace.E{"ev": "hang", "s": r.d.Name, "what": "ONCE does not end"})
					e.hung = true
				}
			}
		}
		e.quiesce()
	}
	if sc.IdleMs > 0 {
		time.Sleep(time.Duration(sc.IdleMs) * time.Millisecond)
		e.quiesce()
	}
	// tear down
	if os.Getenv("VERIF_DUMP") != "" {
		for _, r := range e.sortedRuns() {
			if r.started && !r.isEnded() && r.d.Mode == "poll" {
				buf := make([]byte, 1<<20)
				os.Stderr.Write(buf[:runtime.Stack(buf, true)])
				break
			}
		}
	}
	for _, r := range e.sortedRuns() {
		if r.started && !r.isEnded() {
			e.emit(trace.E{"ev": "clientend", "s": r.d.Name})
			r.cancel()
		}
	}
	for _, r := range e.sortedRuns() {
		if r.started {
			deadline := time.Now().Add(10 * time.Second)
			for !r.isEnded() && time.Now().Before(deadline) {
				time.Sleep(200 * time.Microsecond)
			}
			if !r.isEnded() {
				e.emit(trace.E{"ev": "hang", "s": r.d.Name, "what": "Subscribe does not return after cancel"})
				e.hung = true
			}
		}
	}
	e.emit(trace.E{"ev": "end"})
	return e.hung
}

// ---- random scenarios ----

func genSubPath(r *rand.Rand, glob bool) pathDesc {
	names := []string{"a", "b", "c"}
	depth := []int{1, 1, 1, 2, 2, 3}[r.Intn(6)] // mostly short: a subscription that matches nothing observes nothing
	p := pathDesc{}
	for i := 0; i < depth; i++ {
		e := elemDesc{Name: names[r.Intn(len(names))]}
		if glob && r.Intn(4) == 0 {
			e.Name = "*"
		} else if r.Intn(6) == 0 {
			e.Name = "l"
			e.Keys = map[string]string{"k1": []string{"x", "y", "x/y"}[r.Intn(3)]} // a key value may contain the path separator
			if glob && r.Intn(3) == 0 {
				e.Keys["k1"] = "*"
			}
		}
		p.Elems = append(p.Elems, e)
	}
	if glob && r.Intn(5) == 0 {
		p.Elems = []elemDesc{{Name: "*"}}
	}
	return p
}

func genSubWriterOps(r *rand.Rand, t string, n int, profile string) []cacheOp {
	g := &cacheGen{r: r, targets: []string{t}, w: cacheProfiles["mixed"], tsDense: r.Intn(2) == 0}
	ops := []cacheOp{}
	for len(ops) < n {
		now := atomic.AddInt64(&subClock, 3)
		o := g.op(&now)
		switch o.Op {
		case "HasTarget", "Query", "UpdateSize", "Add", "UpdateMetadata":
			continue
		case "Remove":
			// whole-target removals: in the remove profile, and now and then under an ACL (the delete of a target a
			// subscriber may not see is not for it either)
			if !(profile == "remove" && r.Intn(2) == 0) && !(profile == "acl" && r.Intn(3) == 0) {
				continue
			}
		case "GnmiUpdate":
			if o.Prefix == nil || o.Prefix.Target != t {
				continue
			}
		}
		o.T = t
		ops = append(ops, o)
	}
	return ops
}

func genSubScenario(r *rand.Rand, sc int, profile string) subScenario {
	all := []string{"dev1", "dev2", "dev3"}
	nt := 1 + r.Intn(3)
	s := subScenario{Sc: sc, Targets: all[:nt], Ed: r.Intn(2) == 0, TimeoutMs: 60000}
	users := []string{"u1", "u2"}
	if profile == "idle" {
		// long silences: the send timeout covers sends only, never the time between them
		s.TimeoutMs = 1500
		s.IdleMs = 2000
	}
	if profile == "acl" || (profile == "idle" && r.Intn(2) == 0) {
		s.ACL = map[string][]string{}
		for _, u := range users {
			s.ACL[u] = []string{}
			for _, t := range s.Targets {
				if r.Intn(2) == 0 {
					s.ACL[u] = append(s.ACL[u], t)
				}
			}
		}
		if r.Intn(6) == 0 {
			s.ACLErr = []string{"u2"}
		}
	}
	for _, t := range s.Targets {
		s.Prelude = append(s.Prelude, genSubWriterOps(r, t, r.Intn(8), profile)...)
	}
	ns := 1 + r.Intn(3)
	for i := 0; i < ns; i++ {
		d := subDesc{Name: fmt.Sprintf("s%d", i+1), User: users[r.Intn(len(users))]}
		switch x := r.Intn(10); {
		case profile == "once" && x < 8, profile == "idle" && x < 5, x < 2:
			d.Mode = []string{"once", "poll"}[r.Intn(2)]
		default:
			d.Mode = "stream"
			d.UpdatesOnly = r.Intn(5) == 0
		}
		d.Target = s.Targets[r.Intn(len(s.Targets))]
		if r.Intn(3) == 0 || (profile == "idle" && r.Intn(2) == 0) {
			d.Target = "*"
		}
		if profile == "acl" && r.Intn(8) == 0 {
			d.Target = "nosuch" // a target the cache does not know: refused - as unauthenticated first, if the caller is
		}
		if r.Intn(3) == 0 {
			d.Origin = "oc"
		}
		if r.Intn(5) == 0 {
			d.PrefixElems = []elemDesc{{Name: prefixContainer}}
		}
		for k, np := 0, 1+r.Intn(3); k < np; k++ {
			p := genSubPath(r, true)
			if d.Origin == "" && len(d.PrefixElems) == 0 && r.Intn(4) == 0 {
				p.Origin = "oc" // the origin carried by one subscription of the list, not by the prefix
			}
			d.Paths = append(d.Paths, p)
		}
		if (profile == "once" || profile == "static") && r.Intn(5) == 0 {
			// two list entries whose keys are related as strings only (x and x/y), the shorter one first
			pre := genSubPath(r, false).Elems
			if len(pre) > 1 {
				pre = pre[:1]
			}
			mk := func(k string) pathDesc {
				return pathDesc{Elems: append(append([]elemDesc{}, pre...), elemDesc{Name: "l", Keys: map[string]string{"k1": k}})}
			}
			d.Paths = append([]pathDesc{mk("x"), mk("x/y")}, d.Paths...)
		}
		if profile == "overlap" && len(d.Paths) > 0 {
			// overlapping subscription paths: a path and one of its prefixes / a glob variant
			p := d.Paths[0]
			q := pathDesc{Elems: append([]elemDesc{}, p.Elems[:1+r.Intn(len(p.Elems))]...)}
			if r.Intn(2) == 0 {
				q.Elems[len(q.Elems)-1] = elemDesc{Name: "*"}
			}
			d.Paths = append(d.Paths, q)
		}
		s.Subs = append(s.Subs, d)
	}
	nph := 1 + r.Intn(3)
	if profile == "idle" {
		nph = 2
	}
	if profile == "stall" {
		nph = 2 + r.Intn(2)
		s.TimeoutMs = 250
	}
	started := map[string]bool{}
	for k := 0; k < nph; k++ {
		ph := subPhase{Writers: map[string][]cacheOp{}, Polls: map[string]int{}}
		for _, d := range s.Subs {
			if !started[d.Name] && (k == nph-1 || r.Intn(2) == 0 || (profile == "stall" && k == 0)) {
				ph.Start = append(ph.Start, d.Name)
				started[d.Name] = true
			} else if started[d.Name] {
				if d.Mode == "poll" {
					ph.Polls[d.Name] = r.Intn(3)
					if profile == "idle" {
						ph.Polls[d.Name] = 1 + r.Intn(2)
					}
				}
				if r.Intn(6) == 0 {
					ph.End = append(ph.End, d.Name)
				}
			}
		}
		for _, t := range s.Targets {
			if profile == "static" && len(ph.Start) > 0 {
				continue // snapshot against an unchanging cache
			}
			if n := r.Intn(7); n > 0 {
				ph.Writers[t] = genSubWriterOps(r, t, n, profile)
			}
		}
		if profile == "remove" && len(ph.Start) > 0 && r.Intn(2) == 0 {
			// a whole-target removal (or reset) dropped into the initial walk of the subscribers starting now
			t := s.Targets[r.Intn(len(s.Targets))]
			o := cacheOp{Op: []string{"Remove", "Remove", "Reset"}[r.Intn(3)], T: t, Now: atomic.AddInt64(&subClock, 3), AtWalk: true}
			ph.Writers[t] = append([]cacheOp{o}, ph.Writers[t]...)
		} else if len(ph.Start) > 0 && r.Intn(2) == 0 {
			// one writer op of the phase is held back until a subscriber is inside its initial walk;
			// removals are preferred (they are what a walk has to be atomic against)
			var cands, dels [][2]interface{}
			for _, t := range s.Targets {
				for i, o := range ph.Writers[t] {
					c := [2]interface{}{t, i}
					cands = append(cands, c)
					if o.Op == "Remove" || o.Op == "Reset" || len(o.Dels) > 0 {
						dels = append(dels, c)
					}
				}
			}
			if len(dels) > 0 && r.Intn(4) > 0 {
				cands = dels
			}
			if len(cands) > 0 {
				c := cands[r.Intn(len(cands))]
				ph.Writers[c[0].(string)][c[1].(int)].AtWalk = true
			}
		}
		if profile == "remove" {
			// a removed target may come back: its writer adds it again after everything else it does in this phase
			// and goes on updating it (what was registered for the old target must not see any of that)
			for _, t := range s.Targets {
				removed := false
				for _, o := range ph.Writers[t] {
					removed = removed || o.Op == "Remove"
				}
				if removed && r.Intn(2) == 0 {
					ph.Writers[t] = append(ph.Writers[t], cacheOp{Op: "Add", T: t, Now: atomic.AddInt64(&subClock, 3)})
					for _, o := range genSubWriterOps(r, t, 2+r.Intn(4), "stream") {
						if o.Op != "Remove" {
							ph.Writers[t] = append(ph.Writers[t], o)
						}
					}
				}
			}
		}
		s.Phases = append(s.Phases, ph)
	}
	if profile == "stall" {
		// one or two STREAM subscribers stall in a later phase; the others must not notice
		n := 0
		kind := []string{"transient", "transient", "permanent"}[r.Intn(3)]
		if kind == "transient" {
			s.TimeoutMs = 60000 // a merely slow subscriber must not be terminated
		}
		for i := range s.Subs {
			if s.Subs[i].Mode == "stream" && n < 2 && r.Intn(3) > 0 {
				s.Subs[i].StallPhases = []int{1 + r.Intn(nph-1)}
				if r.Intn(3) == 0 {
					// stall from the very first send on (snapshot or sync_response)
					s.Subs[i].StallPhases = []int{0}
				}
				s.Subs[i].StallKind = kind
				n++
			}
		}
		for k := 1; k < nph; k++ {
			s.Phases[k].End = nil
			for _, t := range s.Targets { // bursts over small leaf sets
				if r.Intn(2) == 0 {
					s.Phases[k].Writers[t] = append(s.Phases[k].Writers[t], genSubWriterOps(r, t, 4+r.Intn(20), profile)...)
				}
			}
		}
	}
	return s
}

func subscribeRandom(args []string) error {
	fs := flag.NewFlagSet("subscribe random", flag.ContinueOnError)
	n := fs.Int("n", 100, "scenarios")
	out := fs.String("out", "", "output directory")
	shards := fs.Int("shards", 16, "trace files")
	profile := fs.String("profile", "stream", "stream|once|static|acl|overlap|remove")
	delays := fs.Bool("delays", true, "random delays at hook points")
	if err := fs.Parse(args); err != nil {
		return err
	}
	ss, err := newShards(*out, "sub", *shards)
	if err != nil {
		return err
	}
	scf, err := os.Create(*out + "/scenarios.ndjson")
	if err != nil {
		return err
	}
	defer scf.Close()
	sw := bufio.NewWriterSize(scf, 1<<20)
	defer sw.Flush()
	var swmu sync.Mutex
	cache.Now = func() time.Time { return time.Unix(0, atomic.AddInt64(&subClock, 1)) }
	installSubHooks(*delays)
	seed := seedFromEnv()
	var wg sync.WaitGroup
	var hangs int64
	for s := 0; s < len(ss.ws); s++ {
		wg.Add(1)
		go func(s int) {
			defer wg.Done()
			for i := s; i < *n; i += len(ss.ws) {
				if atomic.LoadInt64(&hangs) >= 10 {
					return // every hang costs a 10 s bound: enough of them have been recorded
				}
				r := rand.New(rand.NewSource(seed*2750159 + int64(i)))
				sc := genSubScenario(r, i, *profile)
				b, _ := json.Marshal(sc)
				swmu.Lock()
				sw.Write(b)
				sw.WriteByte('\n')
				swmu.Unlock()
				if runSubScenario(ss.ws[s], sc) {
					atomic.AddInt64(&hangs, 1)
				}
			}
		}(s)
	}
	wg.Wait()
	ev := ss.close()
	fmt.Printf("DRV subscribe random scenarios=%d events=%d hangs=%d\n", *n, ev, hangs)
	return nil
}

// subscribePatterns enumerates every subscription path of length <= 3 over a small
// alphabet (globs at any position), with and without a prefix origin, against a
// single target and against "*", in ONCE and POLL mode, on unchanging caches.
func subscribePatterns(args []string) error {
	fs := flag.NewFlagSet("subscribe patterns", flag.ContinueOnError)
	contents := fs.Int("n", 3, "number of cache contents")
	out := fs.String("out", "", "output directory")
	shards := fs.Int("shards", 16, "trace files")
	maxLen := fs.Int("max", 3, "longest subscription path")
	if err := fs.Parse(args); err != nil {
		return err
	}
	ss, err := newShards(*out, "sub", *shards)
	if err != nil {
		return err
	}
	scf, err := os.Create(*out + "/scenarios.ndjson")
	if err != nil {
		return err
	}
	defer scf.Close()
	sw := bufio.NewWriterSize(scf, 1<<20)
	defer sw.Flush()
	cache.Now = func() time.Time { return time.Unix(0, atomic.AddInt64(&subClock, 1)) }
	installSubHooks(false)
	seed := seedFromEnv()
	pats := pathsUpTo([]string{"a", "b", "l", "x", "*"}, *maxLen)
	var scs []subScenario
	for c := 0; c < *contents; c++ {
		r := rand.New(rand.NewSource(seed*611953 + int64(c)))
		targets := []string{"dev1", "dev2"}
		var prelude []cacheOp
		for _, t := range targets {
			prelude = append(prelude, genSubWriterOps(r, t, 14, "static")...)
		}
		var subs []subDesc
		for _, origin := range []string{"", "oc"} {
			for _, target := range []string{"dev1", "*"} {
				for _, mode := range []string{"once", "poll"} {
					for _, p := range pats {
						if len(p) == 0 && origin == "" {
							continue
						}
						d := subDesc{Mode: mode, Target: target, Origin: origin, User: "u1"}
						pd := pathDesc{}
						// the same full path, split between prefix and subscription path at every position in turn
						split := len(subs) % (len(p) + 1)
						for i, e := range p {
							if i < split {
								d.PrefixElems = append(d.PrefixElems, elemDesc{Name: e})
							} else {
								pd.Elems = append(pd.Elems, elemDesc{Name: e})
							}
						}
						d.Paths = []pathDesc{pd}
						subs = append(subs, d)
					}
				}
			}
		}
		for i := 0; i < len(subs); i += 12 {
			end := i + 12
			if end > len(subs) {
				end = len(subs)
			}
			sc := subScenario{Sc: len(scs), Targets: targets, Ed: true, TimeoutMs: 60000, Prelude: prelude}
			ph := subPhase{Polls: map[string]int{}}
			for k, d := range subs[i:end] {
				d.Name = fmt.Sprintf("s%d", k+1)
				sc.Subs = append(sc.Subs, d)
				ph.Start = append(ph.Start, d.Name)
			}
			ph2 := subPhase{Polls: map[string]int{}}
			for _, d := range sc.Subs {
				if d.Mode == "poll" {
					ph2.Polls[d.Name] = 2
					ph2.End = append(ph2.End, d.Name)
				}
			}
			sc.Phases = []subPhase{ph, ph2}
			scs = append(scs, sc)
		}
	}
	var wg sync.WaitGroup
	var hangs, nsubs int64
	for s := 0; s < len(ss.ws); s++ {
		wg.Add(1)
		go func(s int) {
			defer wg.Done()
			for i := s; i < len(scs); i += len(ss.ws) {
				atomic.AddInt64(&nsubs, int64(len(scs[i].Subs)))
				if runSubScenario(ss.ws[s], scs[i]) {
					atomic.AddInt64(&hangs, 1)
				}
			}
		}(s)
	}
	wg.Wait()
	for _, sc := range scs {
		b, _ := json.Marshal(sc)
		sw.Write(b)
		sw.WriteByte('\n')
	}
	ev := ss.close()
	fmt.Printf("DRV subscribe patterns scenarios=%d subscriptions=%d events=%d hangs=%d\n", len(scs), nsubs, ev, hangs)
	return nil
}

func subscribeReplay(args []string) error {
	fs := flag.NewFlagSet("subscribe replay", flag.ContinueOnError)
	scenario := fs.String("scenario", "", "scenario JSON file")
	out := fs.String("out", "", "output trace file")
	times := fs.Int("times", 20, "how often to run the scenario (schedules vary)")
	if err := fs.Parse(args); err != nil {
		return err
	}
	b, err := os.ReadFile(*scenario)
	if err != nil {
		return err
	}
	var sc subScenario
	if err := json.Unmarshal(b, &sc); err != nil {
		return err
	}
	w, err := trace.New(*out)
	if err != nil {
		return err
	}
	cache.Now = func() time.Time { return time.Unix(0, atomic.AddInt64(&subClock, 1)) }
	installSubHooks(true)
	for i := 0; i < *times; i++ {
		runSubScenario(w, sc)
	}
	return w.Close()
}

func subscribeMain(args []string) error {
	if len(args) == 0 {
		return fmt.Errorf("subscribe: need a mode")
	}
	switch args[0] {
	case "random":
		return subscribeRandom(args[1:])
	case "replay":
		return subscribeReplay(args[1:])
	case "patterns":
		return subscribePatterns(args[1:])
	}
	return fmt.Errorf("subscribe: unknown mode %q", args[0])
}

var _ = strings.Join
