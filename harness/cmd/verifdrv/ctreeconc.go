package main

import (
	"encoding/json"
	"flag"
	"fmt"
	"math/rand"
	"sync"
	"sync/atomic"
	"time"

	"github.com/openconfig/gnmi/ctree"
	"verifharness/internal/trace"
)

// ctree concurrent histories (C10):
//   verifdrv ctree conc -n N -out DIR -shards K
// 2..16 goroutines issue random Add/Get/Query/Walk/Delete/UpdateLeaf mixes on
// overlapping paths of one tree; invocation and response events are logged in
// real-time order; a random delay at the add.upgrade hook widens the window
// between releasing the read lock and taking the write lock.

var ctreeDelay int32
var ctreeDelaySeed int64

func ctreeHook(point string, arg interface{}) {
	if atomic.LoadInt32(&ctreeDelay) == 0 {
		return
	}
	x := uint64(atomic.AddInt64(&ctreeDelaySeed, 0x2545F4914F6CDD1D))
	x ^= x >> 29
	x *= 0xBF58476D1CE4E5B9
	x ^= x >> 32
	if x%3 == 0 {
		time.Sleep(time.Duration((x>>8)%200) * time.Microsecond)
	}
}

func ctreeHistory(w *trace.Writer, seed int64) bool {
	var mu sync.Mutex
	emit := func(e trace.E) { mu.Lock(); w.Emit(e); mu.Unlock() }
	r := rand.New(rand.NewSource(seed))
	t := &ctree.Tree{}
	emit(trace.E{"ev": "reset"})
	ng := 2 + r.Intn(15)
	total := 12 + r.Intn(44)
	per := total / ng
	if per < 1 {
		per = 1
	}
	if ng > 8 && per > 2 {
		per = 2 // many goroutines: few operations each (the inference cost grows with both)
	}
	names := []string{"a", "b", "c"}[:2+r.Intn(2)]
	depth := 1 + r.Intn(3)
	values := []string{"v1", "v2", "v3"}
	var wg sync.WaitGroup
	done := make(chan struct{})
	for g := 0; g < ng; g++ {
		wg.Add(1)
		go func(g int) {
			defer wg.Done()
			gr := rand.New(rand.NewSource(seed*131 + int64(g)))
			name := fmt.Sprintf("g%d", g)
			for k := 0; k < per; k++ {
				if gr.Intn(4) == 0 {
					time.Sleep(time.Duration(gr.Intn(40)) * time.Microsecond)
				}
				p := randPath(gr, names, depth, 0)
				if len(p) == 0 {
					p = []string{names[0]}
				}
				switch x := gr.Intn(100); {
				case x < 38:
					v := values[gr.Intn(len(values))]
					emit(trace.E{"ev": "inv", "g": name, "op": "Add", "p": trace.Strs(p), "v": v})
					res := "ok"
					if err := t.Add(p, v); err != nil {
						res = "err"
					}
					emit(trace.E{"ev": "ret", "g": name, "op": "Add", "res": res})
				case x < 52:
					emit(trace.E{"ev": "inv", "g": name, "op": "Get", "p": trace.Strs(p)})
					n := t.Get(p)
					kind, val := "none", "-"
					if n != nil {
						if n.IsBranch() {
							kind = "branch"
						} else if v := n.Value(); v != nil {
							kind, val = "leaf", valStr(v)
						}
					}
					// IsBranch and Value are two further reads: only a consistent pair is a single observation
					emit(trace.E{"ev": "ret", "g": name, "op": "Get", "kind": kind, "val": val})
				case x < 66:
					q := randPath(gr, names, depth, 0.3)
					emit(trace.E{"ev": "inv", "g": name, "op": "Query", "q": trace.Strs(q)})
					leaves := []pv{}
					t.Query(q, func(qp []string, _ *ctree.Leaf, v interface{}) error {
						leaves = append(leaves, pv{trace.Strs(qp), valStr(v)})
						return nil
					})
					emit(trace.E{"ev": "ret", "g": name, "op": "Query", "leaves": leaves})
				case x < 72:
					emit(trace.E{"ev": "inv", "g": name, "op": "Walk"})
					leaves := []pv{}
					t.Walk(func(qp []string, _ *ctree.Leaf, v interface{}) error {
						leaves = append(leaves, pv{trace.Strs(qp), valStr(v)})
						return nil
					})
					emit(trace.E{"ev": "ret", "g": name, "op": "Walk", "leaves": leaves})
				case x < 88:
					q := randPath(gr, names, depth, 0.25)
					emit(trace.E{"ev": "inv", "g": name, "op": "Delete", "q": trace.Strs(q)})
					paths := [][]string{}
					for _, dp := range t.Delete(q) {
						paths = append(paths, trace.Strs(dp))
					}
					emit(trace.E{"ev": "ret", "g": name, "op": "Delete", "paths": paths})
				default:
					v := values[gr.Intn(len(values))]
					emit(trace.E{"ev": "inv", "g": name, "op": "UpdateLeaf", "p": trace.Strs(p), "v": v})
					res := "none"
					// a handle is only taken on leaves (Get + IsBranch would be two observations)
					if lf := t.GetLeaf(p); lf != nil {
						if _, isStr := lf.Value().(string); isStr {
							lf.Update(v)
							res = "ok"
						}
					}
					emit(trace.E{"ev": "ret", "g": name, "op": "UpdateLeaf", "res": res})
				}
			}
		}(g)
	}
	go func() { wg.Wait(); close(done) }()
	select {
	case <-done:
	case <-time.After(10 * time.Second):
		emit(trace.E{"ev": "hang", "what": "an operation did not return within 10 s (deadlock?)"})
		return true
	}
	proj := []pv{}
	t.Walk(func(p []string, _ *ctree.Leaf, v interface{}) error {
		proj = append(proj, pv{trace.Strs(p), valStr(v)})
		return nil
	})
	emit(trace.E{"ev": "final", "proj": proj})
	return false
}

// ctreeContend hammers a few hot leaves with queriers, walkers, handle updaters, adders on existing
// paths and a deleter/re-adder for dur, and reports whether every goroutine kept making progress.
func ctreeContend(w *trace.Writer, seed int64, dur time.Duration) bool {
	w.Emit(trace.E{"ev": "reset"})
	t := &ctree.Tree{}
	hot := [][]string{{"a", "b"}, {"a", "c"}, {"d"}}
	for _, p := range hot {
		t.Add(p, "v0")
	}
	t.Add([]string{"e", "f"}, "v0")
	const workers = 10
	var ops [workers]int64
	stop := make(chan struct{})
	var wg sync.WaitGroup
	for g := 0; g < workers; g++ {
		wg.Add(1)
		go func(g int) {
			defer wg.Done()
			r := rand.New(rand.NewSource(seed + int64(g)))
			handles := map[int]*ctree.Leaf{}
			for {
				select {
				case <-stop:
					return
				default:
				}
				k := r.Intn(len(hot))
				switch g % 5 {
				case 0: // query (exact and glob), reading the values it is handed
					q := hot[k]
					if r.Intn(2) == 0 {
						q = []string{"*"}
					}
					t.Query(q, func(_ []string, l *ctree.Leaf, v interface{}) error { _ = v; return nil })
				case 1:
					t.Walk(func(_ []string, l *ctree.Leaf, v interface{}) error { _ = v; return nil })
				case 2: // update through a retained handle
					if handles[k] == nil {
						handles[k] = t.GetLeaf(hot[k])
					}
					if handles[k] != nil {
						handles[k].Update("h")
					}
				case 3: // add on an existing path
					t.Add(hot[k], "a")
				case 4: // delete and re-add elsewhere, sometimes a hot leaf
					if r.Intn(8) == 0 {
						t.Delete(hot[k])
						t.Add(hot[k], "r")
					} else {
						t.Delete([]string{"e"})
						t.Add([]string{"e", "f"}, "r")
					}
				}
				atomic.AddInt64(&ops[g], 1)
			}
		}(g)
	}
	time.Sleep(dur)
	close(stop)
	var total int64
	for g := range ops {
		total += atomic.LoadInt64(&ops[g])
	}
	joined := make(chan struct{})
	go func() { wg.Wait(); close(joined) }()
	select {
	case <-joined:
	case <-time.After(5 * time.Second):
		// every operation takes microseconds: a goroutine that has not come back is stuck inside the tree
		w.Emit(trace.E{"ev": "hang", "what": "a goroutine did not return from a tree operation for 5 s under contention (deadlock?)", "ops": total})
		return true
	}
	w.Emit(trace.E{"ev": "contend", "ops": total, "progress": true, "workers": workers})
	return false
}

// ctreeDuel is a tiny history: a few sequential adds, then two or three goroutines released together by a spin
// barrier, each issuing one operation (sometimes a second one) on the same handful of short paths - the empty path
// (the root as a leaf) and positions where a leaf and a branch compete included. Hundreds of thousands of these put
// conflicting operations truly side by side, which the longer random histories do only by chance. The invocation of
// each goroutine's first operation is logged before the barrier (a wider interval only admits more orders), so
// nothing stands between the barrier and the call. Identical duels are written once (the caller de-duplicates).
func ctreeDuel(seed int64) (evs []trace.E, hung bool) {
	var mu sync.Mutex
	emit := func(e trace.E) { mu.Lock(); evs = append(evs, e); mu.Unlock() }
	r := rand.New(rand.NewSource(seed))
	t := &ctree.Tree{}
	emit(trace.E{"ev": "reset"})
	pathSets := [][][]string{
		{{}, {"a"}, {"b"}},
		{{}, {"a"}, {"a", "b"}},
		{{"a"}, {"a", "b"}, {"a", "c"}},
		{{"a", "b"}, {"a", "b", "c"}, {"a", "c"}},
	}
	paths := pathSets[r.Intn(len(pathSets))]
	values := []string{"v1", "v2", "v3"}
	type op struct {
		kind string
		p    []string
		v    string
	}
	inv := func(g string, o op) {
		switch o.kind {
		case "Add":
			emit(trace.E{"ev": "inv", "g": g, "op": "Add", "p": trace.Strs(o.p), "v": o.v})
		case "Delete":
			emit(trace.E{"ev": "inv", "g": g, "op": "Delete", "q": trace.Strs(o.p)})
		case "UpdateLeaf":
			emit(trace.E{"ev": "inv", "g": g, "op": "UpdateLeaf", "p": trace.Strs(o.p), "v": o.v})
		case "Get":
			emit(trace.E{"ev": "inv", "g": g, "op": "Get", "p": trace.Strs(o.p)})
		}
	}
	run := func(g string, o op) {
		switch o.kind {
		case "Add":
			res := "ok"
			if err := t.Add(o.p, o.v); err != nil {
				res = "err"
			}
			emit(trace.E{"ev": "ret", "g": g, "op": "Add", "res": res})
		case "Delete":
			dp := [][]string{}
			for _, x := range t.Delete(o.p) {
				dp = append(dp, trace.Strs(x))
			}
			emit(trace.E{"ev": "ret", "g": g, "op": "Delete", "paths": dp})
		case "UpdateLeaf":
			res := "none"
			if lf := t.GetLeaf(o.p); lf != nil {
				if _, isStr := lf.Value().(string); isStr {
					lf.Update(o.v)
					res = "ok"
				}
			}
			emit(trace.E{"ev": "ret", "g": g, "op": "UpdateLeaf", "res": res})
		case "Get":
			n := t.Get(o.p)
			kind, val := "none", "-"
			if n != nil {
				if n.IsBranch() {
					kind = "branch"
				} else if v := n.Value(); v != nil {
					kind, val = "leaf", valStr(v)
				}
			}
			emit(trace.E{"ev": "ret", "g": g, "op": "Get", "kind": kind, "val": val})
		}
	}
	if r.Intn(2) == 0 { // half of the duels start from an empty tree (the root is neither leaf nor branch)
		for k, n := 0, 1+r.Intn(2); k < n; k++ {
			o := op{"Add", paths[r.Intn(len(paths))], values[r.Intn(len(values))]}
			inv("init", o)
			run("init", o)
		}
	}
	ng := 2 + r.Intn(3)/2
	plans := make([][]op, ng)
	for g := range plans {
		for k, n := 0, 1+r.Intn(3)/2; k < n; k++ {
			o := op{kind: "Add", p: paths[r.Intn(len(paths))], v: values[r.Intn(len(values))]}
			switch x := r.Intn(10); {
			case x < 6:
			case x < 8:
				o.kind = "Delete"
			case x < 9:
				o.kind = "UpdateLeaf"
			default:
				o.kind = "Get"
			}
			plans[g] = append(plans[g], o)
		}
	}
	if r.Intn(2) == 0 {
		// a leaf and a branch competing for one position: Add(p) beside Add(p/x)
		p := paths[0]
		plans[0][0] = op{"Add", p, values[r.Intn(len(values))]}
		plans[1][0] = op{"Add", append(append([]string{}, p...), "x"), values[r.Intn(len(values))]}
	}
	for g := range plans {
		inv(fmt.Sprintf("g%d", g), plans[g][0])
	}
	var ready int32
	var wg sync.WaitGroup
	done := make(chan struct{})
	for g := 0; g < ng; g++ {
		wg.Add(1)
		go func(g int) {
			defer wg.Done()
			name := fmt.Sprintf("g%d", g)
			atomic.AddInt32(&ready, 1)
			for atomic.LoadInt32(&ready) < int32(ng) { // spin: all start together
			}
			for k, o := range plans[g] {
				if k > 0 {
					inv(name, o)
				}
				run(name, o)
			}
		}(g)
	}
	go func() { wg.Wait(); close(done) }()
	select {
	case <-done:
	case <-time.After(10 * time.Second):
		emit(trace.E{"ev": "hang", "what": "an operation did not return within 10 s (deadlock?)"})
		return evs, true
	}
	proj := []pv{}
	t.Walk(func(p []string, _ *ctree.Leaf, v interface{}) error {
		proj = append(proj, pv{trace.Strs(p), valStr(v)})
		return nil
	})
	emit(trace.E{"ev": "final", "proj": proj})
	return evs, false
}

func ctreeConc(args []string) error {
	fs := flag.NewFlagSet("ctree conc", flag.ContinueOnError)
	contend := fs.Int("contend", 0, "contention rounds (150 ms each) after the histories")
	duels := fs.Int("duels", 0, "duels (tiny histories with a common start) after the histories")
	n := fs.Int("n", 300, "histories")
	out := fs.String("out", "", "output directory")
	shards := fs.Int("shards", 16, "trace files")
	if err := fs.Parse(args); err != nil {
		return err
	}
	ss, err := newShards(*out, "conc", *shards)
	if err != nil {
		return err
	}
	ctree.VerifHook = ctreeHook
	atomic.StoreInt32(&ctreeDelay, 1)
	seed := seedFromEnv()
	var wg sync.WaitGroup
	var hangs int64
	for s := 0; s < len(ss.ws); s++ {
		wg.Add(1)
		go func(s int) {
			defer wg.Done()
			for i := s; i < *n; i += len(ss.ws) {
				if ctreeHistory(ss.ws[s], seed*7368787+int64(i)) {
					atomic.AddInt64(&hangs, 1)
				}
			}
		}(s)
	}
	wg.Wait()
	atomic.StoreInt32(&ctreeDelay, 0)
	// duels one at a time, 4 spinning goroutines at most: they need real parallelism, not the other shards' load
	seen := map[string]bool{}
	distinct := 0
	for i := 0; i < *duels && hangs == 0; i++ {
		// 96 plans per run, each repeated: what varies between the repetitions is the interleaving
		evs, hung := ctreeDuel(seed*15485863 + int64(i%96))
		if hung {
			hangs++
		}
		b, _ := json.Marshal(evs)
		if k := string(b); !seen[k] {
			seen[k] = true
			w := ss.ws[distinct%len(ss.ws)]
			distinct++
			for _, e := range evs {
				w.Emit(e)
			}
		}
	}
	for i := 0; i < *contend && hangs == 0; i++ {
		if ctreeContend(ss.ws[i%len(ss.ws)], seed*31+int64(i), 150*time.Millisecond) {
			hangs++
		}
	}
	ev := ss.close()
	fmt.Printf("DRV ctree conc histories=%d duels=%d distinct_duels=%d contention_rounds=%d events=%d hangs=%d\n", *n+distinct, *duels, distinct, *contend, ev, hangs)
	return nil
}
