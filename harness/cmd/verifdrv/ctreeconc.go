package main

import (
	"flag"
	"fmt"
	"math/rand"
	"sync"
	"sync/atomic"
	"time"

	"github.com/openconfig/gnmi/ctree"
	"verifharness/internal/trace"
)

// ctree concurrent histories (C10):
//   verifdrv ctree conc -n N -out DIR -shards K
// 2..16 goroutines issue random Add/Get/Query/Walk/Delete/UpdateLeaf mixes on
// overlapping paths of one tree; invocation and response events are logged in
// real-time order; a random delay at the add.upgrade hook widens the window
// between releasing the read lock and taking the write lock.

var ctreeDelay int32
var ctreeDelaySeed int64

func ctreeHook(point string, arg interface{}) {
	if atomic.LoadInt32(&ctreeDelay) == 0 {
		return
	}
	x := uint64(atomic.AddInt64(&ctreeDelaySeed, 0x2545F4914F6CDD1D))
	x ^= x >> 29
	x *= 0xBF58476D1CE4E5B9
	x ^= x >> 32
	if x%3 == 0 {
		time.Sleep(time.Duration((x>>8)%200) * time.Microsecond)
	}
}

func ctreeHistory(w *trace.Writer, seed int64) bool {
	var mu sync.Mutex
	emit := func(e trace.E) { mu.Lock(); w.Emit(e); mu.Unlock() }
	r := rand.New(rand.NewSource(seed))
	t := &ctree.Tree{}
	emit(trace.E{"ev": "reset"})
	ng := 2 + r.Intn(15)
	total := 12 + r.Intn(44)
	per := total / ng
	if per < 1 {
		per = 1
	}
	if ng > 8 && per > 2 {
		per = 2 // many goroutines: few operations each (the inference cost grows with both)
	}
	names := []string{"a", "b", "c"}[:2+r.Intn(2)]
	depth := 1 + r.Intn(3)
	values := []string{"v1", "v2", "v3"}
	var wg sync.WaitGroup
	done := make(chan struct{})
	for g := 0; g < ng; g++ {
		wg.Add(1)
		go func(g int) {
			defer wg.Done()
			gr := rand.New(rand.NewSource(seed*131 + int64(g)))
			name := fmt.Sprintf("g%d", g)
			for k := 0; k < per; k++ {
				if gr.Intn(4) == 0 {
					time.Sleep(time.Duration(gr.Intn(40)) * time.Microsecond)
				}
				p := randPath(gr, names, depth, 0)
				if len(p) == 0 {
					p = []string{names[0]}
				}
				switch x := gr.Intn(100); {
				case x < 38:
					v := values[gr.Intn(len(values))]
					emit(trace.E{"ev": "inv", "g": name, "op": "Add", "p": trace.Strs(p), "v": v})
					res := "ok"
					if err := t.Add(p, v); err != nil {
						res = "err"
					}
					emit(trace.E{"ev": "ret", "g": name, "op": "Add", "res": res})
				case x < 52:
					emit(trace.E{"ev": "inv", "g": name, "op": "Get", "p": trace.Strs(p)})
					n := t.Get(p)
					kind, val := "none", "-"
					if n != nil {
						if n.IsBranch() {
							kind = "branch"
						} else if v := n.Value(); v != nil {
							kind, val = "leaf", valStr(v)
						}
					}
					// IsBranch and Value are two further reads: only a consistent pair is a single observation
					emit(trace.E{"ev": "ret", "g": name, "op": "Get", "kind": kind, "val": val})
				case x < 66:
					q := randPath(gr, names, depth, 0.3)
					emit(trace.E{"ev": "inv", "g": name, "op": "Query", "q": trace.Strs(q)})
					leaves := []pv{}
					t.Query(q, func(qp []string, _ *ctree.Leaf, v interface{}) error {
						leaves = append(leaves, pv{trace.Strs(qp), valStr(v)})
						return nil
					})
					emit(trace.E{"ev": "ret", "g": name, "op": "Query", "leaves": leaves})
				case x < 72:
					emit(trace.E{"ev": "inv", "g": name, "op": "Walk"})
					leaves := []pv{}
					t.Walk(func(qp []string, _ *ctree.Leaf, v interface{}) error {
						leaves = append(leaves, pv{trace.Strs(qp), valStr(v)})
						return nil
					})
					emit(trace.E{"ev": "ret", "g": name, "op": "Walk", "leaves": leaves})
				case x < 88:
					q := randPath(gr, names, depth, 0.25)
					emit(trace.E{"ev": "inv", "g": name, "op": "Delete", "q": trace.Strs(q)})
					paths := [][]string{}
					for _, dp := range t.Delete(q) {
						paths = append(paths, trace.Strs(dp))
					}
					emit(trace.E{"ev": "ret", "g": name, "op": "Delete", "paths": paths})
				default:
					v := values[gr.Intn(len(values))]
					emit(trace.E{"ev": "inv", "g": name, "op": "UpdateLeaf", "p": trace.Strs(p), "v": v})
					res := "none"
					// a handle is only taken on leaves (Get + IsBranch would be two observations)
					if lf := t.GetLeaf(p); lf != nil {
						if _, isStr := lf.Value().(string); isStr {
							lf.Update(v)
							res = "ok"
						}
					}
					emit(trace.E{"ev": "ret", "g": name, "op": "UpdateLeaf", "res": res})
				}
			}
		}(g)
	}
	go func() { wg.Wait(); close(done) }()
	select {
	case <-done:
	case <-time.After(10 * time.Second):
		emit(trace.E{"ev": "hang", "what": "an operation did not return within 10 s (deadlock?)"})
		return true
	}
	proj := []pv{}
	t.Walk(func(p []string, _ *ctree.Leaf, v interface{}) error {
		proj = append(proj, pv{trace.Strs(p), valStr(v)})
		return nil
	})
	emit(trace.E{"ev": "final", "proj": proj})
	return false
}

// ctreeContend hammers a few hot leaves with queriers, walkers, handle updaters, adders on existing
// paths and a deleter/re-adder for dur, and reports whether every goroutine kept making progress.
func ctreeContend(w *trace.Writer, seed int64, dur time.Duration) bool {
	w.Emit(trace.E{"ev": "reset"})
	t := &ctree.Tree{}
	hot := [][]string{{"a", "b"}, {"a", "c"}, {"d"}}
	for _, p := range hot {
		t.Add(p, "v0")
	}
	t.Add([]string{"e", "f"}, "v0")
	const workers = 10
	var ops [workers]int64
	stop := make(chan struct{})
	var wg sync.WaitGroup
	for g := 0; g < workers; g++ {
		wg.Add(1)
		go func(g int) {
			defer wg.Done()
			r := rand.New(rand.NewSource(seed + int64(g)))
			handles := map[int]*ctree.Leaf{}
			for {
				select {
				case <-stop:
					return
				default:
				}
				k := r.Intn(len(hot))
				switch g % 5 {
				case 0: // query (exact and glob), reading the values it is handed
					q := hot[k]
					if r.Intn(2) == 0 {
						q = []string{"*"}
					}
					t.Query(q, func(_ []string, l *ctree.Leaf, v interface{}) error { _ = v; return nil })
				case 1:
					t.Walk(func(_ []string, l *ctree.Leaf, v interface{}) error { _ = v; return nil })
				case 2: // update through a retained handle
					if handles[k] == nil {
						handles[k] = t.GetLeaf(hot[k])
					}
					if handles[k] != nil {
						handles[k].Update("h")
					}
				case 3: // add on an existing path
					t.Add(hot[k], "a")
				case 4: // delete and re-add elsewhere, sometimes a hot leaf
					if r.Intn(8) == 0 {
						t.Delete(hot[k])
						t.Add(hot[k], "r")
					} else {
						t.Delete([]string{"e"})
						t.Add([]string{"e", "f"}, "r")
					}
				}
				atomic.AddInt64(&ops[g], 1)
			}
		}(g)
	}
	time.Sleep(dur)
	close(stop)
	var total int64
	for g := range ops {
		total += atomic.LoadInt64(&ops[g])
	}
	joined := make(chan struct{})
	go func() { wg.Wait(); close(joined) }()
	select {
	case <-joined:
	case <-time.After(5 * time.Second):
		// every operation takes microseconds: a goroutine that has not come back is stuck inside the tree
		w.Emit(trace.E{"ev": "hang", "what": "a goroutine did not return from a tree operation for 5 s under contention (deadlock?)", "ops": total})
		return true
	}
	w.Emit(trace.E{"ev": "contend", "ops": total, "progress": true, "workers": workers})
	return false
}

func ctreeConc(args []string) error {
	fs := flag.NewFlagSet("ctree conc", flag.ContinueOnError)
	contend := fs.Int("contend", 0, "contention rounds (150 ms each) after the histories")
	n := fs.Int("n", 300, "histories")
	out := fs.String("out", "", "output directory")
	shards := fs.Int("shards", 16, "trace files")
	if err := fs.Parse(args); err != nil {
		return err
	}
	ss, err := newShards(*out, "conc", *shards)
	if err != nil {
		return err
	}
	ctree.VerifHook = ctreeHook
	atomic.StoreInt32(&ctreeDelay, 1)
	seed := seedFromEnv()
	var wg sync.WaitGroup
	var hangs int64
	for s := 0; s < len(ss.ws); s++ {
		wg.Add(1)
		go func(s int) {
			defer wg.Done()
			for i := s; i < *n; i += len(ss.ws) {
				if ctreeHistory(ss.ws[s], seed*7368787+int64(i)) {
					atomic.AddInt64(&hangs, 1)
				}
			}
		}(s)
	}
	wg.Wait()
	atomic.StoreInt32(&ctreeDelay, 0)
	for i := 0; i < *contend && hangs == 0; i++ {
		if ctreeContend(ss.ws[i%len(ss.ws)], seed*31+int64(i), 150*time.Millisecond) {
			hangs++
		}
	}
	ev := ss.close()
	fmt.Printf("DRV ctree conc histories=%d contention_rounds=%d events=%d hangs=%d\n", *n, *contend, ev, hangs)
	return nil
}
