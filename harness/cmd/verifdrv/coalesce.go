package main

import (
	"context"
	"flag"
	"fmt"
	"math/rand"
	"runtime"
	"sync"
	"time"

	"github.com/openconfig/gnmi/coalesce"
	"verifharness/internal/trace"
)

// coalesce family (C11).
//
//   verifdrv coalesce seq  -len L -out DIR -shards K        every sequence of length L over {Insert a/b/c, Next, Close, IsClosed}
//   verifdrv coalesce rand -n N -len L -out DIR -shards K   seeded random long sequences
//   verifdrv coalesce conc -n N -out DIR -shards K          concurrent histories (producers, one consumer, closer, canceller)

func init() { register("coalesce", coalesceMain) }

var (
	cancelledCtx = func() context.Context { c, f := context.WithCancel(context.Background()); f(); return c }()
)

type coalSeq struct {
	q *coalesce.Queue
	w *trace.Writer
}

func (d *coalSeq) reset() {
	d.q = coalesce.NewQueue()
	d.w.Emit(trace.E{"ev": "reset"})
}

func (d *coalSeq) do(op string) {
	switch op[0] {
	case 'I':
		item := op[1:]
		fresh, err := d.q.Insert(item)
		res := "coalesced"
		if err != nil {
			res = "refused"
			if !coalesce.IsClosedQueue(err) {
				res = "error"
			}
		} else if fresh {
			res = "fresh"
		}
		d.w.Emit(trace.E{"ev": "Insert", "i": item, "res": res, "len": d.q.Len()})
	case 'N', 'X':
		// Never block: a background context when Next can answer at once,
		// an already cancelled one when it would have to wait.
		// 'X': a cancelled context although something is pending - what is pending is delivered all the same.
		ctx := context.Background()
		if (d.q.Len() == 0 && !d.q.IsClosed()) || (op[0] == 'X' && d.q.Len() > 0) {
			ctx = cancelledCtx
		}
		it, dup, err := d.q.Next(ctx)
		switch {
		case err == nil:
			d.w.Emit(trace.E{"ev": "Next", "kind": "item", "i": fmt.Sprint(it), "dup": dup, "len": d.q.Len()})
		case coalesce.IsClosedQueue(err):
			d.w.Emit(trace.E{"ev": "Next", "kind": "closed", "len": d.q.Len()})
		case err == context.Canceled:
			d.w.Emit(trace.E{"ev": "Next", "kind": "empty", "len": d.q.Len()})
		default:
			d.w.Emit(trace.E{"ev": "Next", "kind": "error:" + err.Error(), "len": d.q.Len()})
		}
	case 'C':
		d.q.Close()
		d.w.Emit(trace.E{"ev": "Close", "len": d.q.Len()})
	case 'Q':
		d.w.Emit(trace.E{"ev": "IsClosed", "res": d.q.IsClosed()})
	}
}

var coalOps = []string{"Ia", "Ib", "Ic", "N", "C", "Q", "X"}

func coalesceSeq(args []string) error {
	fs := flag.NewFlagSet("coalesce seq", flag.ContinueOnError)
	length := fs.Int("len", 5, "sequence length")
	out := fs.String("out", "", "output directory")
	shards := fs.Int("shards", 16, "trace files")
	if err := fs.Parse(args); err != nil {
		return err
	}
	ss, err := newShards(*out, "seq", *shards)
	if err != nil {
		return err
	}
	total := 1
	for i := 0; i < *length; i++ {
		total *= len(coalOps)
	}
	for n := 0; n < total; n++ {
		d := &coalSeq{w: ss.ws[n%len(ss.ws)]}
		d.reset()
		x := n
		for k := 0; k < *length; k++ {
			d.do(coalOps[x%len(coalOps)])
			x /= len(coalOps)
		}
	}
	ev := ss.close()
	fmt.Printf("DRV coalesce seq sequences=%d events=%d\n", total, ev)
	return nil
}

func coalesceRand(args []string) error {
	fs := flag.NewFlagSet("coalesce rand", flag.ContinueOnError)
	n := fs.Int("n", 100, "sequences")
	length := fs.Int("len", 200, "sequence length")
	out := fs.String("out", "", "output directory")
	shards := fs.Int("shards", 16, "trace files")
	if err := fs.Parse(args); err != nil {
		return err
	}
	ss, err := newShards(*out, "rand", *shards)
	if err != nil {
		return err
	}
	seed := seedFromEnv()
	items := []string{"a", "b", "c", "d", "e", "f", "g", "h"}
	for s := 0; s < *n; s++ {
		r := rand.New(rand.NewSource(seed*104729 + int64(s)))
		d := &coalSeq{w: ss.ws[s%len(ss.ws)]}
		d.reset()
		k := 2 + r.Intn(len(items)-1)
		closeAt := r.Intn(*length * 2)
		for i := 0; i < *length; i++ {
			switch x := r.Intn(10); {
			case i == closeAt:
				d.do("C")
			case x < 6:
				d.do("I" + items[r.Intn(k)])
			case x < 9:
				d.do([]string{"N", "N", "X"}[r.Intn(3)])
			default:
				d.do("Q")
			}
		}
	}
	ev := ss.close()
	fmt.Printf("DRV coalesce rand sequences=%d events=%d\n", *n, ev)
	return nil
}

// ---- concurrent histories ----

// Hook-point delays widen the windows between the steps of Insert and Next
// (closed check | locked insert | token send ; failed next | select).
type coalDelays struct {
	mu sync.Mutex
	r  *rand.Rand
	p  map[string]int // per point: probability (percent) of a delay
}

var coalPlans sync.Map // *coalesce.Queue -> *coalDelays

func coalHook(point string, arg interface{}) {
	v, ok := coalPlans.Load(arg)
	if !ok {
		return
	}
	d := v.(*coalDelays)
	d.mu.Lock()
	hit := d.r.Intn(100) < d.p[point]
	us := d.r.Intn(250)
	d.mu.Unlock()
	if hit {
		time.Sleep(time.Duration(us) * time.Microsecond)
	}
}

type coalHist struct {
	w  *trace.Writer
	mu sync.Mutex
}

// emit serialises event emission: the file order is a real-time order.
func (h *coalHist) emit(e trace.E) {
	h.mu.Lock()
	h.w.Emit(e)
	h.mu.Unlock()
}

func jitter(r *rand.Rand) {
	switch r.Intn(6) {
	case 0:
		runtime.Gosched()
	case 1:
		time.Sleep(time.Duration(r.Intn(30)) * time.Microsecond)
	}
}

func coalesceHistory(h *coalHist, seed int64) (hung bool) {
	r := rand.New(rand.NewSource(seed))
	q := coalesce.NewQueue()
	coalPlans.Store(q, &coalDelays{r: rand.New(rand.NewSource(seed ^ 0x2545F491)), p: map[string]int{
		"next.empty": []int{0, 50, 90}[r.Intn(3)], "insert.checked": []int{0, 30, 70}[r.Intn(3)], "insert.done": []int{0, 30, 70}[r.Intn(3)]}})
	defer coalPlans.Delete(q)
	h.emit(trace.E{"ev": "reset"})
	np := 1 + r.Intn(4)
	per := 1 + r.Intn(4)
	nitems := 1 + r.Intn(3)
	items := []string{"a", "b", "c"}[:nitems]
	ctx, cancel := context.WithCancel(context.Background())
	defer cancel()
	// 0: close at end, 1: close mid-way, 2: cancel mid-way, 3: close and cancel,
	// 4: producer 0 closes right after its last insert (as the ONCE walk does)
	mode := r.Intn(5)
	var wg sync.WaitGroup
	consumerDone := make(chan struct{})
	go func() {
		defer close(consumerDone)
		cr := rand.New(rand.NewSource(seed ^ 0x5bd1e995))
		for {
			h.emit(trace.E{"ev": "inv", "g": "c", "op": "Next"})
			it, dup, err := q.Next(ctx)
			switch {
			case err == nil:
				h.emit(trace.E{"ev": "ret", "g": "c", "op": "Next", "res": trace.E{"kind": "item", "i": fmt.Sprint(it), "dup": dup}})
			case coalesce.IsClosedQueue(err):
				h.emit(trace.E{"ev": "ret", "g": "c", "op": "Next", "res": trace.E{"kind": "closed"}})
				return
			case err == context.Canceled:
				h.emit(trace.E{"ev": "ret", "g": "c", "op": "Next", "res": trace.E{"kind": "cancelled"}})
				return
			default:
				h.emit(trace.E{"ev": "ret", "g": "c", "op": "Next", "res": trace.E{"kind": "error:" + err.Error()}})
				return
			}
			jitter(cr)
		}
	}()
	for p := 0; p < np; p++ {
		wg.Add(1)
		go func(p int) {
			defer wg.Done()
			pr := rand.New(rand.NewSource(seed*31 + int64(p)))
			g := fmt.Sprintf("p%d", p)
			for k := 0; k < per; k++ {
				it := items[pr.Intn(len(items))]
				jitter(pr)
				h.emit(trace.E{"ev": "inv", "g": g, "op": "Insert", "i": it})
				fresh, err := q.Insert(it)
				kind := "coalesced"
				if err != nil {
					kind = "refused"
				} else if fresh {
					kind = "fresh"
				}
				h.emit(trace.E{"ev": "ret", "g": g, "op": "Insert", "res": trace.E{"kind": kind}})
			}
			if mode == 4 && p == 0 {
				h.emit(trace.E{"ev": "inv", "g": g, "op": "Close"})
				q.Close()
				h.emit(trace.E{"ev": "ret", "g": g, "op": "Close", "res": trace.E{"kind": "ok"}})
			}
		}(p)
	}
	doClose := func() {
		h.emit(trace.E{"ev": "inv", "g": "x", "op": "Close"})
		q.Close()
		h.emit(trace.E{"ev": "ret", "g": "x", "op": "Close", "res": trace.E{"kind": "ok"}})
	}
	doCancel := func() {
		h.emit(trace.E{"ev": "inv", "g": "y", "op": "Cancel"})
		cancel()
		h.emit(trace.E{"ev": "ret", "g": "y", "op": "Cancel", "res": trace.E{"kind": "ok"}})
	}
	if mode >= 1 && mode <= 3 {
		wg.Add(1)
		go func() {
			defer wg.Done()
			time.Sleep(time.Duration(r.Intn(120)) * time.Microsecond)
			if mode == 1 || mode == 3 {
				doClose()
			}
			if mode == 2 || mode == 3 {
				doCancel()
			}
		}()
	}
	wg.Wait()
	// Every insertion has returned. Unless the consumer was cancelled it must
	// drain what is pending without any further insertion (no lost wake-up).
	if mode == 0 || mode == 1 || mode == 4 {
		deadline := time.Now().Add(5 * time.Second)
		for q.Len() > 0 && mode == 0 {
			if time.Now().After(deadline) {
				h.emit(trace.E{"ev": "hang", "what": "consumer does not drain pending items", "len": q.Len()})
				return true
			}
			time.Sleep(20 * time.Microsecond)
		}
		if mode == 0 {
			doClose()
		}
	}
	select {
	case <-consumerDone:
	case <-time.After(5 * time.Second):
		h.emit(trace.E{"ev": "hang", "what": "consumer not woken by close/cancel", "len": q.Len()})
		return true
	}
	h.emit(trace.E{"ev": "final", "len": q.Len()})
	return false
}

func coalesceConc(args []string) error {
	fs := flag.NewFlagSet("coalesce conc", flag.ContinueOnError)
	n := fs.Int("n", 200, "histories")
	out := fs.String("out", "", "output directory")
	shards := fs.Int("shards", 16, "trace files")
	if err := fs.Parse(args); err != nil {
		return err
	}
	ss, err := newShards(*out, "conc", *shards)
	if err != nil {
		return err
	}
	seed := seedFromEnv()
	coalesce.VerifHook = coalHook
	var wg sync.WaitGroup
	hangs := 0
	var mu sync.Mutex
	for s := 0; s < len(ss.ws); s++ {
		wg.Add(1)
		go func(s int) {
			defer wg.Done()
			h := &coalHist{w: ss.ws[s]}
			for i := s; i < *n; i += len(ss.ws) {
				if coalesceHistory(h, seed*1000003+int64(i)) {
					mu.Lock()
					hangs++
					mu.Unlock()
				}
			}
		}(s)
	}
	wg.Wait()
	ev := ss.close()
	fmt.Printf("DRV coalesce conc histories=%d events=%d hangs=%d\n", *n, ev, hangs)
	return nil
}

func coalesceMain(args []string) error {
	if len(args) == 0 {
		return fmt.Errorf("coalesce: need a mode")
	}
	switch args[0] {
	case "seq":
		return coalesceSeq(args[1:])
	case "rand":
		return coalesceRand(args[1:])
	case "conc":
		return coalesceConc(args[1:])
	case "enum":
		return coalesceEnum(args[1:])
	case "duel":
		return coalesceDuel(args[1:])
	}
	return fmt.Errorf("coalesce: unknown mode %q", args[0])
}
