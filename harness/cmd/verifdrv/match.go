package main

import (
	"flag"
	"fmt"
	"math/rand"
	"sort"

	"github.com/openconfig/gnmi/match"
	"verifharness/internal/trace"
)

// match family (C06).
//
//   verifdrv match pairs -names a,b,* -max 4 -out DIR -shards K    the full (query, update path) pair space
//   verifdrv match rand  -n N -len L -out DIR -shards K            random add/remove/update sequences by several clients

func init() { register("match", matchMain) }

type countClient struct {
	name string
	n    int
}

func (c *countClient) Update(interface{}) { c.n++ }

func matchPairs(args []string) error {
	fs := flag.NewFlagSet("match pairs", flag.ContinueOnError)
	namesF := fs.String("names", "a,b,*", "alphabet")
	max := fs.Int("max", 4, "longest path")
	out := fs.String("out", "", "output directory")
	shards := fs.Int("shards", 16, "trace files")
	if err := fs.Parse(args); err != nil {
		return err
	}
	ss, err := newShards(*out, "pairs", *shards)
	if err != nil {
		return err
	}
	paths := pathsUpTo(splitComma(*namesF), *max)
	n := 0
	for _, q := range paths {
		for _, p := range paths {
			m := match.New()
			c := &countClient{name: "c1"}
			m.AddQuery(q, c)
			m.Update(struct{}{}, p)
			ss.ws[n%len(ss.ws)].Emit(trace.E{"ev": "pair", "q": trace.Strs(q), "p": trace.Strs(p), "n": c.n})
			n++
		}
	}
	ev := ss.close()
	fmt.Printf("DRV match pairs pairs=%d events=%d\n", n, ev)
	return nil
}

func splitComma(s string) []string {
	out := []string{}
	cur := ""
	for _, r := range s {
		if r == ',' {
			out = append(out, cur)
			cur = ""
		} else {
			cur += string(r)
		}
	}
	return append(out, cur)
}

func matchRand(args []string) error {
	fs := flag.NewFlagSet("match rand", flag.ContinueOnError)
	n := fs.Int("n", 100, "sequences")
	length := fs.Int("len", 100, "operations per sequence")
	out := fs.String("out", "", "output directory")
	shards := fs.Int("shards", 16, "trace files")
	if err := fs.Parse(args); err != nil {
		return err
	}
	ss, err := newShards(*out, "rand", *shards)
	if err != nil {
		return err
	}
	seed := seedFromEnv()
	for s := 0; s < *n; s++ {
		r := rand.New(rand.NewSource(seed*15485863 + int64(s)))
		w := ss.ws[s%len(ss.ws)]
		w.Emit(trace.E{"ev": "reset"})
		m := match.New()
		names := []string{"a", "b", "c", "d"}[:2+r.Intn(3)]
		maxLen := 1 + r.Intn(4)
		clients := []*countClient{}
		for i, k := 0, 1+r.Intn(4); i < k; i++ {
			clients = append(clients, &countClient{name: fmt.Sprintf("c%d", i+1)})
		}
		type handle struct {
			id     int
			remove func()
		}
		var handles []handle
		nextID := 1
		counts := func() []trace.E {
			out := []trace.E{}
			for _, c := range clients {
				out = append(out, trace.E{"c": c.name, "n": c.n})
				c.n = 0
			}
			sort.Slice(out, func(i, j int) bool { return out[i]["c"].(string) < out[j]["c"].(string) })
			return out
		}
		for k := 0; k < *length; k++ {
			switch x := r.Intn(10); {
			case x < 3:
				c := clients[r.Intn(len(clients))]
				q := randPath(r, names, maxLen, 0.25)
				h := handle{id: nextID, remove: m.AddQuery(q, c)}
				nextID++
				handles = append(handles, h)
				w.Emit(trace.E{"ev": "add", "c": c.name, "q": trace.Strs(q), "h": h.id})
			case x < 5 && len(handles) > 0:
				h := handles[r.Intn(len(handles))] // may be removed twice: idempotent
				h.remove()
				w.Emit(trace.E{"ev": "remove", "h": h.id})
			case x < 8:
				p := randPath(r, names, maxLen+1, 0.15)
				m.Update(struct{}{}, p)
				w.Emit(trace.E{"ev": "update", "p": trace.Strs(p), "counts": counts()})
			default:
				ps := [][]string{}
				updated := map[match.Client]struct{}{}
				for i, np := 0, 1+r.Intn(3); i < np; i++ {
					p := randPath(r, names, maxLen+1, 0.15)
					ps = append(ps, trace.Strs(p))
					m.UpdateOnce(struct{}{}, p, updated)
				}
				w.Emit(trace.E{"ev": "updateonce", "ps": ps, "counts": counts()})
			}
		}
	}
	ev := ss.close()
	fmt.Printf("DRV match rand sequences=%d events=%d\n", *n, ev)
	return nil
}

func matchMain(args []string) error {
	if len(args) == 0 {
		return fmt.Errorf("match: need a mode")
	}
	switch args[0] {
	case "pairs":
		return matchPairs(args[1:])
	case "rand":
		return matchRand(args[1:])
	}
	return fmt.Errorf("match: unknown mode %q", args[0])
}
