package main

import (
	"flag"
	"fmt"
	"math"
	"math/rand"
	"sort"

	gpb "github.com/openconfig/gnmi/proto/gnmi"
	epb "github.com/openconfig/gnmi/proto/gnmi_ext"
	tpb "github.com/openconfig/gnmi/proto/target"
	"github.com/openconfig/gnmi/target"
	"verifharness/internal/trace"
)

// target family (C17): target.Config.
//
//   verifdrv targetcfg pairs -second K -out DIR -shards N    every valid base config of the small universe x K (0 = all) second configs
//   verifdrv targetcfg random -n N -len L -out DIR -shards N  random histories over larger name sets

func init() { register("targetcfg", targetcfgMain) }

type tRec struct {
	N     string `json:"n"`
	Nil   bool   `json:"nil"`
	Addr  bool   `json:"addr"`
	Req   string `json:"req"`
	Extra string `json:"extra"`
}

type rRec struct {
	N string `json:"n"`
	C string `json:"c"`
}

type cfgRec struct {
	Rev int    `json:"rev"`
	T   []tRec `json:"t"`
	R   []rRec `json:"r"`
}

// revStep: 0 = revisions are what the records say; otherwise record revisions are ranks and the real revision of rank k
// is MinInt64 + k*revStep (ranks 0..15): revisions spread over the whole int64 range, order preserved. The
// specification only compares revisions, so it reads ranks. (Scenarios run one at a time.)
var revStep int64

func revOf(rank int) int64 {
	if revStep == 0 {
		return int64(rank)
	}
	return math.MinInt64 + int64(rank)*revStep
}

func rankOf(rev int64) int {
	if revStep == 0 {
		return int(rev)
	}
	return int((uint64(rev) - uint64(1)<<63) / uint64(revStep)) // offset from MinInt64, computed in unsigned arithmetic
}

func (c cfgRec) build() *tpb.Configuration {
	out := &tpb.Configuration{Revision: revOf(c.Rev), Target: map[string]*tpb.Target{}, Request: map[string]*gpb.SubscribeRequest{}}
	for _, t := range c.T {
		if t.Nil {
			out.Target[t.N] = nil
			continue
		}
		x := &tpb.Target{Request: t.Req, Dialer: t.Extra}
		if t.Addr {
			x.Addresses = []string{"addr"}
		}
		out.Target[t.N] = x
	}
	for _, r := range c.R {
		out.Request[r.N] = buildReq(r.C)
	}
	return out
}

// The content token of a request is carried in different parts of the message, so that two contents may differ in the
// subscription list (c1/c3, c2/c3), only in the request's extensions (c1/c2), or only in which request it is (c1/c4):
//
//	c1  Subscribe{prefix origin "c"}            c2  the same + a registered extension carrying "c2"
//	c4  Poll                                     anything else: Subscribe{prefix origin <token>}
func buildReq(c string) *gpb.SubscribeRequest {
	sub := func(o string) *gpb.SubscribeRequest {
		return &gpb.SubscribeRequest{Request: &gpb.SubscribeRequest_Subscribe{Subscribe: &gpb.SubscriptionList{Prefix: &gpb.Path{Origin: o}}}}
	}
	switch c {
	case "c1":
		return sub("c")
	case "c2":
		r := sub("c")
		r.Extension = []*epb.Extension{{Ext: &epb.Extension_RegisteredExt{RegisteredExt: &epb.RegisteredExtension{Id: epb.ExtensionID_EID_EXPERIMENTAL, Msg: []byte("c2")}}}}
		return r
	case "c4":
		return &gpb.SubscribeRequest{Request: &gpb.SubscribeRequest_Poll{Poll: &gpb.Poll{}}}
	}
	return sub(c)
}

func projTarget(n string, t *tpb.Target) tRec {
	if t == nil {
		return tRec{N: n, Nil: true, Extra: "e0"}
	}
	return tRec{N: n, Addr: len(t.GetAddresses()) > 0, Req: t.GetRequest(), Extra: t.GetDialer()}
}

func projReq(r *gpb.SubscribeRequest) string {
	if r == nil {
		return "-missing-"
	}
	if r.GetPoll() != nil {
		return "c4"
	}
	if e := r.GetExtension(); len(e) > 0 {
		return string(e[0].GetRegisteredExt().GetMsg())
	}
	if o := r.GetSubscribe().GetPrefix().GetOrigin(); o != "c" {
		return o
	}
	return "c1"
}

func projCfg(c *tpb.Configuration) cfgRec {
	out := cfgRec{Rev: rankOf(c.GetRevision()), T: []tRec{}, R: []rRec{}}
	for n, t := range c.GetTarget() {
		out.T = append(out.T, projTarget(n, t))
	}
	for n, r := range c.GetRequest() {
		out.R = append(out.R, rRec{n, projReq(r)})
	}
	sort.Slice(out.T, func(i, j int) bool { return out.T[i].N < out.T[j].N })
	sort.Slice(out.R, func(i, j int) bool { return out.R[i].N < out.R[j].N })
	return out
}

type tcDrv struct {
	w     *trace.Writer
	c     *target.Config
	calls []trace.E
}

func (d *tcDrv) handler() target.Handler {
	return target.Handler{
		Add: func(u target.Update) {
			d.calls = append(d.calls, trace.E{"k": "add", "n": u.Name, "t": projTarget(u.Name, u.Target), "c": projReq(u.Request)})
		},
		Update: func(u target.Update) {
			d.calls = append(d.calls, trace.E{"k": "update", "n": u.Name, "t": projTarget(u.Name, u.Target), "c": projReq(u.Request)})
		},
		Delete: func(n string) { d.calls = append(d.calls, trace.E{"k": "delete", "n": n}) },
	}
}

func (d *tcDrv) reset() {
	d.w.Emit(trace.E{"ev": "reset"})
	d.c = target.NewConfig(d.handler())
}

func (d *tcDrv) base(c cfgRec) {
	cf, err := target.NewConfigWithBase(d.handler(), c.build())
	res := "ok"
	if err != nil {
		res = "err"
	} else {
		d.c = cf
	}
	d.w.Emit(trace.E{"ev": "base", "cfg": c, "res": res})
}

func (d *tcDrv) load(c cfgRec) {
	d.calls = []trace.E{}
	err := d.c.Load(c.build()) // a fresh proto object per load
	res := "ok"
	if err != nil {
		res = "err"
	}
	cur := cfgRec{Rev: -1, T: []tRec{}, R: []rRec{}}
	if cc := d.c.Current(); cc != nil {
		cur = projCfg(cc)
	}
	d.w.Emit(trace.E{"ev": "load", "cfg": c, "res": res, "calls": d.calls, "cur": cur})
}

func tcUniverse(tnames, rnames, contents []string, revs []int) []cfgRec {
	var topts [][]tRec // per name: options, first = absent (nil slice)
	for _, n := range tnames {
		o := []tRec{{N: "-absent-"}, {N: n, Nil: true, Extra: "e0"}, {N: n, Addr: false, Req: rnames[0], Extra: "e0"}, {N: n, Addr: true, Req: "", Extra: "e0"}}
		for _, q := range rnames {
			for _, e := range []string{"e0", "e1"} {
				o = append(o, tRec{N: n, Addr: true, Req: q, Extra: e})
			}
		}
		topts = append(topts, o)
	}
	var tsets [][]tRec
	var rec func(i int, cur []tRec)
	rec = func(i int, cur []tRec) {
		if i == len(topts) {
			tsets = append(tsets, append([]tRec{}, cur...))
			return
		}
		for _, o := range topts[i] {
			if o.N == "-absent-" {
				rec(i+1, cur)
			} else {
				rec(i+1, append(cur, o))
			}
		}
	}
	rec(0, nil)
	var rsets [][]rRec
	var rrec func(i int, cur []rRec)
	rrec = func(i int, cur []rRec) {
		if i == len(rnames) {
			rsets = append(rsets, append([]rRec{}, cur...))
			return
		}
		rrec(i+1, cur)
		for _, c := range contents {
			rrec(i+1, append(cur, rRec{rnames[i], c}))
		}
	}
	rrec(0, nil)
	var out []cfgRec
	for _, v := range revs {
		for _, ts := range tsets {
			for _, rs := range rsets {
				out = append(out, cfgRec{Rev: v, T: append([]tRec{}, ts...), R: append([]rRec{}, rs...)})
			}
		}
	}
	return out
}

func tcValid(c cfgRec) bool { return target.Validate(c.build()) == nil }

func targetcfgPairs(args []string) error {
	fs := flag.NewFlagSet("targetcfg pairs", flag.ContinueOnError)
	second := fs.Int("second", 150, "second configurations per base (0 = all)")
	out := fs.String("out", "", "output directory")
	shards := fs.Int("shards", 16, "trace files")
	if err := fs.Parse(args); err != nil {
		return err
	}
	ss, err := newShards(*out, "pairs", *shards)
	if err != nil {
		return err
	}
	// the request names of the small universe coincide with a target name and differ from it: one namespace each
	uni := tcUniverse([]string{"t1", "t2"}, []string{"t1", "r2"}, []string{"c1", "c2"}, []int{0, 1, 2})
	r := rand.New(rand.NewSource(seedFromEnv()))
	n, nb := 0, 0
	for _, b := range uni {
		if !tcValid(b) || b.Rev == 2 {
			continue // the base is only used to pick inputs; validity of every load is decided by the specification
		}
		nb++
		idx := r.Perm(len(uni))
		if *second > 0 && *second < len(idx) {
			idx = idx[:*second]
		}
		for _, i := range idx {
			d := &tcDrv{w: ss.ws[n%len(ss.ws)]}
			d.reset()
			if n%2 == 0 {
				d.load(b)
			} else {
				d.base(b)
			}
			d.load(uni[i])
			n++
		}
	}
	ev := ss.close()
	fmt.Printf("DRV targetcfg pairs universe=%d bases=%d pairs=%d events=%d\n", len(uni), nb, n, ev)
	return nil
}

func targetcfgRandom(args []string) error {
	fs := flag.NewFlagSet("targetcfg random", flag.ContinueOnError)
	n := fs.Int("n", 200, "histories")
	length := fs.Int("len", 12, "loads per history")
	out := fs.String("out", "", "output directory")
	shards := fs.Int("shards", 16, "trace files")
	if err := fs.Parse(args); err != nil {
		return err
	}
	ss, err := newShards(*out, "rand", *shards)
	if err != nil {
		return err
	}
	seed := seedFromEnv()
	for h := 0; h < *n; h++ {
		r := rand.New(rand.NewSource(seed*7127 + int64(h)))
		d := &tcDrv{w: ss.ws[h%len(ss.ws)]}
		d.reset()
		tn := []string{"t1", "t2", "t3", "t4", "t5", "t6", "t7", "t8"}[:2+r.Intn(7)]
		rn := []string{"r1", "r2", "r3", "r4"}[:1+r.Intn(4)]
		revStep = 0
		if r.Intn(4) == 0 {
			revStep = 1 << 60 // rank 0 = MinInt64, rank 15 = MaxInt64 - 2^60 + 1
		}
		if r.Intn(3) == 0 {
			// requests named like targets (a request per device): the two key spaces are independent
			rn = append([]string{}, tn[:1+r.Intn(len(tn))]...)
			if len(rn) > 4 {
				rn = rn[:4]
			}
		}
		cur := cfgRec{Rev: 0, T: []tRec{}, R: []rRec{}}
		for k := 0; k < *length; k++ {
			// edit the previous configuration: rename+edit requests, re-point / add / remove / edit targets
			nx := cfgRec{Rev: cur.Rev + r.Intn(3) - r.Intn(2), T: []tRec{}, R: []rRec{}}
			if nx.Rev < 0 {
				nx.Rev = 0
			}
			if revStep != 0 {
				// revisions at the ends of the int64 range: quick climbs, and far-stale configurations coming back
				nx.Rev = cur.Rev + r.Intn(4)
				if nx.Rev < 0 {
					nx.Rev = 0
				}
				if r.Intn(3) == 0 {
					nx.Rev = 0
					if cur.Rev > 0 {
						nx.Rev = r.Intn(cur.Rev + 1)
					}
				}
				if nx.Rev > 15 {
					nx.Rev = 15
				}
			}
			for _, q := range rn {
				if r.Intn(5) > 0 {
					nx.R = append(nx.R, rRec{q, []string{"c1", "c2", "c3", "c4"}[r.Intn(4)]})
				}
			}
			for _, t := range tn {
				switch x := r.Intn(20); {
				case x < 5: // absent
				case x == 5:
					nx.T = append(nx.T, tRec{N: t, Nil: true, Extra: "e0"})
				case x == 6:
					nx.T = append(nx.T, tRec{N: t, Addr: false, Req: rn[0], Extra: "e0"})
				case x == 7:
					nx.T = append(nx.T, tRec{N: t, Addr: true, Req: "", Extra: "e0"})
				case x == 8:
					nx.T = append(nx.T, tRec{N: t, Addr: true, Req: "dangling", Extra: "e0"})
				default:
					q := rn[r.Intn(len(rn))]
					if len(nx.R) > 0 {
						q = nx.R[r.Intn(len(nx.R))].N
					}
					nx.T = append(nx.T, tRec{N: t, Addr: true, Req: q, Extra: []string{"e0", "e1"}[r.Intn(2)]})
				}
			}
			if r.Intn(15) == 0 {
				nx.T = append(nx.T, tRec{N: "", Addr: true, Req: rn[0], Extra: "e0"})
			}
			d.load(nx)
			if cc := d.c.Current(); cc != nil {
				cur = projCfg(cc)
			}
		}
	}
	ev := ss.close()
	fmt.Printf("DRV targetcfg random histories=%d events=%d\n", *n, ev)
	return nil
}

func targetcfgMain(args []string) error {
	if len(args) == 0 {
		return fmt.Errorf("targetcfg: need a mode")
	}
	switch args[0] {
	case "pairs":
		return targetcfgPairs(args[1:])
	case "random":
		return targetcfgRandom(args[1:])
	}
	return fmt.Errorf("targetcfg: unknown mode %q", args[0])
}
