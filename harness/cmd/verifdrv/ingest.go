package main

import (
	"bufio"
	"bytes"
	"context"
	"encoding/json"
	"flag"
	"fmt"
	"io"
	"math"
	"net"
	"os"
	"runtime/debug"
	"sort"
	"strings"
	"sync"
	"sync/atomic"
	"time"

	"google.golang.org/grpc/metadata"
	"google.golang.org/grpc/peer"
	"google.golang.org/protobuf/types/known/anypb"

	"github.com/openconfig/gnmi/cache"
	"github.com/openconfig/gnmi/cli"
	"github.com/openconfig/gnmi/client"
	gclient "github.com/openconfig/gnmi/client/gnmi"
	"github.com/openconfig/gnmi/ctree"
	pb "github.com/openconfig/gnmi/proto/gnmi"
	"github.com/openconfig/gnmi/subscribe"
	"verifharness/internal/trace"
)

// ingest family (C12): vectors enumerated by TLC from Ingest.tla are materialised
// as real protobuf messages and fed to the real entry points under recover().
//
//   verifdrv ingest run -family noti|subreq|resp -vectors F -out DIR -shards K

func init() { register("ingest", ingestMain) }

type step = trace.E

// guarded runs f; outcome "ok" | "error" | "panic", with the panic site.
func guarded(f func() error) (outcome, site string) {
	defer func() {
		if r := recover(); r != nil {
			outcome = "panic"
			site = fmt.Sprint(r)
			for _, ln := range strings.Split(string(debug.Stack()), "\n") {
				if ln = strings.Replace(ln, repoRoot()+"/", "/repo/", 1); strings.Contains(ln, "/repo/") {
					site += " @ " + strings.TrimSpace(strings.Split(ln, " +")[0])
					break
				}
			}
		}
	}()
	if err := f(); err != nil {
		return "error", ""
	}
	return "ok", ""
}

func cacheDump(c *cache.Cache) string {
	var out []string
	c.Query("*", []string{}, func(p []string, _ *ctree.Leaf, v interface{}) error {
		n, _ := v.(*pb.Notification)
		tok := ""
		if n != nil && len(n.GetUpdate()) > 0 {
			tok = valTok(n.GetUpdate()[0].GetVal())
		}
		if !isMetaIdx(p) { // metadata counters legitimately move when a message is refused
			out = append(out, strings.Join(p, "/")+"="+tok+"@"+fmt.Sprint(n.GetTimestamp()))
		}
		return nil
	})
	sort.Strings(out)
	return strings.Join(out, ";")
}

func shapePrefix(s string) *pb.Path {
	switch s {
	case "nil":
		return nil
	case "empty":
		return &pb.Path{}
	case "target":
		return &pb.Path{Target: "dev1"}
	case "target_origin":
		return &pb.Path{Target: "dev1", Origin: "oc"}
	case "target_origin_meta":
		return &pb.Path{Target: "dev1", Origin: "meta"}
	case "target_elems":
		return &pb.Path{Target: "dev1", Elem: pathElems("a")}
	case "target_meta":
		return &pb.Path{Target: "dev1", Elem: pathElems("meta")}
	case "target_element":
		return &pb.Path{Target: "dev1", Element: []string{"a"}}
	}
	panic("prefix shape " + s)
}

func shapePath(s string, k int) *pb.Path {
	last := []string{"b", "c", "d"}[k%3]
	switch s {
	case "nil":
		return nil
	case "empty":
		return &pb.Path{}
	case "meta":
		return &pb.Path{Elem: pathElems("meta")}
	case "meta_sync":
		return &pb.Path{Elem: pathElems("meta", "sync")}
	case "meta_connected":
		return &pb.Path{Elem: pathElems("meta", "connected")}
	case "meta_connectError":
		return &pb.Path{Elem: pathElems("meta", "connectError")}
	case "meta_leaves":
		return &pb.Path{Elem: pathElems("meta", "targetLeaves")}
	case "normal":
		return &pb.Path{Elem: pathElems("a", last)}
	case "keyed":
		return &pb.Path{Elem: []*pb.PathElem{{Name: "a"}, {Name: last, Key: map[string]string{"k": "x"}}}}
	case "glob":
		return &pb.Path{Elem: pathElems("a", "*")}
	case "element":
		return &pb.Path{Element: []string{"a", last}}
	}
	panic("path shape " + s)
}

func shapeVal(s string, u *pb.Update) {
	switch s {
	case "nil":
	case "no_arm":
		u.Val = &pb.TypedValue{}
	case "int":
		u.Val = &pb.TypedValue{Value: &pb.TypedValue_IntVal{IntVal: 7}}
	case "string":
		u.Val = &pb.TypedValue{Value: &pb.TypedValue_StringVal{StringVal: "s"}}
	case "bool":
		u.Val = &pb.TypedValue{Value: &pb.TypedValue_BoolVal{BoolVal: true}}
	case "leaflist":
		u.Val = &pb.TypedValue{Value: &pb.TypedValue_LeaflistVal{LeaflistVal: &pb.ScalarArray{Element: []*pb.TypedValue{{Value: &pb.TypedValue_StringVal{StringVal: "x"}}, nil}}}}
	case "json":
		u.Val = &pb.TypedValue{Value: &pb.TypedValue_JsonVal{JsonVal: []byte(`{"a":1}`)}}
	case "json_bad":
		u.Val = &pb.TypedValue{Value: &pb.TypedValue_JsonVal{JsonVal: []byte(`{"a":`)}}
	case "any":
		a, _ := anypb.New(&pb.Path{Target: "x"})
		u.Val = &pb.TypedValue{Value: &pb.TypedValue_AnyVal{AnyVal: a}}
	case "decimal_nil":
		u.Val = &pb.TypedValue{Value: &pb.TypedValue_DecimalVal{}}
	case "decimal_big": // YANG allows fraction-digits 1..18; the field is a plain uint32
		u.Val = &pb.TypedValue{Value: &pb.TypedValue_DecimalVal{DecimalVal: &pb.Decimal64{Digits: 12345, Precision: 19}}}
	case "decimal_max":
		u.Val = &pb.TypedValue{Value: &pb.TypedValue_DecimalVal{DecimalVal: &pb.Decimal64{Digits: math.MinInt64, Precision: math.MaxUint32}}}
	case "leaflist_decimal":
		u.Val = &pb.TypedValue{Value: &pb.TypedValue_LeaflistVal{LeaflistVal: &pb.ScalarArray{Element: []*pb.TypedValue{
			{Value: &pb.TypedValue_DecimalVal{DecimalVal: &pb.Decimal64{Digits: 1, Precision: 400}}}, {Value: &pb.TypedValue_DecimalVal{}}}}}}
	case "leaflist_nested":
		u.Val = &pb.TypedValue{Value: &pb.TypedValue_LeaflistVal{LeaflistVal: &pb.ScalarArray{Element: []*pb.TypedValue{
			{Value: &pb.TypedValue_LeaflistVal{LeaflistVal: &pb.ScalarArray{Element: []*pb.TypedValue{{Value: &pb.TypedValue_LeaflistVal{}}}}}}}}}}
	case "leaflist_empty":
		u.Val = &pb.TypedValue{Value: &pb.TypedValue_LeaflistVal{LeaflistVal: &pb.ScalarArray{}}}
	case "double_nan":
		u.Val = &pb.TypedValue{Value: &pb.TypedValue_DoubleVal{DoubleVal: math.NaN()}}
	case "uint_max":
		u.Val = &pb.TypedValue{Value: &pb.TypedValue_UintVal{UintVal: math.MaxUint64}}
	case "bytes_empty":
		u.Val = &pb.TypedValue{Value: &pb.TypedValue_BytesVal{}}
	case "proto_bytes":
		u.Val = &pb.TypedValue{Value: &pb.TypedValue_ProtoBytes{ProtoBytes: []byte{0xff, 0xff}}}
	case "dep_json":
		u.Value = &pb.Value{Type: pb.Encoding_JSON, Value: []byte(`1`)}
	case "dep_bad":
		u.Value = &pb.Value{Type: pb.Encoding_JSON, Value: []byte(`{`)}
	case "dep_bytes":
		u.Value = &pb.Value{Type: pb.Encoding_BYTES, Value: []byte{1, 2}}
	case "dep_none":
		u.Value = &pb.Value{Type: pb.Encoding_ASCII, Value: []byte("x")}
	default:
		panic("val shape " + s)
	}
}

type notiVec struct {
	Prefix, Path, Val, Ts, State string
	Atomic                       bool
	Nup, Ndel                    int
}

func ingestNoti(v notiVec, glue bool) []step {
	c := cache.New([]string{"dev1"})
	srv, _ := subscribe.NewServer(c)
	c.SetClient(srv.Update)
	base := int64(100)
	put := func(n *pb.Notification) { c.GnmiUpdate(n) }
	pre := &pb.Path{Target: "dev1"}
	if glue {
		pre.Origin = "openconfig"
	}
	iv := func(i int64) *pb.TypedValue { return &pb.TypedValue{Value: &pb.TypedValue_IntVal{IntVal: i}} }
	switch v.State {
	case "leaf_int":
		put(&pb.Notification{Timestamp: base, Prefix: pre, Update: []*pb.Update{{Path: &pb.Path{Elem: pathElems("a", "b")}, Val: iv(1)}}})
	case "leaf_string":
		put(&pb.Notification{Timestamp: base, Prefix: pre, Update: []*pb.Update{{Path: &pb.Path{Elem: pathElems("a", "b")},
			Val: &pb.TypedValue{Value: &pb.TypedValue_StringVal{StringVal: "s"}}}}})
	case "branch_below":
		put(&pb.Notification{Timestamp: base, Prefix: pre, Update: []*pb.Update{{Path: &pb.Path{Elem: pathElems("a", "b", "x")}, Val: iv(1)}}})
	case "leaf_above":
		put(&pb.Notification{Timestamp: base, Prefix: pre, Update: []*pb.Update{{Path: &pb.Path{Elem: pathElems("a")}, Val: iv(1)}}})
	case "atomic_at_prefix":
		put(&pb.Notification{Timestamp: base, Atomic: true, Prefix: &pb.Path{Target: "dev1", Origin: pre.Origin, Elem: pathElems("a")},
			Update: []*pb.Update{{Path: &pb.Path{Elem: pathElems("b")}, Val: iv(1)}, {Path: &pb.Path{Elem: pathElems("c")}, Val: iv(2)}}})
	}
	c.UpdateMetadata()
	n := &pb.Notification{Timestamp: base, Atomic: v.Atomic, Prefix: shapePrefix(v.Prefix)}
	if v.Ts == "newer" {
		n.Timestamp = base + 10
	}
	for k := 0; k < v.Nup; k++ {
		u := &pb.Update{Path: shapePath(v.Path, k)}
		shapeVal(v.Val, u)
		n.Update = append(n.Update, u)
	}
	for k := 0; k < v.Ndel; k++ {
		n.Delete = append(n.Delete, shapePath(v.Path, k))
	}
	if glue { // what the collector does before handing the notification to the cache
		if n.Prefix == nil {
			n.Prefix = &pb.Path{Origin: "openconfig", Target: "dev1"}
		} else {
			if n.Prefix.Origin == "" {
				n.Prefix.Origin = "openconfig"
			}
			n.Prefix.Target = "dev1"
		}
	}
	var steps []step
	dead := false
	do := func(name string, f func() error) {
		if dead {
			return // a panic may have left locks of the cache held: this cache is not touched again
		}
		before := cacheDump(c)
		o, site := guarded(f)
		after := before
		if o == "panic" {
			dead = true
		} else {
			after = cacheDump(c)
		}
		steps = append(steps, step{"name": name, "outcome": o, "site": site, "before": before, "after": after,
			"single": v.Atomic || v.Nup+v.Ndel <= 1})
	}
	do("GnmiUpdate", func() error { return c.GnmiUpdate(n) })
	// follow-ups that would surface a latent crash planted by the message
	do("UpdateMetadata", func() error { c.UpdateMetadata(); return nil })
	do("UpdateSize", func() error { c.UpdateSize(); return nil })
	do("QueryAll", func() error {
		return c.Query("dev1", []string{"*"}, func(_ []string, l *ctree.Leaf, _ interface{}) error { _ = l; return nil })
	})
	// whatever the message stored is deleted again by a later wildcard delete (the delete notifications of the
	// change feed are built from the stored messages, whatever their shape), in the message's own prefix encoding
	do("DeleteAll", func() error {
		dp := &pb.Path{Target: "dev1"}
		if glue {
			dp.Origin = "openconfig"
		}
		return c.GnmiUpdate(&pb.Notification{Timestamp: base + 100, Prefix: dp, Delete: []*pb.Path{{Elem: pathElems("*")}}})
	})
	do("Reset", func() error { c.Reset("dev1"); return nil })
	return steps
}

// in-memory subscribe stream for the request family
type reqStream struct {
	ctx  context.Context
	reqs []*pb.SubscribeRequest
	i    int
	sent int
}

func (r *reqStream) Context() context.Context         { return r.ctx }
func (r *reqStream) SetHeader(metadata.MD) error      { return nil }
func (r *reqStream) SendHeader(metadata.MD) error     { return nil }
func (r *reqStream) SetTrailer(metadata.MD)           {}
func (r *reqStream) SendMsg(interface{}) error        { return nil }
func (r *reqStream) RecvMsg(interface{}) error        { return nil }
func (r *reqStream) Send(*pb.SubscribeResponse) error { r.sent++; return nil }
func (r *reqStream) Recv() (*pb.SubscribeRequest, error) {
	if r.i < len(r.reqs) {
		r.i++
		return r.reqs[r.i-1], nil
	}
	return nil, io.EOF
}

type subVec struct {
	Subscribe, Prefix, Mode, Subpath, First string
	Uo                                      bool
}

// stats: the server keeps subscription statistics (subscribe.WithStats)
func ingestSubReq(v subVec, stats bool) []step {
	c := cache.New([]string{"dev1"})
	c.GnmiUpdate(&pb.Notification{Timestamp: 1, Prefix: &pb.Path{Target: "dev1"}, Update: []*pb.Update{{Path: &pb.Path{Elem: pathElems("a", "b")},
		Val: &pb.TypedValue{Value: &pb.TypedValue_IntVal{IntVal: 1}}}}})
	sopts := []subscribe.Option{subscribe.WithTimeout(time.Second)}
	if stats {
		sopts = append(sopts, subscribe.WithStats())
	}
	srv, _ := subscribe.NewServer(c, sopts...)
	c.SetClient(srv.Update)
	var first *pb.SubscribeRequest
	switch v.Subscribe {
	case "nil":
		first = &pb.SubscribeRequest{}
	case "empty":
		first = &pb.SubscribeRequest{Request: &pb.SubscribeRequest_Subscribe{Subscribe: &pb.SubscriptionList{}}}
	default:
		sl := &pb.SubscriptionList{UpdatesOnly: v.Uo}
		switch v.Prefix {
		case "nil":
		case "no_target":
			sl.Prefix = &pb.Path{}
		case "unknown_target":
			sl.Prefix = &pb.Path{Target: "nosuch"}
		case "star":
			sl.Prefix = &pb.Path{Target: "*"}
		default:
			sl.Prefix = &pb.Path{Target: "dev1"}
		}
		switch v.Mode {
		case "once":
			sl.Mode = pb.SubscriptionList_ONCE
		case "poll":
			sl.Mode = pb.SubscriptionList_POLL
		case "stream":
			sl.Mode = pb.SubscriptionList_STREAM
		default:
			sl.Mode = pb.SubscriptionList_Mode(17)
		}
		switch v.Subpath {
		case "none":
		case "nil_path":
			sl.Subscription = []*pb.Subscription{{}}
		case "empty":
			sl.Subscription = []*pb.Subscription{{Path: &pb.Path{}}}
		case "normal":
			sl.Subscription = []*pb.Subscription{{Path: &pb.Path{Elem: pathElems("a", "b")}}}
		case "glob":
			sl.Subscription = []*pb.Subscription{{Path: &pb.Path{Elem: pathElems("*")}}, {Path: &pb.Path{Elem: pathElems("a", "*", "*")}}}
		case "origin_both":
			if sl.Prefix != nil {
				sl.Prefix.Origin = "o1"
			}
			sl.Subscription = []*pb.Subscription{{Path: &pb.Path{Origin: "o2", Elem: pathElems("a")}}}
		case "origin_prefix_elems":
			if sl.Prefix != nil {
				sl.Prefix.Elem = pathElems("a")
			}
			sl.Subscription = []*pb.Subscription{{Path: &pb.Path{Origin: "o2", Elem: pathElems("b")}}}
		}
		first = &pb.SubscribeRequest{Request: &pb.SubscribeRequest_Subscribe{Subscribe: sl}}
	}
	poll := &pb.SubscribeRequest{Request: &pb.SubscribeRequest_Poll{Poll: &pb.Poll{}}}
	reqs := []*pb.SubscribeRequest{first, poll}
	if v.First == "poll" {
		reqs = []*pb.SubscribeRequest{poll, first}
	}
	ctx, cancel := context.WithTimeout(peerCtx(), 300*time.Millisecond)
	defer cancel()
	st := &reqStream{ctx: ctx, reqs: reqs}
	var steps []step
	before := cacheDump(c)
	o, site := guarded(func() error {
		done := make(chan error, 1)
		var pval interface{}
		go func() {
			defer func() {
				if r := recover(); r != nil {
					pval = r
					done <- fmt.Errorf("panic")
				}
			}()
			done <- srv.Subscribe(st)
		}()
		// concurrent traffic while the subscription is set up / streaming
		c.GnmiUpdate(&pb.Notification{Timestamp: 5, Prefix: &pb.Path{Target: "dev1"}, Update: []*pb.Update{{Path: &pb.Path{Elem: pathElems("a", "b")},
			Val: &pb.TypedValue{Value: &pb.TypedValue_IntVal{IntVal: 2}}}}})
		err := <-done
		if pval != nil {
			panic(pval)
		}
		return err
	})
	steps = append(steps, step{"name": "Subscribe", "outcome": o, "site": site, "before": before, "after": before, "single": true})
	return steps
}

type respVec struct {
	Resp, Prefix, Upath, Val, Collide string
	Ndel                              int
}

// a pool of scripted servers: every vector opens five connections, and one destination
// address runs out of ephemeral source ports (TIME_WAIT) after about 28000 of them
var ingestSrvs []*fakeServer
var ingestUnreached int64
var ingestSeq int64

func buildResponses(v respVec) []*pb.SubscribeResponse {
	mk := func(p *pb.Path, val string, del bool) *pb.SubscribeResponse {
		n := &pb.Notification{Timestamp: 5}
		switch v.Prefix {
		case "target":
			n.Prefix = &pb.Path{Target: "t"}
		case "target_origin":
			n.Prefix = &pb.Path{Target: "t", Origin: "oc"}
		}
		u := &pb.Update{Path: p}
		shapeVal(val, u)
		n.Update = []*pb.Update{u}
		if del {
			n.Delete = []*pb.Path{p}
		}
		return &pb.SubscribeResponse{Response: &pb.SubscribeResponse_Update{Update: n}}
	}
	var p *pb.Path
	switch v.Upath {
	case "empty":
		p = &pb.Path{}
	case "normal":
		p = &pb.Path{Elem: pathElems("a", "b")}
	case "keyed":
		p = &pb.Path{Elem: []*pb.PathElem{{Name: "a"}, {Name: "b", Key: map[string]string{"k": "x", "j": "y"}}}}
	}
	var out []*pb.SubscribeResponse
	switch v.Collide {
	case "leaf_then_branch":
		out = append(out, mk(&pb.Path{Elem: pathElems("a")}, "int", false))
	case "branch_then_leaf":
		out = append(out, mk(&pb.Path{Elem: pathElems("a", "b", "c")}, "int", false))
	}
	switch v.Resp {
	case "nil_response":
		out = append(out, &pb.SubscribeResponse{})
	case "update":
		out = append(out, mk(p, v.Val, v.Ndel > 0))
	case "sync":
		out = append(out, mk(p, v.Val, false), &pb.SubscribeResponse{Response: &pb.SubscribeResponse_SyncResponse{SyncResponse: true}})
	case "error":
		out = append(out, &pb.SubscribeResponse{Response: &pb.SubscribeResponse_Error{Error: &pb.Error{Code: 3, Message: "x"}}})
	}
	out = append(out, &pb.SubscribeResponse{Response: &pb.SubscribeResponse_SyncResponse{SyncResponse: true}})
	return out
}

func ingestResp(v respVec) []step {
	seq := atomic.AddInt64(&ingestSeq, 1)
	target := fmt.Sprintf("t%d", seq)
	ingestSrv := ingestSrvs[int(seq)%len(ingestSrvs)]
	ingestSrv.mu.Lock()
	ingestSrv.custom[target] = buildResponses(v)
	ingestSrv.mu.Unlock()
	defer func() { ingestSrv.mu.Lock(); delete(ingestSrv.custom, target); ingestSrv.mu.Unlock() }()
	var steps []step
	q := client.Query{Addrs: []string{ingestSrv.addr}, Target: target, Queries: []client.Path{{"*"}}, Type: client.Once, Timeout: 2 * time.Second,
		NotificationHandler: func(client.Notification) error { return nil }}
	// 1. the client library: CacheClient over the real gnmi Impl
	o, site := guarded(func() error {
		c := client.New()
		defer c.Close()
		ctx, cancel := context.WithTimeout(context.Background(), 2*time.Second)
		defer cancel()
		err := c.Subscribe(ctx, q, gclient.Type)
		c.Leaves()
		return err
	})
	steps = append(steps, step{"name": "CacheClient", "outcome": o, "site": site, "before": "", "after": "", "single": true})
	// 2. the CLI display in every display type
	for _, dt := range []string{"group", "single", "proto", "shortproto"} {
		var buf bytes.Buffer
		var bmu sync.Mutex
		cfg := &cli.Config{Display: func(b []byte) { bmu.Lock(); buf.Write(b); bmu.Unlock() }, DisplayType: dt, DisplayPrefix: "", DisplayIndent: "  ",
			Count: 1, Timestamp: "on"}
		q2 := q
		q2.NotificationHandler = nil
		o, site := guarded(func() error {
			ctx, cancel := context.WithTimeout(context.Background(), 2*time.Second)
			defer cancel()
			return cli.QueryDisplay(ctx, q2, cfg)
		})
		steps = append(steps, step{"name": "cli/" + dt, "outcome": o, "site": site, "before": "", "after": "", "single": true})
	}
	// an outcome "error" only counts if the message was actually served to the client
	if n := ingestSrv.opened(target); n < len(steps) {
		atomic.AddInt64(&ingestUnreached, int64(len(steps)-n))
	}
	return steps
}

func ingestRun(args []string) error {
	fs := flag.NewFlagSet("ingest run", flag.ContinueOnError)
	family := fs.String("family", "noti", "noti|subreq|resp")
	vectors := fs.String("vectors", "", "file with one JSON vector per line (from TLC)")
	out := fs.String("out", "", "output directory")
	shards := fs.Int("shards", 16, "trace files")
	if err := fs.Parse(args); err != nil {
		return err
	}
	ss, err := newShards(*out, "ing-"+*family, *shards)
	if err != nil {
		return err
	}
	f, err := os.Open(*vectors)
	if err != nil {
		return err
	}
	defer f.Close()
	var lines [][]byte
	sc := bufio.NewScanner(f)
	sc.Buffer(make([]byte, 1<<20), 1<<22)
	for sc.Scan() {
		lines = append(lines, append([]byte{}, sc.Bytes()...))
	}
	cache.Now = func() time.Time { return time.Unix(0, 50) } // metadata leaves older than the vectors' timestamps
	if *family == "resp" {
		for i := 0; i < 8; i++ {
			srv, err := newFakeServer(func(string, string, int, int) {})
			if err != nil {
				return err
			}
			defer srv.stop()
			ingestSrvs = append(ingestSrvs, srv)
		}
	}
	var wg sync.WaitGroup
	var panics int64
	for s := 0; s < len(ss.ws); s++ {
		wg.Add(1)
		go func(s int) {
			defer wg.Done()
			for i := s; i < len(lines); i += len(ss.ws) {
				var raw map[string]interface{}
				json.Unmarshal(lines[i], &raw)
				var variants [][]step
				switch *family {
				case "noti":
					var v notiVec
					json.Unmarshal(lines[i], &v)
					variants = [][]step{ingestNoti(v, false), ingestNoti(v, true)}
				case "subreq":
					var v subVec
					json.Unmarshal(lines[i], &v)
					variants = [][]step{ingestSubReq(v, false), ingestSubReq(v, true)}
				case "resp":
					var v respVec
					json.Unmarshal(lines[i], &v)
					variants = [][]step{ingestResp(v)}
				}
				for k, steps := range variants {
					for _, st := range steps {
						if st["outcome"] == "panic" {
							atomic.AddInt64(&panics, 1)
						}
					}
					ss.ws[s].Emit(trace.E{"ev": "vec", "family": *family, "variant": k, "vector": raw, "steps": steps})
				}
			}
		}(s)
	}
	wg.Wait()
	ev := ss.close()
	fmt.Printf("DRV ingest %s vectors=%d events=%d panics=%d unreached=%d\n", *family, len(lines), ev, panics, atomic.LoadInt64(&ingestUnreached))
	return nil
}

func ingestMain(args []string) error {
	if len(args) == 0 || args[0] != "run" {
		return fmt.Errorf("ingest: mode must be run")
	}
	return ingestRun(args[1:])
}

func peerCtx() context.Context {
	return peer.NewContext(context.Background(), &peer.Peer{Addr: &net.TCPAddr{IP: net.IPv4(127, 0, 0, 1), Port: 999}})
}
