SPECIFICATION Spec
CONSTANTS
  Lats <- LatsPrec
  Sizes = {2, 4}
  Steps = {0, 1, 2}
  Prec = 4
  MaxTime = 12
  MaxOps = 5
  Mutant = "unscaled_avg"
INVARIANTS TypeOK Bounded Window
CHECK_DEADLOCK FALSE
