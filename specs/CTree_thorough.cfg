SPECIFICATION Spec
CONSTANTS
  Names = {"a", "b", "*"}
  Values = {"v1", "v2"}
  MaxStored = 2
  MaxQuery = 3
VIEW View
INVARIANTS TypeOK InvPrefixFree AddAfterPrune QueryImpliesAgree EmitJson
PROPERTIES AddEffect DeleteEqualsQuery
CHECK_DEADLOCK FALSE
