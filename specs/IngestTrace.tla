------------------------------ MODULE IngestTrace ------------------------------
(* Acceptance of the recorded outcomes of the C12 vectors (see Ingest.tla).     *)
EXTENDS Naturals, Sequences, TLC, Json, IOUtils

VARIABLE l
Trace == ndJsonDeserialize(IOEnv.TRACE)
Ev == Trace[l]

ContractOK(outcome, single, before, after) ==
    /\ outcome \in {"ok", "error"}
    /\ (outcome = "error" /\ single) => before = after

TInit == l = 1 /\ TLCSet(1, 1)
(* one vector: every step's outcome obeys the contract (steps = the message itself and the follow-up calls that would surface a latent crash) *)
TVec ==
    /\ l <= Len(Trace) /\ Trace[l].ev = "vec" /\ l' = l + 1
    /\ (\A i \in 1..Len(Ev.steps) : ContractOK(Ev.steps[i].outcome, Ev.steps[i].single, Ev.steps[i].before, Ev.steps[i].after)) = TRUE
TSpec == TInit /\ [][TVec]_l

Track == IF l > TLCGet(1) THEN TLCSet(1, l) ELSE TRUE
TraceAccepted ==
    /\ PrintT(<<"HWM", TLCGet(1) - 1, Len(Trace)>>)
    /\ TLCGet(1) = Len(Trace) + 1
=============================================================================
