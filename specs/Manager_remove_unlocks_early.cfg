SPECIFICATION Spec
CONSTANTS
  MaxSessions = 3
  MaxMsgs = 2
  MaxInc = 2
  Mutant = "remove_unlocks_early"
INVARIANTS Discipline SilenceAfterRemove OneLife
CHECK_DEADLOCK FALSE
