------------------------------ MODULE CTreeTrace ------------------------------
(***************************************************************************)
(* Trace acceptance for ctree.Tree used from one goroutine (C09).          *)
(* Every line of the ndjson trace is one public call on the real tree with *)
(* its arguments, its result and the content read back with Walk (proj).   *)
(* The line is accepted iff result and content are what CTree prescribes.  *)
(* "reset" starts a new scenario on an empty tree, "jump" starts one from  *)
(* the content the driver built and read back.                              *)
(***************************************************************************)
EXTENDS CTree, Json, IOUtils

VARIABLE l                       \* next trace line

Trace == ndJsonDeserialize(IOEnv.TRACE)

tvars == <<tree, out, l>>

Ev == Trace[l]
Step(name) == l <= Len(Trace) /\ Trace[l].ev = name /\ l' = l + 1 /\ out' = [op |-> name]

Count(s, x) == Cardinality({i \in 1..Len(s) : s[i] = x})
PV(e)  == [p |-> e.p, v |-> e.v]
PVs(s) == {PV(s[i]) : i \in 1..Len(s)}

Same(proj) == tree' = tree /\ SeqToSet(proj) = tree

TInit == tree = {} /\ out = [op |-> "init"] /\ l = 1 /\ TLCSet(1, 1)

TReset == Step("reset") /\ tree' = {}
TJump  == Step("jump")  /\ tree' = SeqToSet(Ev.proj) /\ PrefixFree(tree')

TAdd ==
    /\ Step("Add")
    /\ Ev.res = AddRes(tree, Ev.p)
    /\ tree' = AddPost(tree, Ev.p, Ev.v)
    /\ SeqToSet(Ev.proj) = tree'

TGet ==
    /\ Step("Get")
    /\ Ev.kind = GetKind(tree, Ev.p)
    /\ Ev.val  = GetVal(tree, Ev.p)
    /\ Same(Ev.proj)

TGetLeafValue ==
    /\ Step("GetLeafValue")
    /\ Ev.val = GetVal(tree, Ev.p)
    /\ Same(Ev.proj)

(* GetLeaf on a branch position is outside the property (the handle is not *)
(* a leaf); only leaf and absent positions are constrained.                 *)
TGetLeaf ==
    /\ Step("GetLeaf")
    /\ IsLeafPath(tree, Ev.p) => Ev.val = GetVal(tree, Ev.p)
    /\ GetKind(tree, Ev.p) = "none" => Ev.val = "-"
    /\ Same(Ev.proj)

TIsBranch ==
    /\ Step("IsBranch")
    /\ Ev.res = IsBranchPath(tree, Ev.p)
    /\ Same(Ev.proj)

TChildren ==
    /\ Step("Children")
    /\ NoDup(Ev.names)
    /\ SeqToSet(Ev.names) = ChildrenOf(tree, Ev.p)
    /\ Same(Ev.proj)

TQuery ==
    /\ Step("Query")
    /\ NoDup(Ev.leaves)
    /\ SeqToSet(Ev.leaves) = QueryRes(tree, Ev.q)
    /\ Same(Ev.proj)

TWalk ==
    /\ Step("Walk")
    /\ NoDup(Ev.leaves)
    /\ SeqToSet(Ev.leaves) = tree
    /\ Same(Ev.proj)

(* r is the path as a sequence of ranks of its elements in byte order.     *)
TWalkSorted ==
    /\ Step("WalkSorted")
    /\ PVs(Ev.leaves) = tree
    /\ Len(Ev.leaves) = Cardinality(tree)
    /\ \A i \in 1..(Len(Ev.leaves) - 1) : LexLess(Ev.leaves[i].r, Ev.leaves[i+1].r)
    /\ Same(Ev.proj)

TDelete ==
    /\ Step("Delete")
    /\ NoDup(Ev.paths)
    /\ SeqToSet(Ev.paths) = Paths(QueryRes(tree, Ev.q))
    /\ tree' = DelPost(tree, Ev.q, {x.v : x \in tree})
    /\ SeqToSet(Ev.proj) = tree'

TDeleteConditional ==
    /\ Step("DeleteConditional")
    /\ NoDup(Ev.paths)
    /\ SeqToSet(Ev.paths) = Paths(DelSet(tree, Ev.q, SeqToSet(Ev.cond)))
    /\ tree' = DelPost(tree, Ev.q, SeqToSet(Ev.cond))
    /\ SeqToSet(Ev.proj) = tree'

(* WalkDeleted reports the removed values (a bag), not their paths.        *)
TWalkDeleted ==
    /\ Step("WalkDeleted")
    /\ LET del == DelSet(tree, Ev.q, SeqToSet(Ev.cond)) IN
       /\ Len(Ev.vals) = Cardinality(del)
       /\ \A v \in SeqToSet(Ev.vals) : Count(Ev.vals, v) = Cardinality({x \in del : x.v = v})
    /\ tree' = DelPost(tree, Ev.q, SeqToSet(Ev.cond))
    /\ SeqToSet(Ev.proj) = tree'

TNext ==
    \/ TReset \/ TJump \/ TAdd \/ TGet \/ TGetLeafValue \/ TGetLeaf \/ TIsBranch
    \/ TChildren \/ TQuery \/ TWalk \/ TWalkSorted
    \/ TDelete \/ TDeleteConditional \/ TWalkDeleted

TSpec == TInit /\ [][TNext]_tvars

(* High-water mark of matched lines; printed for the runner.               *)
Track == IF l > TLCGet(1) THEN TLCSet(1, l) ELSE TRUE
Accepted ==
    /\ PrintT(<<"HWM", TLCGet(1) - 1, Len(Trace)>>)
    /\ TLCGet(1) = Len(Trace) + 1

TInvPrefixFree == PrefixFree(tree)
=============================================================================
