SPECIFICATION TSpec
CONSTRAINT Track
POSTCONDITION TraceAccepted
CHECK_DEADLOCK FALSE
