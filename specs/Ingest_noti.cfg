SPECIFICATION Spec
CONSTANTS
  Family = "noti"
INVARIANT Emit
CHECK_DEADLOCK FALSE
