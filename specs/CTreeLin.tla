------------------------------- MODULE CTreeLin -------------------------------
(***************************************************************************)
(* History acceptance for ctree.Tree under concurrent use (C10).  The      *)
(* trace holds invocation/response events of several goroutines in         *)
(* real-time order; TLC infers where each call takes effect.               *)
(*   Add, Get, Delete take effect atomically at one point between inv and  *)
(*   ret (per-path atomicity, program order, real-time order);             *)
(*   UpdateLeaf (GetLeaf, then Update on the retained handle) takes effect *)
(*   in two steps: if the leaf is deleted in between, the update goes to   *)
(*   the detached node and is not visible in the tree;                     *)
(*   Query/Walk are interval operations: every leaf present during the     *)
(*   whole call is reported, nothing absent during the whole call is, each *)
(*   reported value is one the leaf held during the call, each leaf once.  *)
(* A final Walk after all goroutines have returned must equal the          *)
(* specification's tree, i.e. the content is that of a sequential order.   *)
(***************************************************************************)
EXTENDS CTree, Json, IOUtils

VARIABLES l, ph, gen   \* gen: path |-> generation of the leaf node currently at that path

Trace == ndJsonDeserialize(IOEnv.TRACE)
lvars == <<tree, out, l, ph, gen>>

Gs == {Trace[k].g : k \in {j \in 1..Len(Trace) : "g" \in DOMAIN Trace[j]}}
Idle == [phase |-> "idle"]
Ev == Trace[l]
St(name) == l <= Len(Trace) /\ Trace[l].ev = name /\ l' = l + 1

GenOf(p) == IF p \in DOMAIN gen THEN gen[p] ELSE 0

LInit ==
    /\ tree = {} /\ out = [op |-> "init"] /\ l = 1 /\ gen = <<>>
    /\ ph = [g \in Gs |-> Idle] /\ TLCSet(1, 1)

LReset ==
    /\ St("reset") /\ \A g \in Gs : ph[g].phase = "idle"
    /\ tree' = {} /\ gen' = <<>> /\ UNCHANGED <<ph, out>>

QRes(t, e) == IF e.op = "Walk" THEN t ELSE QueryRes(t, e.q)

LInv ==
    /\ St("inv") /\ ph[Ev.g].phase = "idle"
    /\ ph' = [ph EXCEPT ![Ev.g] =
                IF Ev.op \in {"Query", "Walk"}
                THEN [phase |-> "scan", e |-> Ev, always |-> Paths(QRes(tree, Ev)), ever |-> QRes(tree, Ev)]
                ELSE [phase |-> "inv", e |-> Ev]]
    /\ UNCHANGED <<tree, out, gen>>

(* every mutation updates the interval sets of the scans in progress        *)
Scans(t2) ==
    [g \in Gs |-> IF ph[g].phase = "scan"
                  THEN [ph[g] EXCEPT !.always = @ \cap Paths(QRes(t2, ph[g].e)),
                                     !.ever = @ \cup QRes(t2, ph[g].e)]
                  ELSE ph[g]]

Done(g, r, t2) == ph' = [Scans(t2) EXCEPT ![g] = [phase |-> "done", e |-> ph[g].e, res |-> r]]

LinAdd(g) ==
    /\ ph[g].phase = "inv" /\ ph[g].e.op = "Add"
    /\ LET e == ph[g].e
           t2 == AddPost(tree, e.p, e.v) IN
       /\ tree' = t2
       /\ gen' = IF AddOK(tree, e.p) /\ ~IsLeafPath(tree, e.p)
                 THEN [x \in DOMAIN gen \cup {e.p} |-> IF x = e.p THEN GenOf(e.p) + 1 ELSE gen[x]]
                 ELSE gen
       /\ Done(g, [res |-> AddRes(tree, e.p)], t2)
    /\ UNCHANGED <<out, l>>

LinGet(g) ==
    /\ ph[g].phase = "inv" /\ ph[g].e.op = "Get"
    /\ Done(g, [kind |-> GetKind(tree, ph[g].e.p), val |-> GetVal(tree, ph[g].e.p)], tree)
    /\ UNCHANGED <<tree, out, l, gen>>

LinDelete(g) ==
    /\ ph[g].phase = "inv" /\ ph[g].e.op = "Delete"
    /\ LET e == ph[g].e
           t2 == DelPost(tree, e.q, {x.v : x \in tree}) IN
       /\ tree' = t2
       /\ Done(g, [paths |-> Paths(QueryRes(tree, e.q))], t2)
    /\ UNCHANGED <<out, l, gen>>

(* UpdateLeaf step 1: GetLeaf                                               *)
LinHandle(g) ==
    /\ ph[g].phase = "inv" /\ ph[g].e.op = "UpdateLeaf"
    /\ LET e == ph[g].e IN
       IF IsLeafPath(tree, e.p)
       THEN ph' = [ph EXCEPT ![g] = [phase |-> "handle", e |-> e, gen |-> GenOf(e.p)]]
       ELSE ph' = [ph EXCEPT ![g] = [phase |-> "done", e |-> e, res |-> [res |-> "none"]]]
    /\ UNCHANGED <<tree, out, l, gen>>

(* UpdateLeaf step 2: Leaf.Update on the retained handle                    *)
LinUpdate(g) ==
    /\ ph[g].phase = "handle"
    /\ LET e == ph[g].e
           live == IsLeafPath(tree, e.p) /\ GenOf(e.p) = ph[g].gen
           t2 == IF live THEN {x \in tree : x.p # e.p} \cup {[p |-> e.p, v |-> e.v]} ELSE tree IN
       /\ tree' = t2
       /\ Done(g, [res |-> "ok"], t2)
    /\ UNCHANGED <<out, l, gen>>

ResOf(e) ==
    CASE e.op = "Add" -> [res |-> e.res]
      [] e.op = "Get" -> [kind |-> e.kind, val |-> e.val]
      [] e.op = "Delete" -> [paths |-> SeqToSet(e.paths)]
      [] e.op = "UpdateLeaf" -> [res |-> e.res]

LRet ==
    /\ St("ret")
    /\ LET g == Ev.g IN
       /\ \/ /\ ph[g].phase = "done"
             /\ Ev.op = ph[g].e.op
             /\ ResOf(Ev) = ph[g].res
             /\ (Ev.op = "Delete" => NoDup(Ev.paths)) = TRUE
          \/ /\ ph[g].phase = "scan"
             /\ LET got == {[p |-> Ev.leaves[i].p, v |-> Ev.leaves[i].v] : i \in 1..Len(Ev.leaves)} IN
                /\ NoDup([i \in 1..Len(Ev.leaves) |-> Ev.leaves[i].p]) = TRUE
                /\ (ph[g].always \subseteq Paths(got)) = TRUE
                /\ (got \subseteq ph[g].ever) = TRUE
       /\ ph' = [ph EXCEPT ![g] = Idle]
    /\ UNCHANGED <<tree, out, gen>>

(* Contention round (driver marker): queriers, walkers, handle updaters and  *)
(* adders hammered a few hot leaves for a while and every one of them kept   *)
(* completing operations - the "never deadlocks" clause under the load where *)
(* lock-ordering and re-entrancy mistakes bite.  A stuck round is logged as  *)
(* "hang", which no action accepts.                                          *)
LContend ==
    /\ St("contend")
    /\ \A g \in Gs : ph[g].phase = "idle"
    /\ (Ev.progress /\ Ev.ops > 0) = TRUE
    /\ UNCHANGED <<tree, out, ph, gen>>

(* all goroutines joined: the content read back is the specification's      *)
LFinal ==
    /\ St("final")
    /\ \A g \in Gs : ph[g].phase = "idle"
    /\ SeqToSet(Ev.proj) = tree
    /\ UNCHANGED <<tree, out, ph, gen>>

(* A call may take effect anywhere between two trace events; taking effect  *)
(* in the gap before a "ret" (rather than before an "inv" or a marker) loses *)
(* nothing - an effect can always be postponed past somebody else's          *)
(* invocation - and keeps the search small.                                  *)
(* Moreover, in the gap before the response of g, effects of other calls    *)
(* need only be considered before g's own effect: whatever could follow it   *)
(* in this gap can be postponed to the next gap (its own response comes      *)
(* later).  The response of a scan (Query/Walk) closes an interval, so any   *)
(* effect may be needed before it.                                           *)
BeforeRet ==
    /\ l <= Len(Trace) /\ Trace[l].ev = "ret"
    /\ ph[Trace[l].g].phase \in {"inv", "handle", "scan"}
Lin == BeforeRet /\ \E g \in Gs : LinAdd(g) \/ LinGet(g) \/ LinDelete(g) \/ LinHandle(g) \/ LinUpdate(g)
LNext == LReset \/ LInv \/ LRet \/ LFinal \/ LContend \/ Lin
LSpec == LInit /\ [][LNext]_lvars

(* Reaching the end of the trace is reported as a violation of NotDone so   *)
(* that TLC stops at once (depth-first queue): the runner reads that as      *)
(* "accepted".                                                               *)
NotDone == l <= Len(Trace)
Track == IF l > TLCGet(1) THEN TLCSet(1, l) ELSE TRUE
TraceAccepted ==
    /\ PrintT(<<"HWM", TLCGet(1) - 1, Len(Trace)>>)
    /\ TLCGet(1) = Len(Trace) + 1
=============================================================================
