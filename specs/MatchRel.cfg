SPECIFICATION Spec
CONSTANTS
  Names = {"a", "b", "*"}
  MaxLen = 4
  Clients = {"c1"}
  MaxOps = 0
INVARIANTS QueryImpliesAgree
CHECK_DEADLOCK FALSE
