---------------------------- MODULE CTreeLocksMC ----------------------------
(* Bounded instances of CTreeLocks (property C10). *)
EXTENDS CTreeLocks

Op(id, op, path, v) == [id |-> id, op |-> op, path |-> path, v |-> v]

FullMenu == {
    Op(1, "add",   <<"a", "b">>, "v1"),
    Op(2, "add",   <<"a", "b">>, "v2"),
    Op(3, "add",   <<"a", "c">>, "v1"),
    Op(4, "add",   <<"a">>,      "v1"),
    Op(5, "val",   <<"a", "b">>, "-"),
    Op(6, "upd",   <<"a", "b">>, "v3"),
    Op(7, "query", <<"a", "b">>, "-"),
    Op(8, "del",   <<"a">>,      "-"),
    Op(9, "del",   <<"a", "b">>, "-"),
    Op(10, "add",  <<>>,         "v1"),
    Op(11, "del",  <<>>,         "-") }

\* three-process runs: the operations whose interplay matters (two creators, a handle writer, a visitor, a delete)
CoreMenu == {x \in FullMenu : x.id \in {1, 3, 6, 7, 8}}

Trees == { {}, {<<<<"a", "b">>, "v0">>}, {<<<<"a", "b">>, "v0">>, <<<<"a", "c">>, "v0">>} }
=============================================================================
