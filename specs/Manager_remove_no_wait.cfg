SPECIFICATION Spec
CONSTANTS
  MaxSessions = 3
  MaxMsgs = 2
  MaxInc = 2
  Mutant = "remove_no_wait"
INVARIANTS Discipline SilenceAfterRemove
CHECK_DEADLOCK FALSE
