SPECIFICATION Spec
CONSTANTS
  Targets = {"t1"}
  UPaths <- U3
  DPaths <- D3
  APaths <- A1
  Vals = {"v1", "v2"}
  MaxTs = 2
  Thr = 0
  ED = TRUE
  Acts = {"upd", "del", "atomic", "reset", "tick"}
  Mutant = "none"
  MaxOps = 5
VIEW View
INVARIANTS MirrorInv CountersInv StructInv NewestInv
PROPERTIES RejectedUnchanged
CHECK_DEADLOCK FALSE
