----------------------------- MODULE TargetConfig -----------------------------
(***************************************************************************)
(* Specification of target.Config (C17).  A configuration is               *)
(*   [rev, t : set of target records [n, nil, addr, req, extra],           *)
(*         r : set of request records [n, c]]                              *)
(* (n = name, nil = missing target message, addr = has an address,         *)
(* req = request name, extra = the remaining settings as a token,          *)
(* c = request content as a token).  loaded = FALSE before the first load.  *)
(* Load(cfg) is rejected - nothing changes, no handler runs - unless cfg   *)
(* is valid and its revision is strictly greater than the current one;     *)
(* otherwise the handler calls are exactly: Delete for vanished targets,   *)
(* Update for targets whose settings or whose request content changed,     *)
(* Add for new ones, nothing for unchanged ones; and cur' = cfg.           *)
(***************************************************************************)
EXTENDS Naturals, FiniteSets, TLC

Empty == [rev |-> 0, t |-> {}, r |-> {}]

Names(S) == {x.n : x \in S}
ByName(S, n) == CHOOSE x \in S : x.n = n
ReqC(cfg, rn) == IF rn \in Names(cfg.r) THEN ByName(cfg.r, rn).c ELSE "-missing-"

Valid(cfg) ==
    \A x \in cfg.t : x.n # "" /\ ~x.nil /\ x.addr /\ x.req # "" /\ x.req \in Names(cfg.r)

Accepts(loaded, cur, cfg) == Valid(cfg) /\ (~loaded \/ cfg.rev > cur.rev)

OldT(cur) == cur.t

Unchanged(cur, cfg, n) ==
    /\ ByName(OldT(cur), n) = ByName(cfg.t, n)
    /\ ReqC(cur, ByName(OldT(cur), n).req) = ReqC(cfg, ByName(cfg.t, n).req)

Call(k, cfg, n) == [k |-> k, n |-> n, t |-> ByName(cfg.t, n), c |-> ReqC(cfg, ByName(cfg.t, n).req)]

Calls(cur, cfg) ==
    {[k |-> "delete", n |-> n] : n \in Names(OldT(cur)) \ Names(cfg.t)}
    \cup {Call("update", cfg, n) : n \in {m \in Names(OldT(cur)) \cap Names(cfg.t) : ~Unchanged(cur, cfg, m)}}
    \cup {Call("add", cfg, n) : n \in Names(cfg.t) \ Names(OldT(cur))}

(* what replaying handler calls onto a set of [n, t, c] yields              *)
Replay(rep, calls) ==
    {x \in rep : x.n \notin {c.n : c \in calls}}
    \cup {[n |-> c.n, t |-> c.t, c |-> c.c] : c \in {d \in calls : d.k # "delete"}}

Project(cur) == {[n |-> x.n, t |-> x, c |-> ReqC(cur, x.req)] : x \in cur.t}

---------------------------------------------------------------------------
(* Bounded model *)
CONSTANTS TNames, RNames, Contents, MaxRev, MaxLoads

VARIABLES loaded, cur, rep, nloads, out
vars == <<loaded, cur, rep, nloads, out>>

TOpts(n) == {[n |-> n, nil |-> TRUE, addr |-> FALSE, req |-> "", extra |-> "e0"]}
            \cup {[n |-> n, nil |-> FALSE, addr |-> a, req |-> q, extra |-> e] :
                     a \in BOOLEAN, q \in RNames \cup {""}, e \in {"e0", "e1"}}

AllT == UNION {TOpts(n) : n \in TNames}
TSets == UNION {{{f[n] : n \in D} : f \in {g \in [D -> AllT] : \A n \in D : g[n].n = n}} : D \in SUBSET TNames}
RSets == UNION {{{[n |-> n, c |-> f[n]] : n \in D} : f \in [D -> Contents]} : D \in SUBSET RNames}
Configs == {[rev |-> v, t |-> T, r |-> R] : v \in 0..MaxRev, T \in TSets, R \in RSets}

Init == loaded = FALSE /\ cur = Empty /\ rep = {} /\ nloads = 0 /\ out = [res |-> "init", calls |-> {}]

Load(cfg) ==
    /\ nloads < MaxLoads /\ nloads' = nloads + 1
    /\ IF Accepts(loaded, cur, cfg)
       THEN /\ out' = [res |-> "ok", calls |-> Calls(cur, cfg)]
            /\ rep' = Replay(rep, Calls(cur, cfg))
            /\ cur' = cfg /\ loaded' = TRUE
       ELSE /\ out' = [res |-> "err", calls |-> {}]
            /\ UNCHANGED <<loaded, cur, rep>>

Next == \E cfg \in Configs : Load(cfg)
Spec == Init /\ [][Next]_vars

(* replaying the handler calls of the accepted loads yields the current     *)
(* configuration                                                             *)
ReplayEqualsCurrent == rep = Project(cur)
(* the current configuration is always valid and revisions only grow        *)
CurrentValid == Valid(cur)
Monotonic == [][loaded /\ cur' # cur => cur'.rev > cur.rev]_vars
RejectedSilent == [][out'.res = "err" => cur' = cur /\ rep' = rep /\ out'.calls = {}]_vars
(* an unchanged target produces no call                                      *)
NoCallForUnchanged ==
    [][\A c \in out'.calls : c.k = "update" => ~Unchanged(cur, cur', c.n)]_vars
=============================================================================
