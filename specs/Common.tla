------------------------------- MODULE Common -------------------------------
(***************************************************************************)
(* Shared vocabulary of the gnmi specifications: paths, the two path       *)
(* relations (query matching and streaming agreement), small helpers.      *)
(*                                                                         *)
(* A path is a sequence of strings.  The element "*" is the glob.          *)
(***************************************************************************)
EXTENDS Naturals, Sequences, FiniteSets

Glob == "*"

Min(a, b) == IF a < b THEN a ELSE b
Max(a, b) == IF a > b THEN a ELSE b

IsPrefixOf(p, q)       == Len(p) <= Len(q) /\ \A i \in 1..Len(p) : p[i] = q[i]
IsProperPrefixOf(p, q) == Len(p) <  Len(q) /\ \A i \in 1..Len(p) : p[i] = q[i]

(* Streaming agreement (match.Match): the two paths agree on every element  *)
(* they both have; a glob on either side agrees with anything.              *)
Agree(q, p) ==
    \A i \in 1..Min(Len(q), Len(p)) : q[i] = Glob \/ p[i] = Glob \/ q[i] = p[i]

(* Query matching (ctree.Query): globs only count on the query side; the    *)
(* query may be shorter than the stored path (subtree query) or longer by   *)
(* exactly one trailing glob (enumerateChildren: n == 1 && path[0] == "*"). *)
QueryMatch(q, p) ==
    /\ \A i \in 1..Min(Len(q), Len(p)) : q[i] = Glob \/ q[i] = p[i]
    /\ \/ Len(q) <= Len(p)
       \/ Len(q) = Len(p) + 1 /\ q[Len(q)] = Glob

PathsUpTo(S, n) == UNION {[1..k -> S] : k \in 0..n}

SeqToSet(s) == {s[i] : i \in 1..Len(s)}

NoDup(s) == \A i, j \in 1..Len(s) : i # j => s[i] # s[j]

(* Lexicographic strict order on sequences of naturals (ranks of strings).  *)
LexLess(a, b) ==
    \/ \E k \in 1..Min(Len(a), Len(b)) :
          /\ \A i \in 1..(k-1) : a[i] = b[i]
          /\ a[k] < b[k]
    \/ Len(a) < Len(b) /\ \A i \in 1..Len(a) : a[i] = b[i]
=============================================================================
