SPECIFICATION SpecClose
CONSTANTS
  Producers = {"p1", "p2"}
  Mutant = "token_before_insert"
INVARIANTS TypeOK Conservation NoLostWakeup ClosedAfterDrain
PROPERTIES ConsumerReturns WakeOnInsert
CHECK_DEADLOCK FALSE
