--------------------------------- MODULE Match ---------------------------------
(***************************************************************************)
(* Specification of match.Match, the registry of streaming subscriptions   *)
(* (C06).  regs is a set of registrations [c |-> client, q |-> path].      *)
(* A notification with update/delete paths ps is offered to client c iff   *)
(* one of c's registered paths agrees with one of ps on every element they *)
(* both have (a glob on either side agrees with anything).                 *)
(*   Update      - one delivery per agreeing registration;                  *)
(*   UpdateOnce  - at most one delivery per client for the whole           *)
(*                 notification (what the Subscribe server needs).         *)
(***************************************************************************)
EXTENDS Common, TLC

CONSTANTS Names, MaxLen, Clients, MaxOps

VARIABLES regs, nops, out
vars == <<regs, nops, out>>

AllPaths == PathsUpTo(Names, MaxLen)

AgreeingRegs(rg, c, p) == {r \in rg : r.c = c /\ Agree(r.q, p)}

(* deliveries to c for one Update(p)                                        *)
UpdateCount(rg, c, p) == Cardinality(AgreeingRegs(rg, c, p))

(* deliveries to c for one notification with paths ps, delivered once       *)
OnceCount(rg, c, ps) == IF \E p \in ps : AgreeingRegs(rg, c, p) # {} THEN 1 ELSE 0

Init == regs = {} /\ nops = 0 /\ out = [op |-> "init"]
Bound == nops < MaxOps /\ nops' = nops + 1

AddQuery(c, q) == Bound /\ regs' = regs \cup {[c |-> c, q |-> q]} /\ out' = [op |-> "add", c |-> c, q |-> q]
Remove(c, q)   == Bound /\ regs' = regs \ {[c |-> c, q |-> q]} /\ out' = [op |-> "remove", c |-> c, q |-> q]
Update(p)      == Bound /\ UNCHANGED regs
                  /\ out' = [op |-> "update", p |-> p, n |-> [c \in Clients |-> OnceCount(regs, c, {p})]]

Next == \/ \E c \in Clients, q \in AllPaths : AddQuery(c, q) \/ Remove(c, q)
        \/ \E p \in AllPaths : Update(p)
Spec == Init /\ [][Next]_vars

---------------------------------------------------------------------------
(* Everything a query returns is also streamed.                             *)
QueryImpliesAgree == \A q, p \in AllPaths : QueryMatch(q, p) => Agree(q, p)

(* Offers go to currently registered clients only; removing one client's   *)
(* registration leaves the others untouched.                                *)
OffersOnlyRegistered ==
    out.op = "update" => \A c \in Clients : out.n[c] > 0 => \E r \in regs : r.c = c /\ Agree(r.q, out.p)
AtMostOnce == out.op = "update" => \A c \in Clients : out.n[c] <= 1
RemoveIsolated ==
    [][out'.op = "remove" => \A r \in regs : (r.c # out'.c \/ r.q # out'.q) => r \in regs']_vars
=============================================================================
