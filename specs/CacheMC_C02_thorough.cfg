SPECIFICATION Spec
CONSTANTS
  Targets = {"t1"}
  UPaths <- U4
  DPaths <- D4
  APaths <- A0
  Vals = {"v1", "v2"}
  MaxTs = 3
  Thr = 1
  ED = TRUE
  Acts = {"upd", "del", "tick"}
  Mutant = "none"
  MaxOps = 5
VIEW View
INVARIANTS MirrorInv CountersInv StructInv NewestInv LatestInv
PROPERTIES RejectedUnchanged Isolation
CHECK_DEADLOCK FALSE
