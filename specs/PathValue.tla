------------------------------- MODULE PathValue -------------------------------
(***************************************************************************)
(* Path indexing and value conversion (C19) as operators.                  *)
(* A path is [nil, target, origin, elems, element] where elems is a        *)
(* sequence of [name, keys] and keys a sequence of [k, v, r] (r = rank of  *)
(* the key name k in byte order among the keys of that element).           *)
(***************************************************************************)
EXTENDS Naturals, Sequences, FiniteSets, SequencesExt, TLC

RECURSIVE Flatten(_)
Flatten(ss) == IF ss = <<>> THEN <<>> ELSE Head(ss) \o Flatten(Tail(ss))

(* key values ordered by key name *)
KeyVals(keys) ==
    LET S == {keys[i] : i \in 1..Len(keys)}
        sorted == SetToSortSeq(S, LAMBDA a, b : a.r < b.r) IN
    [i \in 1..Len(sorted) |-> sorted[i].v]

ElemIdx(e) == <<e.name>> \o KeyVals(e.keys)

(* the deprecated element field is used only when elem is empty *)
PathIdx(p) ==
    IF p.nil THEN <<>>
    ELSE IF Len(p.elems) = 0 THEN p.element
    ELSE Flatten([i \in 1..Len(p.elems) |-> ElemIdx(p.elems[i])])

Header(p) == (IF p.target # "" THEN <<p.target>> ELSE <<>>) \o (IF p.origin # "" THEN <<p.origin>> ELSE <<>>)

ToStrings(p, withPrefix) == IF p.nil THEN <<>> ELSE (IF withPrefix THEN Header(p) ELSE <<>>) \o PathIdx(p)

Origin(p) == IF p.nil THEN "" ELSE p.origin

CompleteOK(pre, pa) ==
    /\ ~(Origin(pre) # "" /\ Origin(pa) # "")
    /\ ~(Origin(pre) = "" /\ Origin(pa) # "" /\ PathIdx(pre) # <<>>)

CompletePath(pre, pa) ==
    IF Origin(pre) # "" THEN <<Origin(pre)>> \o PathIdx(pre) \o PathIdx(pa)
    ELSE IF Origin(pa) # "" THEN <<Origin(pa)>> \o PathIdx(pa)
    ELSE PathIdx(pre) \o PathIdx(pa)

(* Go scalar kind -> TypedValue arm -> Go kind after ToScalar *)
ArmOf(kind) ==
    CASE kind \in {"int", "int8", "int16", "int32", "int64"} -> "int"
      [] kind \in {"uint", "uint8", "uint16", "uint32", "uint64"} -> "uint"
      [] kind \in {"float32", "float64"} -> "double"
      [] kind = "bool" -> "bool"
      [] kind = "string" -> "string"
      [] kind \in {"[]byte", "[]uint8"} -> "bytes"
      [] kind \in {"[]string", "[]interface {}"} -> "leaflist"
      [] OTHER -> "unsupported"
BackKind(arm) ==
    CASE arm = "int" -> "int64" [] arm = "uint" -> "uint64" [] arm = "double" -> "float64"
      [] arm = "bool" -> "bool" [] arm = "string" -> "string" [] arm = "bytes" -> "[]uint8"
      [] arm = "leaflist" -> "[]interface {}" [] OTHER -> "none"

(* bounded sanity model: a single state, laws as invariants *)
VARIABLE dummy
Init == dummy = 0
Next == UNCHANGED dummy
Spec == Init /\ [][Next]_dummy

K(k, v, r) == [k |-> k, v |-> v, r |-> r]
SmallElems == {[name |-> n, keys |-> ks] : n \in {"a", "b"},
               ks \in {<<>>, <<K("k1", "x", 1)>>, <<K("k1", "x", 1), K("k2", "y", 2)>>, <<K("k2", "y", 2), K("k1", "x", 1)>>}}
SmallPaths == {[nil |-> FALSE, target |-> t, origin |-> o, elems |-> es, element |-> el] :
               t \in {"", "T"}, o \in {"", "O"}, es \in {<<>>} \cup {<<e>> : e \in SmallElems} \cup {<<e, f>> : e \in SmallElems, f \in SmallElems},
               el \in {<<>>, <<"x", "y">>}}
             \cup {[nil |-> TRUE, target |-> "", origin |-> "", elems |-> <<>>, element |-> <<>>]}

(* map order does not matter: both orders of the two keys index alike *)
OrderIndependent ==
    \A n \in {"a", "b"} :
        ElemIdx([name |-> n, keys |-> <<K("k1", "x", 1), K("k2", "y", 2)>>]) =
        ElemIdx([name |-> n, keys |-> <<K("k2", "y", 2), K("k1", "x", 1)>>])
HeaderOnlyWhenRequested == \A p \in SmallPaths : ToStrings(p, TRUE) = (IF p.nil THEN <<>> ELSE Header(p)) \o ToStrings(p, FALSE)
CompleteLaw ==
    \A pre \in SmallPaths : \A pa \in {q \in SmallPaths : Len(q.elems) <= 1} :
        CompleteOK(pre, pa) =>
            CompletePath(pre, pa) = (IF Origin(pre) # "" THEN <<Origin(pre)>> ELSE IF Origin(pa) # "" THEN <<Origin(pa)>> ELSE <<>>)
                                    \o PathIdx(pre) \o PathIdx(pa)
=============================================================================
