---------------------------- MODULE FakeQueueTrace ----------------------------
(***************************************************************************)
(* Trace acceptance for the synthetic target's generator (C20).            *)
(*   cfg    the configured values (and the injected sync value)            *)
(*   next   one emission: id, ts, content token val, repeat, plus - looked *)
(*          up by the driver in the recorded sequence itself - the ts and  *)
(*          content of the same value's next emission (nts/nval, -1 if it  *)
(*          is not emitted again within the recorded window), and the      *)
(*          emission of a second generator built from the same config and  *)
(*          seed (id2/ts2/val2).                                           *)
(*   end    "exhausted" (the queue ran empty) or "limit"                   *)
(* The emission must be a value of the first bucket with exactly the       *)
(* pending timestamp/content/repeat; the inferred draw must be admissible; *)
(* the second generator must emit the same; the sync value is emitted      *)
(* after the first emission of every other value.                          *)
(***************************************************************************)
EXTENDS FakeQueue, Json, IOUtils

VARIABLES l, count, lastTs, slack, lost,  \* lost: values not seen again although their repeat count was not exhausted
          wire                            \* the emissions were read off the fake agent's gRPC stream: no repeat count, no timestamp on the sync marker
Trace == ndJsonDeserialize(IOEnv.TRACE)
tvars == <<vals, buckets, emitted, l, count, lastTs, slack, lost, wire>>
Ev == Trace[l]
St(name) == l <= Len(Trace) /\ Trace[l].ev = name /\ l' = l + 1

TInit == vals = <<>> /\ buckets = <<>> /\ emitted = <<>> /\ l = 1 /\ count = <<>> /\ lastTs = 0 /\ slack = 0 /\ lost = {} /\ wire = FALSE /\ TLCSet(1, 1)

RECURSIVE BuildSeq(_, _, _)
BuildSeq(bk, vs, i) == IF i > Len(vs) THEN bk ELSE BuildSeq(InsertB(bk, vs[i].id, vs[i].ts), vs, i + 1)

TCfg ==
    /\ St("cfg")
    /\ vals' = [id \in {Ev.vals[i].id : i \in 1..Len(Ev.vals)} |-> Ev.vals[CHOOSE i \in 1..Len(Ev.vals) : Ev.vals[i].id = id]]
    /\ buckets' = BuildSeq(<<>>, Ev.vals, 1)        \* in configuration order: equal timestamps keep it
    /\ count' = [id \in {Ev.vals[i].id : i \in 1..Len(Ev.vals)} |-> 0]
    /\ lastTs' = 0 /\ slack' = Ev.slack /\ emitted' = <<>> /\ lost' = {} /\ wire' = (Ev.obs = "wire")

TNextEv ==
    /\ St("next")
    /\ buckets # <<>>
    /\ Ev.id \in HeadIds(buckets)          \* a value of the first (lowest) timestamp bucket
    /\ LET id == Ev.id
           v == vals[id]
           e == Ev IN
       /\ e.id = id /\ e.val = v.val                                               \* exactly the pending value, in bucket order
       /\ (wire \/ e.repeat = v.repeat) = TRUE
       /\ ((wire /\ id \in {"sync", "xsync"}) \/ e.ts = v.ts) = TRUE                         \* (the sync response carries no timestamp)
       /\ e.ts >= lastTs                                                           \* non-decreasing timestamps
       /\ e.id2 = e.id /\ e.ts2 = e.ts /\ e.val2 = e.val                          \* same config + same seed: same sequence
       /\ (v.kind = "sync" => \A o \in DOMAIN count : o = id \/ count[o] >= 1) = TRUE
       /\ count' = [count EXCEPT ![id] = @ + 1]
       /\ lastTs' = e.ts
       /\ IF v.repeat = 1
          THEN /\ e.nts = 0 - 1                         \* exhausted: never emitted again
               /\ buckets' = RemoveB(buckets, id) /\ vals' = vals /\ lost' = lost
          ELSE IF e.nts = 0 - 1
          THEN /\ buckets' = RemoveB(buckets, id) /\ vals' = vals    \* not seen again within the window: beyond it
               /\ lost' = lost \cup {id}
          ELSE /\ lost' = lost
               /\ /\ (e.nts - e.ts >= v.dmin /\ e.nts - e.ts <= v.dmax) = TRUE          \* delta bounds
               /\ NextValOK([v EXCEPT !.kind = IF @ = "sync" THEN "const" ELSE @], e.nval, slack) = TRUE
               /\ vals' = [vals EXCEPT ![id] = [@ EXCEPT !.ts = e.nts, !.val = e.nval, !.pos = NextPos(v), !.opts = NextOpts(v),
                                                         !.repeat = IF @ > 1 THEN @ - 1 ELSE @]]
               /\ buckets' = InsertB(RemoveB(buckets, id), id, e.nts)
    /\ UNCHANGED <<emitted, slack, wire>>

(* the queue ran empty: every value with repeat k > 0 was emitted exactly k times *)
TEnd ==
    /\ St("end")
    /\ (Ev.kind = "exhausted") => (buckets = <<>> /\ lost = {})
    /\ UNCHANGED <<vals, buckets, emitted, count, lastTs, slack, lost, wire>>

TNext == TCfg \/ TNextEv \/ TEnd
TSpec == TInit /\ [][TNext]_tvars

Track == IF l > TLCGet(1) THEN TLCSet(1, l) ELSE TRUE
TraceAccepted ==
    /\ PrintT(<<"HWM", TLCGet(1) - 1, Len(Trace)>>)
    /\ TLCGet(1) = Len(Trace) + 1
=============================================================================
