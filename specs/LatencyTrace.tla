----------------------------- MODULE LatencyTrace -----------------------------
(***************************************************************************)
(* Acceptance of recorded runs of the real latency.Latency (C15, latency    *)
(* clause).  The trace specification states the PROPERTY of Latency.tla     *)
(* (Bounded) over the recorded samples only - it does not replay the        *)
(* implementation's slots - so any implementation whose exports stay within *)
(* the extremes of the samples observed in the window is accepted:          *)
(*   cfg      window sizes and averaging precision (ns);                     *)
(*   compute  one sample: clock and latency;                                 *)
(*   update   clock, and exactly what the call exported (size, typ, val).    *)
(* "Observed in that window": at the granularity of the update calls, i.e.  *)
(* not before the update that precedes (or is at) the window's left edge.   *)
(***************************************************************************)
EXTENDS Integers, Sequences, FiniteSets, TLC, Json, IOUtils

VARIABLES l, seen, upd, sizes, prec

Trace == ndJsonDeserialize(IOEnv.TRACE)
tvars == <<l, seen, upd, sizes, prec>>
Ev == Trace[l]
St(name) == l <= Len(Trace) /\ Trace[l].ev = name /\ l' = l + 1

Min(S) == CHOOSE x \in S : \A y \in S : x <= y
Max(S) == CHOOSE x \in S : \A y \in S : x >= y

TInit == l = 1 /\ seen = {} /\ upd = {} /\ sizes = {} /\ prec = 1 /\ TLCSet(1, 1)

TCfg ==
    /\ St("cfg")
    /\ seen' = {} /\ upd' = {} /\ prec' = Ev.prec
    /\ sizes' = {Ev.sizes[i] : i \in 1..Len(Ev.sizes)}

TCompute ==
    /\ St("compute")
    /\ seen' = seen \cup {[lat |-> Ev.lat, at |-> Ev.at]}
    /\ UNCHANGED <<upd, sizes, prec>>

PrevUpd(x) == LET c == {u \in upd : u <= x} IN IF c = {} THEN 0 ELSE Max(c)
Near(z, t) == {s \in seen : s.at >= PrevUpd(t - z) /\ s.at <= t}

ExportOK(e, t) ==
    /\ e.size \in sizes /\ e.typ \in {"avg", "max", "min"}
    /\ LET S == {s.lat : s \in Near(e.size, t)} IN
       /\ S # {}
       /\ IF e.typ = "avg" THEN e.val > Min(S) - prec /\ e.val < Max(S) + prec
                           ELSE e.val >= Min(S) /\ e.val <= Max(S)

TUpdate ==
    /\ St("update")
    /\ (\A i \in 1..Len(Ev.exp) : ExportOK(Ev.exp[i], Ev.at)) = TRUE
    \* one value per statistic and call
    /\ (\A i, j \in 1..Len(Ev.exp) : (Ev.exp[i].size = Ev.exp[j].size /\ Ev.exp[i].typ = Ev.exp[j].typ) => i = j) = TRUE
    /\ upd' = upd \cup {Ev.at}
    /\ UNCHANGED <<seen, sizes, prec>>

TNext == TCfg \/ TCompute \/ TUpdate
TSpec == TInit /\ [][TNext]_tvars

Track == IF l > TLCGet(1) THEN TLCSet(1, l) ELSE TRUE
TraceAccepted ==
    /\ PrintT(<<"HWM", TLCGet(1) - 1, Len(Trace)>>)
    /\ TLCGet(1) = Len(Trace) + 1
=============================================================================
