------------------------------ MODULE CacheTrace ------------------------------
(***************************************************************************)
(* Trace acceptance for cache.Cache (C02, C03, C14, C15).  Every line is   *)
(* one public call on the real cache with its arguments (index paths and   *)
(* value tokens), its result class, the entries the change-feed callback   *)
(* received during the call, and - read back after the call - every leaf   *)
(* of every target (proj) and every target's metadata counters (meta).     *)
(* The call is accepted iff all of these are what Cache.tla prescribes;    *)
(* the mirror obtained by replaying the feed must agree with the store     *)
(* after every call.                                                        *)
(***************************************************************************)
EXTENDS Cache, Json, IOUtils

VARIABLES known,    \* targets the cache knows
          S,        \* per-target state (Cache!FreshTarget shape)
          mirror,   \* per-target replay of the feed (targets ever seen)
          thr, ed,  \* future threshold, event-driven emulation (per scenario)
          l         \* next trace line

Trace == ndJsonDeserialize(IOEnv.TRACE)
tvars == <<known, S, mirror, thr, ed, l>>

Ev == Trace[l]
Step(name) == l <= Len(Trace) /\ Trace[l].ev = name /\ l' = l + 1

ResOf(cls) == CASE cls \in {"new", "replace"} -> "ok"
                [] cls = "stale" -> "stale"
                [] cls = "future" -> "future"
                [] OTHER -> "err"

Leaf(u, ts, at) == [p |-> u.p, ts |-> ts, val |-> u.val, enc |-> u.enc, at |-> at]

(* Sub-operations of one call, applied one at a time with a cursor into    *)
(* the recorded feed.  r = [ok, S, cur, acc (some update accepted),        *)
(* rej (some update rejected), lastcls]                                     *)
RunUpd(r, t, lf, cls, feed, weight) ==
    IF ~IsAccepted(cls) THEN
        [r EXCEPT !.S = ApplyUpd(r.S, lf, cls, FALSE, weight), !.rej = TRUE, !.lastcls = cls]
    ELSE IF r.cur <= Len(feed) /\ feed[r.cur] = UpdEntry(t, lf) THEN
        [r EXCEPT !.S = ApplyUpd(r.S, lf, cls, FALSE, weight), !.cur = @ + 1, !.acc = TRUE, !.lastcls = cls]
    ELSE IF cls = "replace" /\ MayWithhold(r.S, lf, ed) THEN
        [r EXCEPT !.S = ApplyUpd(r.S, lf, cls, TRUE, weight), !.acc = TRUE, !.lastcls = cls]
    ELSE (* wrong feed: the state still moves on, so that the other aspects *)
         (* of the call are judged on their own                             *)
         [r EXCEPT !.ok = FALSE, !.S = ApplyUpd(r.S, lf, cls, FALSE, weight), !.acc = TRUE, !.lastcls = cls]

RunDel(r, t, q, ts, feed) ==
    LET grp == DelFeed(t, r.S, q, ts)
        n   == Cardinality(grp) IN
    IF r.cur + n - 1 <= Len(feed) /\ {feed[i] : i \in r.cur..(r.cur + n - 1)} = grp
    THEN [r EXCEPT !.S = ApplyDel(r.S, q, ts), !.cur = @ + n]
    ELSE [r EXCEPT !.ok = FALSE, !.S = ApplyDel(r.S, q, ts)]

RECURSIVE FoldUps(_, _, _, _, _, _, _)
FoldUps(r, t, ups, i, ts, now, feed) ==
    IF i > Len(ups) THEN r
    ELSE LET lf  == Leaf(ups[i], ts, FALSE)
             cls == UpdClass(r.S, lf, now, thr) IN
         FoldUps(RunUpd(r, t, lf, cls, feed, 1), t, ups, i + 1, ts, now, feed)

RECURSIVE FoldDels(_, _, _, _, _, _)
FoldDels(r, t, dels, j, ts, feed) ==
    IF j > Len(dels) THEN r
    ELSE FoldDels(RunDel(r, t, dels[j].p, ts, feed), t, dels, j + 1, ts, feed)

R0(s) == [ok |-> TRUE, resok |-> TRUE, S |-> s, cur |-> 1, acc |-> FALSE, rej |-> FALSE, lastcls |-> "none"]

(* The whole GnmiUpdate dispatch for a known target.                        *)
RunNoti(s, e) ==
    LET t == e.t IN
    IF e.at THEN
        IF Len(e.dels) > 0 THEN [R0(s) EXCEPT !.resok = (e.res = "err")]
        ELSE IF Len(e.ups) = 0 THEN
            [R0(s) EXCEPT !.S = [s EXCEPT !.ctr = Bump(@, "empty", 1)], !.resok = (e.res = "ok")]
        ELSE
            LET lf   == [p |-> e.ap, ts |-> e.ts, val |-> e.aval, enc |-> e.aenc, at |-> TRUE]
                cand == {c \in UpdClasses(s, lf, e.now, thr) : ResOf(c) = e.res} IN
            IF cand = {} THEN [R0(s) EXCEPT !.resok = FALSE]
            ELSE LET cls == CHOOSE c \in cand : TRUE
                     r   == RunUpd(R0(s), t, lf, cls, e.feed, Len(e.ups)) IN
                 [r EXCEPT !.S = TrackLatest(@, e.ups[1].p, e.ts, r.acc)]
    ELSE IF Len(e.ups) + Len(e.dels) = 0 THEN
        [R0(s) EXCEPT !.S = [s EXCEPT !.ctr = Bump(@, "empty", 1)], !.resok = (e.res = "ok")]
    ELSE IF Len(e.ups) = 1 /\ Len(e.dels) = 0 THEN
        LET lf   == Leaf(e.ups[1], e.ts, FALSE)
            cand == {c \in UpdClasses(s, lf, e.now, thr) : ResOf(c) = e.res} IN
        IF cand = {} THEN [R0(s) EXCEPT !.resok = FALSE]
        ELSE LET cls == CHOOSE c \in cand : TRUE
                 r   == RunUpd(R0(s), t, lf, cls, e.feed, 1) IN
             [r EXCEPT !.S = TrackLatest(@, lf.p, e.ts, r.acc)]
    ELSE
        LET r1 == FoldUps(R0(s), t, e.ups, 1, e.ts, e.now, e.feed)
            r2 == FoldDels(r1, t, e.dels, 1, e.ts, e.feed)
            r3 == IF Len(e.ups) > 0
                  THEN [r2 EXCEPT !.S = TrackLatest(@, e.ups[1].p, e.ts, r2.acc)] ELSE r2 IN
        [r3 EXCEPT !.resok = (IF Len(e.ups) + Len(e.dels) = 1 THEN e.res = "ok"
                                   ELSE (e.res = "ok") = ~r2.rej)]

---------------------------------------------------------------------------
(* What is read back after every call.                                     *)

ProjOf(kn, st) == UNION {{[t |-> t, p |-> x.p, ts |-> x.ts, val |-> x.val] : x \in st[t].st} : t \in kn}

MetaMatches(m, s, freeUpdated) ==
    /\ m.leaves = s.ctr.leaves /\ m.added = s.ctr.added /\ m.deleted = s.ctr.deleted
    /\ m.suppressed = s.ctr.suppressed /\ m.stale = s.ctr.stale /\ m.future = s.ctr.future
    /\ m.empty = s.ctr.empty
    /\ freeUpdated \/ m.updated = s.ctr.updated
    /\ m.sync = s.sync /\ m.connected = s.connected /\ m.cerr = s.cerr

(* The property does not say how deletes are accounted in "updated": after *)
(* a call that contained deletes the counter is re-read from the log.      *)
AdoptUpdated(st, e) ==
    [t \in DOMAIN st |->
        IF \E i \in 1..Len(e.meta) : e.meta[i].t = t
        THEN LET m == e.meta[CHOOSE i \in 1..Len(e.meta) : e.meta[i].t = t] IN
             [st[t] EXCEPT !.ctr.updated = m.updated, !.size = m.size]
        ELSE st[t]]

(* The aspects of one recorded call, each a Boolean; the call is accepted   *)
(* iff all hold.  "sub" is the target the call addressed ("" if none).     *)
HasField(e, f) == f \in DOMAIN e

Aspects(e, sub, kn, st, mi, resok, feedok, freeUpdated) ==
    [res    |-> resok,
     feed   |-> feedok,
     unmod  |-> IF HasField(e, "unmod") THEN e.unmod ELSE TRUE,
     proj   |-> /\ NoDup(e.proj)
                /\ {x \in SeqToSet(e.proj) : x.t = sub} = ProjOf(kn \cap {sub}, st),
     iso    |-> /\ {x \in SeqToSet(e.proj) : x.t # sub} = ProjOf(kn \ {sub}, st)
                /\ {e.meta[i].t : i \in 1..Len(e.meta)} = kn
                /\ \A i \in 1..Len(e.meta) : e.meta[i].t # sub /\ e.meta[i].t \in kn
                        => MetaMatches(e.meta[i], st[e.meta[i].t], freeUpdated),
     meta   |-> \A i \in 1..Len(e.meta) : e.meta[i].t = sub /\ sub \in kn
                        => MetaMatches(e.meta[i], st[sub], freeUpdated) /\ CountersOK(st[sub]),
     mirror |-> /\ \A t \in kn : MirrorOK(st[t].st, mi[t], ed)
                /\ \A t \in DOMAIN mi : t \notin kn => mi[t] = {}]

AllOK(a) == \A f \in DOMAIN a : a[f]

(* With DIAG=1 in the environment the aspects of the last line are printed *)
(* (the runner uses this to say which property a rejected call breaks).     *)
DiagOn == "DIAG" \in DOMAIN IOEnv /\ IOEnv.DIAG = "1"
Diag(a) == IF DiagOn /\ l = Len(Trace) THEN PrintT(<<"DIAG", a>>) ELSE TRUE

(* "= TRUE" makes TLC evaluate the predicate as a plain Boolean expression  *)
(* instead of splitting the action on its disjunctions/quantifiers.         *)
Finish(e, sub, kn, st, mi, resok, feedok, freeUpdated) ==
    LET a == Aspects(e, sub, kn, st, mi, resok, feedok, freeUpdated) IN
    /\ Diag(a)
    /\ AllOK(a) = TRUE
    /\ known' = kn /\ mirror' = mi
    /\ S' = AdoptUpdated(st, e)
    /\ UNCHANGED <<thr, ed>>

MirrorFeed(mi, feed) ==
    [t \in DOMAIN mi |->
        MirrorApplySeq(mi[t], SelectSeq(feed, LAMBDA x : x.t = t))]


---------------------------------------------------------------------------
TInit ==
    /\ known = {} /\ S = <<>> /\ mirror = <<>> /\ thr = 0 /\ ed = TRUE /\ l = 1 /\ TLCSet(1, 1)

(* Scenario start: a fresh cache with the given options and targets.       *)
TConfig ==
    /\ Step("config")
    /\ thr' = Ev.thr /\ ed' = Ev.ed
    /\ known' = SeqToSet(Ev.targets)
    /\ S' = [t \in SeqToSet(Ev.targets) |-> FreshTarget]
    /\ mirror' = [t \in SeqToSet(Ev.targets) |-> {}]

FeedOK(feed, mi) == \A i \in 1..Len(feed) : feed[i].t \in DOMAIN mi

SafeMirrorFeed(mi, feed) == IF FeedOK(feed, mi) THEN MirrorFeed(mi, feed) ELSE mi

TGnmiUpdate ==
    /\ Step("GnmiUpdate")
    /\ LET e == Ev IN
       IF e.t \notin known
       THEN Finish(e, "", known, S, mirror, e.res = "err", e.feed = <<>>, FALSE)
       ELSE LET r == RunNoti(S[e.t], e) IN
            Finish(e, e.t, known, [S EXCEPT ![e.t] = r.S], SafeMirrorFeed(mirror, e.feed),
                   r.resok, r.ok /\ r.cur = Len(e.feed) + 1 /\ FeedOK(e.feed, mirror), Len(e.dels) > 0)

(* Lifecycle calls that are sequences of internal single updates/deletes.  *)
LifeOps(e) ==
    CASE e.ev = "Sync" -> <<[k |-> "u", lf |-> MetaLeaf("sync", "bool:true", e.now)]>>
      [] e.ev = "Connect" -> <<[k |-> "u", lf |-> MetaLeaf("connected", "bool:true", e.now)],
                               [k |-> "d", q |-> <<Meta, "connectError">>]>>
      [] e.ev = "ConnectError" -> <<[k |-> "u", lf |-> MetaLeaf("connectError", e.val, e.now)]>>

RECURSIVE FoldLife(_, _, _, _, _, _)
FoldLife(r, t, ops, i, now, feed) ==
    IF i > Len(ops) THEN r
    ELSE IF ops[i].k = "u"
         THEN FoldLife(RunUpd(r, t, ops[i].lf, UpdClass(r.S, ops[i].lf, now, thr), feed, 1), t, ops, i + 1, now, feed)
         ELSE FoldLife(RunDel(r, t, ops[i].q, now, feed), t, ops, i + 1, now, feed)

TLife ==
    /\ l <= Len(Trace) /\ Trace[l].ev \in {"Sync", "Connect", "ConnectError"} /\ l' = l + 1
    /\ LET e == Ev IN
       IF e.t \notin known
       THEN Finish(e, "", known, S, mirror, TRUE, e.feed = <<>>, FALSE)
       ELSE LET r == FoldLife(R0(S[e.t]), e.t, LifeOps(e), 1, e.now, e.feed) IN
            Finish(e, e.t, known, [S EXCEPT ![e.t] = r.S], SafeMirrorFeed(mirror, e.feed),
                   TRUE, r.ok /\ r.cur = Len(e.feed) + 1 /\ FeedOK(e.feed, mirror), e.ev = "Connect")

(* UpdateMetadata / UpdateSize address every target: sub = "" and the      *)
(* per-target checks are made by the iso aspect.                            *)
TUpdateMetadata ==
    /\ Step("UpdateMetadata")
    /\ LET e == Ev IN
       Finish(e, "", known, [t \in known |-> ExportMeta(S[t], e.now)], SafeMirrorFeed(mirror, e.feed), TRUE,
              /\ NoDup(e.feed) /\ FeedOK(e.feed, mirror)
              /\ SeqToSet(e.feed) = UNION {ExportFeed(t, S[t], e.now) : t \in known}, FALSE)

(* The size value itself is not specified (it depends on the marshalled    *)
(* form); it is re-read from the log by Finish.                            *)
TUpdateSize ==
    /\ Step("UpdateSize")
    /\ Finish(Ev, "", known, S, mirror, TRUE, Ev.feed = <<>>, FALSE)

TReset ==
    /\ Step("Reset")
    /\ LET e == Ev IN
       IF e.t \notin known
       THEN Finish(e, "", known, S, mirror, TRUE, e.feed = <<>>, FALSE)
       ELSE Finish(e, e.t, known, [S EXCEPT ![e.t] = ApplyReset(@, e.now)], SafeMirrorFeed(mirror, e.feed), TRUE,
                   /\ NoDup(e.feed) /\ FeedOK(e.feed, mirror)
                   /\ SeqToSet(e.feed) = ResetFeed(e.t, S[e.t], e.now), FALSE)

TRemove ==
    /\ Step("Remove")
    /\ LET e  == Ev
           kn == known \ {e.t}
           mi == [t \in DOMAIN mirror \cup {e.t} |-> IF t = e.t THEN {} ELSE mirror[t]] IN
       Finish(e, e.t, kn, [t \in kn |-> S[t]], mi, TRUE, e.feed = <<DelEntry(e.t, <<Glob>>, e.now)>>, FALSE)

(* Only unknown targets are added (adding a known one is outside C14).     *)
TAdd ==
    /\ Step("Add")
    /\ LET e  == Ev
           kn == known \cup {e.t}
           mi == [t \in DOMAIN mirror \cup {e.t} |-> IF t \in DOMAIN mirror THEN mirror[t] ELSE {}] IN
       /\ e.t \notin known
       /\ Finish(e, e.t, kn, [t \in kn |-> IF t = e.t THEN FreshTarget ELSE S[t]], mi, TRUE, e.feed = <<>>, FALSE)

THasTarget ==
    /\ Step("HasTarget")
    /\ Diag([read |-> Ev.res = (Ev.t = "*" \/ (Ev.t # "" /\ Ev.t \in known))])
    /\ Ev.res = (Ev.t = "*" \/ (Ev.t # "" /\ Ev.t \in known))
    /\ UNCHANGED <<known, S, mirror, thr, ed>>

(* Query for one target or "*": exactly the matching leaves, each once;    *)
(* unknown or empty target is an error.                                    *)
QueryOK(e) ==
    IF e.t = "" \/ (e.t # "*" /\ e.t \notin known)
    THEN e.res = "err" /\ e.leaves = <<>>
    ELSE /\ e.res = "ok"
         /\ NoDup(e.leaves)
         /\ SeqToSet(e.leaves) =
              {x \in ProjOf(IF e.t = "*" THEN known ELSE {e.t}, S) : QueryMatch(e.q, x.p)}

TQuery ==
    /\ Step("Query")
    /\ Diag([read |-> QueryOK(Ev)])
    /\ QueryOK(Ev) = TRUE
    /\ UNCHANGED <<known, S, mirror, thr, ed>>

TNext ==
    \/ TConfig \/ TGnmiUpdate \/ TLife \/ TUpdateMetadata \/ TUpdateSize
    \/ TReset \/ TRemove \/ TAdd \/ THasTarget \/ TQuery

TSpec == TInit /\ [][TNext]_tvars

Track == IF l > TLCGet(1) THEN TLCSet(1, l) ELSE TRUE
Accepted ==
    /\ PrintT(<<"HWM", TLCGet(1) - 1, Len(Trace)>>)
    /\ TLCGet(1) = Len(Trace) + 1
=============================================================================
