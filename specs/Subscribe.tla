------------------------------- MODULE Subscribe -------------------------------
(***************************************************************************)
(* Implementation-shaped model of one STREAM subscription of               *)
(* subscribe.Server over cache.Cache (C04), one action per critical        *)
(* section:                                                                *)
(*   writer (one per target, here one target):                             *)
(*     TreeWrite   the cache tree is written (update in place / new leaf   *)
(*                 node / delete); deletes need the root write lock and    *)
(*                 are therefore excluded while a walk's Query is running; *)
(*     Notify      the change feed offers the leaf handle (or a detached   *)
(*                 delete notification) to the registered subscriber -     *)
(*                 atomic with respect to Register (match lock);           *)
(*   subscriber goroutines:                                                *)
(*     Register    addSubscription;                                        *)
(*     WalkVisit   the initial walk inserts the handle of one leaf;        *)
(*     WalkEnd     the sync marker is inserted;                            *)
(*     Dequeue     the sender pops the head of the coalescing queue;       *)
(*     Send        the sender reads the handle's value NOW and sends it.   *)
(* The queue holds handles (leaf node identities), not values: an update   *)
(* in place between Dequeue and Send is delivered as the newest value.     *)
(*                                                                         *)
(* Mutant: "none", "register_after_walk", "sync_before_walk",              *)
(*         "notify_before_write", "queue_values", "uo_sync_after_register" *)
(*         (updates_only: the sync marker queued after the registration -  *)
(*         seeded change C04-5).                                           *)
(***************************************************************************)
EXTENDS Common, Integers, TLC

CONSTANTS Paths, Vals, MaxOps, Mutant,
          UpdatesOnly   \* the subscription asks for updates only: no initial walk, the sync marker is queued before the stream is registered

VARIABLES alive,     \* path |-> current node id (0 = absent)
          nodeVal,   \* node id |-> value (nodes are never reused)
          nnodes,
          wpc,       \* "idle" or the item the writer still has to announce
          wops,
          reg, phase, tovisit,   \* subscriber: registered?, "init"|"walk"|"synced", leaves still to visit
          queue, dupc,           \* coalescing queue of items, duplicate counts
          hold,                  \* item the sender dequeued and has not sent yet ("none")
          view, gotSync,         \* replay of what was sent
          mustsee                \* ghost: leaves alive at Register and not deleted since

vars == <<alive, nodeVal, nnodes, wpc, wops, reg, phase, tovisit, queue, dupc, hold, view, gotSync, mustsee>>

None == [k |-> "none"]
LeafItem(p, n) == [k |-> "leaf", p |-> p, n |-> n]
(* with the "queue_values" mutant the item carries the value at insertion time *)
ValItem(p, n, v) == [k |-> "leaf", p |-> p, n |-> n, v |-> v]
(* every delete notification is a fresh detached leaf: never coalesced      *)
DelItem(p, id) == [k |-> "del", p |-> p, id |-> id]
SyncItem    == [k |-> "sync"]

Init ==
    /\ alive = [p \in Paths |-> 0] /\ nodeVal = <<>> /\ nnodes = 0
    /\ wpc = None /\ wops = 0
    /\ reg = FALSE /\ phase = "init" /\ tovisit = {}
    /\ queue = <<>> /\ dupc = <<>> /\ hold = None
    /\ view = [p \in Paths |-> 0] /\ gotSync = FALSE /\ mustsee = {}

Insert(q, d, it) ==
    IF it \in SeqToSet(q) THEN <<q, [d EXCEPT ![it] = @ + 1]>>
    ELSE <<Append(q, it), [x \in DOMAIN d \cup {it} |-> IF x = it THEN 0 ELSE d[x]]>>

Item(p, n, v) == IF Mutant = "queue_values" THEN ValItem(p, n, v) ELSE LeafItem(p, n)

(* ---- writer ---- *)
WUpdate(p, v) ==
    /\ wpc = None /\ wops < MaxOps /\ wops' = wops + 1
    /\ IF alive[p] # 0
       THEN /\ nodeVal' = [nodeVal EXCEPT ![alive[p]] = v]
            /\ wpc' = Item(p, alive[p], v)
            /\ UNCHANGED <<alive, nnodes>>
       ELSE /\ nnodes' = nnodes + 1
            /\ alive' = [alive EXCEPT ![p] = nnodes + 1]
            /\ nodeVal' = [n \in 1..(nnodes + 1) |-> IF n = nnodes + 1 THEN v ELSE nodeVal[n]]
            /\ wpc' = Item(p, nnodes + 1, v)
    \* a leaf added during the walk may or may not be visited
    /\ tovisit' \in IF phase = "walk" /\ alive[p] = 0 THEN {tovisit, tovisit \cup {p}} ELSE {tovisit}
    /\ UNCHANGED <<reg, phase, queue, dupc, hold, view, gotSync, mustsee>>

WDelete(p) ==
    /\ wpc = None /\ wops < MaxOps /\ wops' = wops + 1
    /\ alive[p] # 0
    /\ phase # "walk"                       \* root write lock vs the walk's read lock
    /\ alive' = [alive EXCEPT ![p] = 0]
    /\ wpc' = DelItem(p, wops)
    /\ mustsee' = mustsee \ {p}
    /\ UNCHANGED <<nodeVal, nnodes, reg, phase, tovisit, queue, dupc, hold, view, gotSync>>

Notify ==
    /\ wpc # None
    /\ IF reg THEN /\ queue' = Insert(queue, dupc, wpc)[1]
                   /\ dupc' = Insert(queue, dupc, wpc)[2]
              ELSE UNCHANGED <<queue, dupc>>
    /\ wpc' = None
    /\ UNCHANGED <<alive, nodeVal, nnodes, wops, reg, phase, tovisit, hold, view, gotSync, mustsee>>

(* ---- subscriber ---- *)
Register ==
    /\ ~reg
    /\ (Mutant = "register_after_walk") => phase = "synced"
    /\ (UpdatesOnly /\ Mutant # "uo_sync_after_register") => phase = "synced"   \* the sync marker is already queued
    /\ reg' = TRUE
    /\ mustsee' = IF Mutant = "register_after_walk" THEN mustsee ELSE {p \in Paths : alive[p] # 0}
    /\ UNCHANGED <<alive, nodeVal, nnodes, wpc, wops, phase, tovisit, queue, dupc, hold, view, gotSync>>

(* updates_only: no walk, just the sync marker *)
UOSync ==
    /\ UpdatesOnly /\ phase = "init"
    /\ (Mutant = "uo_sync_after_register") => reg
    /\ phase' = "synced"
    /\ queue' = Insert(queue, dupc, SyncItem)[1] /\ dupc' = Insert(queue, dupc, SyncItem)[2]
    /\ UNCHANGED <<alive, nodeVal, nnodes, wpc, wops, reg, tovisit, hold, view, gotSync, mustsee>>

WalkBegin ==
    /\ ~UpdatesOnly
    /\ phase = "init"
    /\ (Mutant # "register_after_walk") => reg
    /\ phase' = "walk"
    /\ tovisit' = {p \in Paths : alive[p] # 0}
    /\ IF Mutant = "sync_before_walk"
       THEN queue' = Insert(queue, dupc, SyncItem)[1] /\ dupc' = Insert(queue, dupc, SyncItem)[2]
       ELSE UNCHANGED <<queue, dupc>>
    /\ mustsee' = IF Mutant = "register_after_walk" THEN {p \in Paths : alive[p] # 0} ELSE mustsee
    /\ UNCHANGED <<alive, nodeVal, nnodes, wpc, wops, reg, hold, view, gotSync>>

WalkVisit(p) ==
    /\ phase = "walk" /\ p \in tovisit
    /\ tovisit' = tovisit \ {p}
    /\ IF alive[p] # 0
       THEN LET it == Item(p, alive[p], nodeVal[alive[p]]) IN
            queue' = Insert(queue, dupc, it)[1] /\ dupc' = Insert(queue, dupc, it)[2]
       ELSE UNCHANGED <<queue, dupc>>
    /\ UNCHANGED <<alive, nodeVal, nnodes, wpc, wops, reg, phase, hold, view, gotSync, mustsee>>

WalkEnd ==
    /\ phase = "walk" /\ tovisit = {}
    /\ phase' = "synced"
    /\ IF Mutant = "sync_before_walk" THEN UNCHANGED <<queue, dupc>>
       ELSE queue' = Insert(queue, dupc, SyncItem)[1] /\ dupc' = Insert(queue, dupc, SyncItem)[2]
    /\ UNCHANGED <<alive, nodeVal, nnodes, wpc, wops, reg, tovisit, hold, view, gotSync, mustsee>>

Dequeue ==
    /\ hold = None /\ queue # <<>>
    /\ hold' = Head(queue)
    /\ queue' = Tail(queue)
    /\ dupc' = [x \in DOMAIN dupc \ {Head(queue)} |-> dupc[x]]
    /\ UNCHANGED <<alive, nodeVal, nnodes, wpc, wops, reg, phase, tovisit, view, gotSync, mustsee>>

Send ==
    /\ hold # None
    /\ hold' = None
    /\ CASE hold.k = "leaf" ->
              /\ view' = [view EXCEPT ![hold.p] = IF Mutant = "queue_values" THEN hold.v ELSE nodeVal[hold.n]]
              /\ UNCHANGED gotSync
         [] hold.k = "del"  -> view' = [view EXCEPT ![hold.p] = 0] /\ UNCHANGED gotSync
         [] hold.k = "sync" -> gotSync' = TRUE /\ UNCHANGED view
    /\ UNCHANGED <<alive, nodeVal, nnodes, wpc, wops, reg, phase, tovisit, queue, dupc, mustsee>>

Writer == (\E p \in Paths, v \in Vals : WUpdate(p, v)) \/ (\E p \in Paths : WDelete(p)) \/ Notify
Walker == Register \/ UOSync \/ WalkBegin \/ (\E p \in Paths : WalkVisit(p)) \/ WalkEnd
Sender == Dequeue \/ Send

(* "notify_before_write": the feed is called before the tree is written -  *)
(* modelled by letting Notify's item be read by the sender before the      *)
(* value lands; covered by the trace checks, not by this model.            *)

Next == Writer \/ Walker \/ Sender
Spec == Init /\ [][Next]_vars /\ WF_vars(Walker) /\ WF_vars(Sender) /\ WF_vars(Notify)

---------------------------------------------------------------------------
Cur(p) == IF alive[p] = 0 THEN 0 ELSE nodeVal[alive[p]]

Quiescent == wpc = None /\ queue = <<>> /\ hold = None /\ phase = "synced" /\ reg

(* C04: once nothing is pending the replayed responses equal the cache.    *)
Converge == (~UpdatesOnly /\ Quiescent) => \A p \in Paths : view[p] = Cur(p)

(* the inductive core: a registered, synced subscriber is up to date on p  *)
(* or something for p is still pending                                      *)
PendingFor(p) ==
    \/ \E i \in 1..Len(queue) : queue[i].k # "sync" /\ queue[i].p = p
    \/ hold.k \in {"leaf", "del"} /\ hold.p = p
    \/ wpc.k \in {"leaf", "del"} /\ wpc.p = p
NoLostUpdate == (~UpdatesOnly /\ reg /\ phase = "synced") => \A p \in Paths : view[p] = Cur(p) \/ PendingFor(p)

(* the sync_response comes after every leaf that was present since the     *)
(* subscription started                                                     *)
SyncAfterSnapshot == (~UpdatesOnly /\ gotSync) => \A p \in mustsee : view[p] # 0 \/ PendingFor(p)

(* updates_only: the sync_response is the first thing the subscriber is sent *)
UOSyncFirst == (UpdatesOnly /\ ~gotSync) => \A p \in Paths : view[p] = 0

(* the backlog holds at most one entry per leaf node, one per delete, sync *)
Backlog == Len(queue) <= nnodes + wops + 1 /\ \A i, j \in 1..Len(queue) : i # j => queue[i] # queue[j]

(* liveness: the subscriber eventually gets its sync and catches up        *)
EventuallySynced == <>gotSync
EventuallyConverged == UpdatesOnly \/ <>[](wops = MaxOps => \A p \in Paths : view[p] = Cur(p))
=============================================================================
