SPECIFICATION Spec
CONSTANTS
  Family = "resp"
INVARIANT Emit
CHECK_DEADLOCK FALSE
