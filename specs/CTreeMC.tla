------------------------------- MODULE CTreeMC -------------------------------
(* Model-checking / universe-generation wrapper for CTree.                   *)
EXTENDS CTree, Json

(* One line per distinct reachable tree; the conformance driver rebuilds    *)
(* each of them in a real ctree.Tree and applies every operation to it.     *)
EmitJson == PrintT(<<"STATE", ToJson(tree)>>)
=============================================================================
