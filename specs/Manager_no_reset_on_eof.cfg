SPECIFICATION Spec
CONSTANTS
  MaxSessions = 3
  MaxMsgs = 2
  MaxInc = 2
  Mutant = "no_reset_on_eof"
INVARIANTS Discipline SilenceAfterRemove
CHECK_DEADLOCK FALSE
