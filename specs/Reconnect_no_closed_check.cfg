SPECIFICATION Spec
CONSTANTS
  MaxAttempts = 3
  Mutant = "no_closed_check"
INVARIANTS Discipline
PROPERTIES CloseReturns SubscribeReturns KeepsRetrying
CHECK_DEADLOCK FALSE
