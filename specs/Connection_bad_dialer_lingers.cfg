SPECIFICATION Spec
CONSTANTS
  Callers = {"c1", "c2", "c3"}
  Addrs = {"a1", "a2"}
  MaxEntries = 3
  Mutant = "bad_dialer_lingers"
INVARIANTS AtMostOneDial NoUseAfterClose ClosedAtLastRelease FailedForgotten NeverJoinClosed
CHECK_DEADLOCK FALSE
