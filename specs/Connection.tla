------------------------------ MODULE Connection ------------------------------
(***************************************************************************)
(* Implementation-shaped model of connection.Manager (C16): a map from     *)
(* address to a reference-counted connection entry, one action per lock    *)
(* section / channel operation of Connection(), dial() and done().         *)
(*   Acquire(c)    lock: create entry (and start its dial) or join; ref++  *)
(*   DialEnd(e)    the dial function returned; on failure lock: forget the *)
(*                 entry, publish err; close(ready)                        *)
(*   Read(c)       <-ready; read the shared outcome (conn or error)        *)
(*   Release(c)    done(): once; lock: ref--; at 0 close the conn, forget  *)
(*   Release2(c)   a second call of the same done function (no effect)     *)
(* Entries are numbered: a forgotten address gets a fresh entry on the     *)
(* next request.  Mutant: "none", "ref_after_ready" (count the reference   *)
(* only once the outcome is read), "no_once" (a second done decrements),  *)
(* "bad_dialer_lingers" (a failure for want of a dialer is not forgotten). *)
(***************************************************************************)
EXTENDS Naturals, FiniteSets, TLC

CONSTANTS Callers, Addrs, MaxEntries, Mutant

VARIABLES cur,      \* address |-> entry id currently in the map (0 = none)
          ent,      \* entry id |-> [addr, ref, ready, ok, closed, dialing]
          nent,
          pc,       \* caller |-> "idle" | "wait" | "hold" | "failed" | "released" | "released2"
          addrOf,   \* caller |-> address requested
          got       \* caller |-> entry joined (0 = none)

vars == <<cur, ent, nent, pc, addrOf, got>>

Init ==
    /\ cur = [a \in Addrs |-> 0] /\ ent = <<>> /\ nent = 0
    /\ pc = [c \in Callers |-> "idle"] /\ addrOf = [c \in Callers |-> CHOOSE a \in Addrs : TRUE]
    /\ got = [c \in Callers |-> 0]

RefInc(e) == IF Mutant = "ref_after_ready" THEN ent[e].ref ELSE ent[e].ref + 1

Acquire(c, a) ==
    /\ pc[c] = "idle"
    /\ addrOf' = [addrOf EXCEPT ![c] = a]
    /\ IF cur[a] = 0
       THEN /\ nent < MaxEntries
            /\ nent' = nent + 1
            /\ ent' = [e \in 1..(nent + 1) |->
                         IF e = nent + 1
                         THEN [addr |-> a, ref |-> IF Mutant = "ref_after_ready" THEN 0 ELSE 1,
                               ready |-> FALSE, ok |-> FALSE, closed |-> FALSE, dialing |-> TRUE]
                         ELSE ent[e]]
            /\ cur' = [cur EXCEPT ![a] = nent + 1]
            /\ got' = [got EXCEPT ![c] = nent + 1]
       ELSE /\ ent' = [ent EXCEPT ![cur[a]].ref = RefInc(cur[a])]
            /\ got' = [got EXCEPT ![c] = cur[a]]
            /\ UNCHANGED <<cur, nent>>
    /\ pc' = [pc EXCEPT ![c] = "wait"]

(* a request may name a dialer the manager does not have: that "dial" fails at once, like any other  *)
(* (mutant "bad_dialer_lingers": it returns before the entry is forgotten)                           *)
DialEnd(e, ok) ==
    /\ e \in DOMAIN ent /\ ent[e].dialing
    /\ ent' = [ent EXCEPT ![e] = [@ EXCEPT !.dialing = FALSE, !.ready = TRUE, !.ok = ok]]
    /\ \E badDialer \in BOOLEAN :
          cur' = IF ok \/ (badDialer /\ Mutant = "bad_dialer_lingers") THEN cur
                 ELSE [cur EXCEPT ![ent[e].addr] = IF @ = e THEN 0 ELSE @]
    /\ UNCHANGED <<nent, pc, addrOf, got>>

Read(c) ==
    /\ pc[c] = "wait" /\ ent[got[c]].ready
    /\ IF ent[got[c]].ok
       THEN /\ pc' = [pc EXCEPT ![c] = "hold"]
            /\ ent' = IF Mutant = "ref_after_ready" THEN [ent EXCEPT ![got[c]].ref = @ + 1] ELSE ent
       ELSE pc' = [pc EXCEPT ![c] = "failed"] /\ UNCHANGED ent
    /\ UNCHANGED <<cur, nent, addrOf, got>>

DoRelease(c) ==
    LET e == got[c]
        r == ent[e].ref - 1 IN
    /\ ent' = [ent EXCEPT ![e] = [@ EXCEPT !.ref = r, !.closed = @ \/ r <= 0]]
    /\ cur' = IF r <= 0 THEN [cur EXCEPT ![ent[e].addr] = IF @ = e THEN 0 ELSE @] ELSE cur

Release(c) ==
    /\ pc[c] = "hold"
    /\ DoRelease(c)
    /\ pc' = [pc EXCEPT ![c] = "released"]
    /\ UNCHANGED <<nent, addrOf, got>>

(* calling the same done function again, or done after a failed request    *)
Release2(c) ==
    /\ pc[c] \in {"released", "failed"}
    /\ IF Mutant = "no_once" /\ pc[c] = "released" THEN DoRelease(c) ELSE UNCHANGED <<ent, cur>>
    /\ pc' = [pc EXCEPT ![c] = "released2"]
    /\ UNCHANGED <<nent, addrOf, got>>

(* a caller may come back for another request *)
Again(c) ==
    /\ pc[c] = "released2"
    /\ pc' = [pc EXCEPT ![c] = "idle"] /\ got' = [got EXCEPT ![c] = 0]
    /\ UNCHANGED <<cur, ent, nent, addrOf>>

Next ==
    \/ \E c \in Callers, a \in Addrs : Acquire(c, a)
    \/ \E e \in 1..nent, ok \in BOOLEAN : DialEnd(e, ok)
    \/ \E c \in Callers : Read(c) \/ Release(c) \/ Release2(c) \/ Again(c)
Spec == Init /\ [][Next]_vars

---------------------------------------------------------------------------
Holders(e) == {c \in Callers : pc[c] = "hold" /\ got[c] = e}

(* at most one dial per address is in flight                                *)
AtMostOneDial == \A a \in Addrs : Cardinality({e \in DOMAIN ent : ent[e].addr = a /\ ent[e].dialing}) <= 1

(* a connection handed out is never closed while a holder has not released  *)
NoUseAfterClose == \A e \in DOMAIN ent : Holders(e) # {} => ~ent[e].closed

(* once nobody holds or waits for it, a dialled connection is closed and    *)
(* forgotten, so that the next request dials afresh                         *)
ClosedAtLastRelease ==
    \A e \in DOMAIN ent :
        (ent[e].ready /\ ent[e].ok /\ Holders(e) = {} /\ (~\E w \in Callers : pc[w] = "wait" /\ got[w] = e)
         /\ \E r \in Callers : got[r] = e /\ pc[r] \in {"released", "released2"})
            => ent[e].closed /\ cur[ent[e].addr] # e

(* a failed entry is forgotten                                              *)
FailedForgotten == \A e \in DOMAIN ent : (ent[e].ready /\ ~ent[e].ok) => cur[ent[e].addr] # e

(* concurrent requesters share the outcome: everybody who joined entry e    *)
(* reads e's outcome (by construction of Read); nobody joins a closed one   *)
NeverJoinClosed == \A c \in Callers : pc[c] = "wait" => ~ent[got[c]].closed
=============================================================================
