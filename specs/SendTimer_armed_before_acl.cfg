SPECIFICATION Spec
CONSTANTS
  MaxItems = 4
  Mutant = "armed_before_acl"
INVARIANTS TimeoutOnlyWhenBlocked
PROPERTIES BlockedSendTimesOut
CHECK_DEADLOCK FALSE
