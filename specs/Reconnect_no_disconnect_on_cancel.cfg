SPECIFICATION Spec
CONSTANTS
  MaxAttempts = 3
  Mutant = "no_disconnect_on_cancel"
INVARIANTS Discipline
PROPERTIES CloseReturns SubscribeReturns KeepsRetrying
CHECK_DEADLOCK FALSE
