------------------------------- MODULE SendTimer -------------------------------
(***************************************************************************)
(* The send-timeout discipline of one subscriber's sender goroutine        *)
(* (subscribe.Server.sendStreamingResults / sendSubscribeResponse, C08;    *)
(* the clauses of C05 and C07 that depend on it).  The sender takes items  *)
(* from its queue: a leaf of an allowed target, a leaf of a target its ACL *)
(* denies (dropped at send time) or the sync marker.  One timer guards     *)
(* the sends: armed before a Send, stopped after it.  The timer goroutine  *)
(* ends the RPC when the timer fires.  Time passes between any two steps;  *)
(* the client may be stalled (its Send does not return) or merely idle     *)
(* (nothing in the queue for a long time).                                 *)
(*                                                                         *)
(*   TimeoutOnlyWhenBlocked  the RPC is ended by the timer only while a    *)
(*                           Send is in progress: an idle subscriber, one  *)
(*                           that has just been handed the sync, or one    *)
(*                           whose last item was dropped by the ACL is     *)
(*                           never timed out;                              *)
(*   BlockedSendTimesOut     a Send that never returns ends the RPC        *)
(*                           (under fairness of the clock), the sync       *)
(*                           response included.                            *)
(* Mutant: "none", "sync_not_stopped" (timer left running after the sync   *)
(* response - seeded change C05-3), "armed_before_acl" (timer armed before *)
(* the ACL filter, never stopped for a dropped item - C07-3),              *)
(* "sync_uncovered" (the sync response sent without the timer - the defect *)
(* repaired in 37265f9).                                                   *)
(***************************************************************************)
EXTENDS Naturals, Sequences

CONSTANTS MaxItems, Mutant

Items == {"leaf", "denied", "sync"}

VARIABLES pc,        \* "idle" (waiting for an item) | "sending" (inside Send) | "ended"
          timer,     \* "stopped" | "armed"
          stalled,   \* the client does not take what is sent: a Send in progress never returns
          taken,     \* items handled so far (bounds the model)
          endedBy,   \* "" | "timeout" | "client"
          wasSending, \* a Send was in progress when the timer fired
          cur        \* the item being sent

vars == <<pc, timer, stalled, taken, endedBy, wasSending, cur>>

Init == pc = "idle" /\ timer = "stopped" /\ stalled \in BOOLEAN /\ taken = 0 /\ endedBy = "" /\ wasSending = TRUE /\ cur = ""

(* the sender dequeues an item and handles it up to the point where Send is entered *)
Take(item) ==
    /\ pc = "idle" /\ taken < MaxItems
    /\ taken' = taken + 1
    /\ CASE item = "denied" ->
              \* dropped by the send-time ACL check: nothing is sent
              /\ pc' = "idle"
              /\ timer' = IF Mutant = "armed_before_acl" THEN "armed" ELSE timer
         [] item = "sync" ->
              /\ pc' = "sending"
              /\ timer' = IF Mutant = "sync_uncovered" THEN timer ELSE "armed"
         [] OTHER ->
              /\ pc' = "sending" /\ timer' = "armed"
    /\ cur' = item
    /\ UNCHANGED <<stalled, endedBy, wasSending>>

(* Send returns (the client took the message): the timer is stopped *)
SendReturns ==
    /\ pc = "sending" /\ ~stalled
    /\ pc' = "idle"
    /\ timer' = IF Mutant = "sync_not_stopped" /\ cur = "sync" THEN timer ELSE "stopped"
    /\ UNCHANGED <<stalled, taken, endedBy, wasSending, cur>>

(* time passes for longer than the timeout while the timer is armed: the timer goroutine ends the RPC *)
TimerFires ==
    /\ timer = "armed" /\ pc # "ended"
    /\ pc' = "ended" /\ endedBy' = "timeout" /\ wasSending' = (pc = "sending")
    /\ UNCHANGED <<timer, stalled, taken, cur>>

(* the client goes away *)
ClientEnds ==
    /\ pc # "ended" /\ pc' = "ended" /\ endedBy' = "client"
    /\ UNCHANGED <<timer, stalled, taken, wasSending, cur>>

Next == (\E i \in Items : Take(i)) \/ SendReturns \/ TimerFires \/ ClientEnds \/ (pc = "ended" /\ UNCHANGED vars)
Spec == Init /\ [][Next]_vars /\ WF_vars(TimerFires) /\ WF_vars(SendReturns)

TimeoutOnlyWhenBlocked == endedBy = "timeout" => wasSending
BlockedSendTimesOut == [](pc = "sending" /\ stalled => <>(pc = "ended"))
=============================================================================
