SPECIFICATION Spec
CONSTANTS
  MaxItems = 4
  Mutant = "none"
INVARIANTS TimeoutOnlyWhenBlocked
PROPERTIES BlockedSendTimesOut
CHECK_DEADLOCK FALSE
