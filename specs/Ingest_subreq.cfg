SPECIFICATION Spec
CONSTANTS
  Family = "subreq"
INVARIANT Emit
CHECK_DEADLOCK FALSE
