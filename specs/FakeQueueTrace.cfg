SPECIFICATION TSpec
CONSTANTS
  Ids = {"v1"}
  MaxTs = 1
  MaxEmit = 1
CONSTRAINT Track
POSTCONDITION TraceAccepted
CHECK_DEADLOCK FALSE
