-------------------------------- MODULE Pipeline --------------------------------
(***************************************************************************)
(* The collector pipeline (C01), stage by stage:                           *)
(*   target --stream--> manager --glue--> cache --feed--> Subscribe server *)
(*          --stream--> client library / CLI                               *)
(* truth[t]   the target's own state (what it has sent, applied in order)  *)
(* wire[t]    notifications in flight between the target and the cache     *)
(* store[t]   the collector's cache for t (only if t was registered with   *)
(*            the cache, "known")                                          *)
(* subq       the subscriber's queue (a '*' subscription through the       *)
(*            collector), view the client's replay of what it received     *)
(* A session drop loses what is in flight, resets the cache for that       *)
(* target (announced to the subscriber) and the target then replays its    *)
(* current state on the new stream.                                        *)
(* A target may also send a MIXED notification: one update and one delete  *)
(* in one message (the replace / resync idiom); the cache refuses the      *)
(* update when it re-asserts what is stored, and applies the delete all    *)
(* the same.                                                               *)
(* Mutant: "none", "no_register" (configured targets are never registered  *)
(* with the cache), "no_reset" (the cache is not reset on reconnect),      *)
(* "mixed_drops_delete" (a 1-update + 1-delete notification takes the      *)
(* single-update path: seeded changes C02-3 / C01-4),                      *)
(* "refused_update_skips_deletes" (seeded change C01-5).                   *)
(***************************************************************************)
EXTENDS Naturals, Sequences, FiniteSets, TLC

CONSTANTS Targets, Paths, Vals, MaxSends, MaxDrops, Mutant

VARIABLES truth, wire, store, known, subscribed, subq, view, sends, drops
vars == <<truth, wire, store, known, subscribed, subq, view, sends, drops>>

Absent == 0
Upd(t, p, v) == [k |-> "upd", t |-> t, p |-> p, v |-> v]
Del(t, p)    == [k |-> "del", t |-> t, p |-> p]
ResetMsg(t)  == [k |-> "reset", t |-> t]
Mix(t, p, v, d) == [k |-> "mix", t |-> t, p |-> p, v |-> v, d |-> d]

Init ==
    /\ truth = [t \in Targets |-> [p \in Paths |-> Absent]]
    /\ wire = [t \in Targets |-> <<>>]
    /\ store = [t \in Targets |-> [p \in Paths |-> Absent]]
    /\ known = IF Mutant = "no_register" THEN {} ELSE Targets
    /\ subscribed = FALSE /\ subq = <<>>
    /\ view = [t \in Targets |-> [p \in Paths |-> Absent]]
    /\ sends = 0 /\ drops = 0

TargetSend(t, p, v) ==
    /\ sends < MaxSends /\ sends' = sends + 1
    /\ truth' = [truth EXCEPT ![t][p] = v]
    /\ wire' = [wire EXCEPT ![t] = Append(@, IF v = Absent THEN Del(t, p) ELSE Upd(t, p, v))]
    /\ UNCHANGED <<store, known, subscribed, subq, view, drops>>

(* one message carrying an update of pu and a delete of pd *)
TargetSendMixed(t, pu, v, pd) ==
    /\ pu # pd /\ v # Absent
    /\ sends < MaxSends /\ sends' = sends + 1
    /\ truth' = [truth EXCEPT ![t] = [@ EXCEPT ![pu] = v, ![pd] = Absent]]
    /\ wire' = [wire EXCEPT ![t] = Append(@, Mix(t, pu, v, pd))]
    /\ UNCHANGED <<store, known, subscribed, subq, view, drops>>

(* manager callback + collector glue + cache ingest + feed *)
Deliver(t) ==
    /\ wire[t] # <<>>
    /\ LET m == Head(wire[t]) IN
       /\ wire' = [wire EXCEPT ![t] = Tail(@)]
       /\ IF t \notin known THEN UNCHANGED <<store, subq>>        \* "target not found in cache": dropped
          ELSE IF m.k = "mix"
          THEN LET refused == store[t][m.p] = m.v      \* a re-assertion of what is stored: refused as stale
                   doDel   == /\ Mutant # "mixed_drops_delete"
                              /\ ~(Mutant = "refused_update_skips_deletes" /\ refused)
                   s1 == IF refused THEN store[t] ELSE [store[t] EXCEPT ![m.p] = m.v]
                   s2 == IF doDel THEN [s1 EXCEPT ![m.d] = Absent] ELSE s1 IN
               /\ store' = [store EXCEPT ![t] = s2]
               /\ subq' = IF subscribed
                          THEN subq \o (IF refused THEN <<>> ELSE <<Upd(t, m.p, m.v)>>) \o (IF doDel THEN <<Del(t, m.d)>> ELSE <<>>)
                          ELSE subq
          ELSE /\ store' = [store EXCEPT ![t][m.p] = IF m.k = "upd" THEN m.v ELSE Absent]
               /\ subq' = IF subscribed THEN Append(subq, m) ELSE subq
    /\ UNCHANGED <<truth, known, subscribed, view, sends, drops>>

(* the stream breaks: in-flight data is lost, the cache is reset, the target replays its state *)
SessionDrop(t) ==
    /\ drops < MaxDrops /\ drops' = drops + 1
    /\ wire' = [wire EXCEPT ![t] = [i \in 1..Cardinality({p \in Paths : truth[t][p] # Absent}) |->
                    LET ps == {p \in Paths : truth[t][p] # Absent}
                        f == CHOOSE g \in [1..Cardinality(ps) -> ps] : \A a, b \in 1..Cardinality(ps) : a # b => g[a] # g[b] IN
                    Upd(t, f[i], truth[t][f[i]])]]
    /\ IF Mutant = "no_reset" \/ t \notin known THEN UNCHANGED <<store, subq>>
       ELSE /\ store' = [store EXCEPT ![t] = [p \in Paths |-> Absent]]
            /\ subq' = IF subscribed THEN Append(subq, ResetMsg(t)) ELSE subq
    /\ UNCHANGED <<truth, known, subscribed, view, sends>>

(* a client subscribes through the collector: snapshot of the cache, then the stream *)
SubscriberStart ==
    /\ ~subscribed /\ subscribed' = TRUE
    /\ LET leaves == {<<t, p>> \in Targets \X Paths : store[t][p] # Absent}
           n == Cardinality(leaves)
           f == CHOOSE g \in [1..n -> leaves] : \A a, b \in 1..n : a # b => g[a] # g[b] IN
       subq' = [i \in 1..n |-> Upd(f[i][1], f[i][2], store[f[i][1]][f[i][2]])]
    /\ UNCHANGED <<truth, wire, store, known, view, sends, drops>>

ClientApply ==
    /\ subq # <<>>
    /\ LET m == Head(subq) IN
       view' = CASE m.k = "upd" -> [view EXCEPT ![m.t][m.p] = m.v]
                 [] m.k = "del" -> [view EXCEPT ![m.t][m.p] = Absent]
                 [] m.k = "reset" -> [view EXCEPT ![m.t] = [p \in Paths |-> Absent]]
    /\ subq' = Tail(subq)
    /\ UNCHANGED <<truth, wire, store, known, subscribed, sends, drops>>

Next ==
    \/ \E t \in Targets, p \in Paths, v \in Vals \cup {Absent} : TargetSend(t, p, v)
    \/ \E t \in Targets, pu \in Paths, pd \in Paths, v \in Vals : TargetSendMixed(t, pu, v, pd)
    \/ \E t \in Targets : Deliver(t) \/ SessionDrop(t)
    \/ SubscriberStart \/ ClientApply
Spec == Init /\ [][Next]_vars /\ WF_vars(\E t \in Targets : Deliver(t)) /\ WF_vars(ClientApply) /\ WF_vars(SubscriberStart)

Quiescent == subscribed /\ subq = <<>> /\ \A t \in Targets : wire[t] = <<>>
(* C01: once the streams quiesce the client's view equals the target's final state *)
Faithful == Quiescent => view = truth
EventuallyFaithful == <>[](sends = MaxSends /\ drops = MaxDrops => view = truth)
=============================================================================
