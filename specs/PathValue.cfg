SPECIFICATION Spec
INVARIANTS OrderIndependent HeaderOnlyWhenRequested CompleteLaw
CHECK_DEADLOCK FALSE
