----------------------------- MODULE CoalesceChan -----------------------------
(***************************************************************************)
(* Implementation-shaped model of coalesce.Queue (C11): the mutex-protected*)
(* queue, the capacity-1 "inserted" token channel, the "closed" broadcast  *)
(* channel, producers running Insert (closed check ; locked insert ;       *)
(* non-blocking token send), one consumer running Next (locked next ;      *)
(* select{ctx, inserted, closed -> Len()==0 ?}), a closer and a canceller. *)
(* One action per critical section / channel operation.                    *)
(*                                                                         *)
(* Mutant selects a deliberately wrong variant (used to show that the      *)
(* properties bite): "token_before_insert", "no_len_recheck".              *)
(***************************************************************************)
EXTENDS Common, TLC

CONSTANTS Producers, Mutant

(* What each producer inserts, in order.                                    *)
Script == [p \in Producers |-> IF p = "p1" THEN <<"a", "b">> ELSE <<"b", "a">>]

VARIABLES queue, dup,            \* protected by the mutex
          token,                 \* 0/1: content of the capacity-1 channel
          closedCh, cancelled,   \* closed broadcast, consumer context
          ppc, pidx, pfresh,     \* producer: pc, index into its script, result of locked insert
          cpc,                   \* consumer pc
          delivered,             \* ghost: sequence of <<item, dup>> handed to the consumer
          okBeforeClose,         \* ghost: insertions that returned success before Close
          accepted               \* ghost: insertions whose locked insert ran

vars == <<queue, dup, token, closedCh, cancelled, ppc, pidx, pfresh, cpc, delivered, okBeforeClose, accepted>>

Pending == SeqToSet(queue)

Init ==
    /\ queue = <<>> /\ dup = <<>> /\ token = 0 /\ closedCh = FALSE /\ cancelled = FALSE
    /\ ppc = [p \in Producers |-> "check"] /\ pidx = [p \in Producers |-> 1]
    /\ pfresh = [p \in Producers |-> FALSE]
    /\ cpc = "next" /\ delivered = <<>> /\ okBeforeClose = 0 /\ accepted = 0

Item(p) == Script[p][pidx[p]]

Advance(p) ==
    IF pidx[p] < Len(Script[p])
    THEN pidx' = [pidx EXCEPT ![p] = @ + 1] /\ ppc' = [ppc EXCEPT ![p] = "check"]
    ELSE pidx' = pidx /\ ppc' = [ppc EXCEPT ![p] = "done"]

(* Insert: select{<-closed: refuse; default}                                *)
PCheck(p) ==
    /\ ppc[p] = "check"
    /\ IF closedCh THEN Advance(p) /\ UNCHANGED token
       ELSE IF Mutant = "token_before_insert"
            THEN token' = 1 /\ ppc' = [ppc EXCEPT ![p] = "ins"] /\ UNCHANGED pidx
            ELSE ppc' = [ppc EXCEPT ![p] = "ins"] /\ UNCHANGED <<pidx, token>>
    /\ UNCHANGED <<queue, dup, closedCh, cancelled, pfresh, cpc, delivered, okBeforeClose, accepted>>

(* q.insert(i) under the mutex                                              *)
PInsert(p) ==
    /\ ppc[p] = "ins"
    /\ LET i == Item(p) IN
       IF i \in Pending
       THEN /\ dup' = [dup EXCEPT ![i] = @ + 1] /\ queue' = queue
            /\ pfresh' = [pfresh EXCEPT ![p] = FALSE]
       ELSE /\ queue' = Append(queue, i)
            /\ dup' = [x \in DOMAIN dup \cup {i} |-> IF x = i THEN 0 ELSE dup[x]]
            /\ pfresh' = [pfresh EXCEPT ![p] = TRUE]
    /\ accepted' = accepted + 1
    /\ ppc' = [ppc EXCEPT ![p] = "tok"]
    /\ UNCHANGED <<token, closedCh, cancelled, pidx, cpc, delivered, okBeforeClose>>

(* if ok { select { case inserted <- {}: default: } } ; return             *)
PToken(p) ==
    /\ ppc[p] = "tok"
    /\ token' = IF pfresh[p] /\ Mutant # "token_before_insert" THEN 1 ELSE token
    /\ okBeforeClose' = IF closedCh THEN okBeforeClose ELSE okBeforeClose + 1
    /\ Advance(p)
    /\ UNCHANGED <<queue, dup, closedCh, cancelled, pfresh, cpc, delivered, accepted>>

(* Next: q.next() under the mutex                                           *)
CNext ==
    /\ cpc = "next"
    /\ IF queue # <<>>
       THEN /\ delivered' = Append(delivered, <<Head(queue), dup[Head(queue)]>>)
            /\ dup' = [x \in DOMAIN dup \ {Head(queue)} |-> dup[x]]
            /\ queue' = Tail(queue)
            /\ cpc' = "next"            \* the caller (sender loop) calls Next again
       ELSE /\ cpc' = "sel" /\ UNCHANGED <<queue, dup, delivered>>
    /\ UNCHANGED <<token, closedCh, cancelled, ppc, pidx, pfresh, okBeforeClose, accepted>>

(* select { <-ctx.Done ; <-inserted ; <-closed }  - any ready case          *)
CSelCtx ==
    /\ cpc = "sel" /\ cancelled /\ cpc' = "retCancelled"
    /\ UNCHANGED <<queue, dup, token, closedCh, cancelled, ppc, pidx, pfresh, delivered, okBeforeClose, accepted>>
CSelToken ==
    /\ cpc = "sel" /\ token = 1 /\ token' = 0 /\ cpc' = "next"
    /\ UNCHANGED <<queue, dup, closedCh, cancelled, ppc, pidx, pfresh, delivered, okBeforeClose, accepted>>
CSelClosed ==
    /\ cpc = "sel" /\ closedCh
    /\ cpc' = IF Mutant = "no_len_recheck" THEN "retClosed" ELSE "len"
    /\ UNCHANGED <<queue, dup, token, closedCh, cancelled, ppc, pidx, pfresh, delivered, okBeforeClose, accepted>>
(* if q.Len() == 0 { return closed } (Len takes the mutex)                  *)
CLen ==
    /\ cpc = "len"
    /\ cpc' = IF queue = <<>> THEN "retClosed" ELSE "next"
    /\ UNCHANGED <<queue, dup, token, closedCh, cancelled, ppc, pidx, pfresh, delivered, okBeforeClose, accepted>>

Close ==
    /\ ~closedCh /\ closedCh' = TRUE
    /\ UNCHANGED <<queue, dup, token, cancelled, ppc, pidx, pfresh, cpc, delivered, okBeforeClose, accepted>>
Cancel ==
    /\ ~cancelled /\ cancelled' = TRUE
    /\ UNCHANGED <<queue, dup, token, closedCh, ppc, pidx, pfresh, cpc, delivered, okBeforeClose, accepted>>

Consumer == CNext \/ CSelCtx \/ CSelToken \/ CSelClosed \/ CLen
Producer(p) == PCheck(p) \/ PInsert(p) \/ PToken(p)
Next == Consumer \/ (\E p \in Producers : Producer(p)) \/ Close \/ Cancel

Fairness == WF_vars(Consumer) /\ \A p \in Producers : WF_vars(Producer(p))
Spec == Init /\ [][Next]_vars /\ Fairness
(* with a closer that eventually closes *)
SpecClose == Spec /\ WF_vars(Close)

---------------------------------------------------------------------------
RECURSIVE SumDelivered(_)
SumDelivered(s) == IF s = <<>> THEN 0 ELSE 1 + Head(s)[2] + SumDelivered(Tail(s))
RECURSIVE SumPending(_, _)
SumPending(q, d) == IF q = <<>> THEN 0 ELSE 1 + d[Head(q)] + SumPending(Tail(q), d)

TypeOK == NoDup(queue) /\ DOMAIN dup = Pending /\ token \in {0, 1}

(* Nothing is lost or invented.                                             *)
Conservation == accepted = SumDelivered(delivered) + SumPending(queue, dup)

(* No lost wake-up: a consumer parked in the select with nothing ready     *)
(* while every producer has finished means the queue is empty.              *)
NoLostWakeup ==
    (cpc = "sel" /\ token = 0 /\ ~closedCh /\ ~cancelled /\ \A p \in Producers : ppc[p] \in {"done", "check"})
        => queue = <<>>

(* The consumer is told "closed" only after everything whose Insert        *)
(* returned success before Close has been delivered.                        *)
ClosedAfterDrain == cpc = "retClosed" => SumDelivered(delivered) >= okBeforeClose

(* Liveness: once closed, the consumer eventually returns.                  *)
ConsumerReturns == <>(cpc \in {"retClosed", "retCancelled"})
WakeOnInsert == [](queue # <<>> => <>(queue = <<>> \/ cpc \in {"retClosed", "retCancelled"}))
=============================================================================
