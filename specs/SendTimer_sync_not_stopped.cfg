SPECIFICATION Spec
CONSTANTS
  MaxItems = 4
  Mutant = "sync_not_stopped"
INVARIANTS TimeoutOnlyWhenBlocked
PROPERTIES BlockedSendTimesOut
CHECK_DEADLOCK FALSE
