SPECIFICATION TSpec
CONSTANTS
  TNames = {"t1"}
  RNames = {"r1"}
  Contents = {"c1"}
  MaxRev = 1
  MaxLoads = 1
CONSTRAINT Track
POSTCONDITION TraceAccepted
CHECK_DEADLOCK FALSE
