SPECIFICATION Spec
CONSTANTS
  MaxAttempts = 3
  Mutant = "none"
INVARIANTS Discipline
PROPERTIES CloseReturns SubscribeReturns KeepsRetrying
CHECK_DEADLOCK FALSE
