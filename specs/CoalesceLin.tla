------------------------------ MODULE CoalesceLin ------------------------------
(***************************************************************************)
(* History acceptance for coalesce.Queue used by several producers, one    *)
(* consumer, a closer and a canceller (C11).  The trace holds invocation   *)
(* and response events in real-time order; TLC infers where each call      *)
(* takes effect (silent Lin steps between a call's inv and ret).           *)
(*                                                                         *)
(* Insert takes effect in two steps, as in the code: the closed check and  *)
(* the locked insert - an Insert that overlaps Close may pass the check,   *)
(* be accepted and never be delivered (the property only covers            *)
(* insertions that completed before Close).  Next takes effect atomically: *)
(* an item if one is pending; "closed" only if closed and nothing is       *)
(* pending; "cancelled" only once the context was cancelled.               *)
(***************************************************************************)
EXTENDS Coalesce, Json, IOUtils

VARIABLES l, cancelled,
          ph      \* per goroutine: [phase, op, i, res]

Trace == ndJsonDeserialize(IOEnv.TRACE)
aux == <<nops, out, ins, del>>
lvars == <<queue, dup, closed, cancelled, ph, l, aux>>

Gs == {Trace[k].g : k \in {j \in 1..Len(Trace) : "g" \in DOMAIN Trace[j]}}
Idle == [phase |-> "idle", op |-> "", i |-> "", res |-> [kind |-> ""]]

Ev == Trace[l]
St(name) == l <= Len(Trace) /\ Trace[l].ev = name /\ l' = l + 1

LInit ==
    /\ queue = <<>> /\ dup = <<>> /\ closed = FALSE /\ cancelled = FALSE
    /\ ph = [g \in Gs |-> Idle] /\ l = 1 /\ TLCSet(1, 1)
    /\ nops = 0 /\ out = [op |-> "init"] /\ ins = 0 /\ del = 0

LReset ==
    /\ St("reset")
    /\ \A g \in Gs : ph[g].phase = "idle"
    /\ queue' = <<>> /\ dup' = <<>> /\ closed' = FALSE /\ cancelled' = FALSE /\ UNCHANGED ph

LInv ==
    /\ St("inv")
    /\ ph[Ev.g].phase = "idle"
    /\ ph' = [ph EXCEPT ![Ev.g] = [phase |-> "inv", op |-> Ev.op,
                                   i |-> IF "i" \in DOMAIN Ev THEN Ev.i ELSE "", res |-> [kind |-> ""]]]
    /\ UNCHANGED <<queue, dup, closed, cancelled>>

LRet ==
    /\ St("ret")
    /\ ph[Ev.g].phase = "done"
    /\ ph[Ev.g].res = Ev.res
    /\ ph' = [ph EXCEPT ![Ev.g] = Idle]
    /\ UNCHANGED <<queue, dup, closed, cancelled>>

Done(g, r) == ph' = [ph EXCEPT ![g] = [@ EXCEPT !.phase = "done", !.res = r]]

LinInsertCheck(g) ==
    /\ ph[g].phase = "inv" /\ ph[g].op = "Insert"
    /\ IF closed THEN Done(g, [kind |-> "refused"])
       ELSE ph' = [ph EXCEPT ![g].phase = "checked"]
    /\ UNCHANGED <<queue, dup, closed, cancelled, l>>

LinInsertDo(g) ==
    /\ ph[g].phase = "checked"
    /\ Done(g, [kind |-> InsertRes(queue, FALSE, ph[g].i)])
    /\ queue' = InsertQ(queue, FALSE, ph[g].i)
    /\ dup' = InsertDup(queue, dup, FALSE, ph[g].i)
    /\ UNCHANGED <<closed, cancelled, l>>

LinNext(g) ==
    /\ ph[g].phase = "inv" /\ ph[g].op = "Next"
    /\ \/ /\ queue # <<>>
          /\ Done(g, [kind |-> "item", i |-> Head(queue), dup |-> dup[Head(queue)]])
          /\ queue' = Tail(queue) /\ dup' = DropKey(dup, Head(queue))
       \/ /\ queue = <<>> /\ closed
          /\ Done(g, [kind |-> "closed"]) /\ UNCHANGED <<queue, dup>>
       \/ /\ cancelled
          /\ Done(g, [kind |-> "cancelled"]) /\ UNCHANGED <<queue, dup>>
    /\ UNCHANGED <<closed, cancelled, l>>

LinClose(g) ==
    /\ ph[g].phase = "inv" /\ ph[g].op = "Close"
    /\ closed' = TRUE /\ Done(g, [kind |-> "ok"])
    /\ UNCHANGED <<queue, dup, cancelled, l>>

LinCancel(g) ==
    /\ ph[g].phase = "inv" /\ ph[g].op = "Cancel"
    /\ cancelled' = TRUE /\ Done(g, [kind |-> "ok"])
    /\ UNCHANGED <<queue, dup, closed, l>>

(* After every goroutine has returned, what is left in the real queue is   *)
(* what is left in the specification's.                                     *)
LFinal ==
    /\ St("final")
    /\ \A g \in Gs : ph[g].phase = "idle"
    /\ Ev.len = Len(queue)
    /\ UNCHANGED <<queue, dup, closed, cancelled, ph>>

(* An effect can always be postponed past somebody else's invocation: only  *)
(* the gaps before a "ret" (or the final marker) need to be considered.      *)
BeforeRet ==
    /\ l <= Len(Trace)
    /\ \/ Trace[l].ev = "final"
       \/ Trace[l].ev = "ret" /\ ph[Trace[l].g].phase \in {"inv", "checked"}
Lin == BeforeRet /\ \E g \in Gs : LinInsertCheck(g) \/ LinInsertDo(g) \/ LinNext(g) \/ LinClose(g) \/ LinCancel(g)
LNext == (LReset \/ LInv \/ LRet \/ LFinal \/ Lin) /\ UNCHANGED aux
LSpec == LInit /\ [][LNext]_lvars

(* Reaching the end of the trace is reported as a violation of NotDone so   *)
(* that TLC stops at once (depth-first queue): the runner reads that as      *)
(* "accepted".                                                               *)
NotDone == l <= Len(Trace)
Track == IF l > TLCGet(1) THEN TLCSet(1, l) ELSE TRUE
TraceAccepted ==
    /\ PrintT(<<"HWM", TLCGet(1) - 1, Len(Trace)>>)
    /\ TLCGet(1) = Len(Trace) + 1
=============================================================================
