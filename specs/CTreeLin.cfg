SPECIFICATION LSpec
CONSTANTS
  Names = {"a"}
  Values = {"v1"}
  MaxStored = 1
  MaxQuery = 1
CONSTRAINT Track
INVARIANT NotDone
POSTCONDITION TraceAccepted
CHECK_DEADLOCK FALSE
