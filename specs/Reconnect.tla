------------------------------- MODULE Reconnect -------------------------------
(***************************************************************************)
(* Implementation-shaped model of client.ReconnectClient (C18): the        *)
(* Subscribe loop (initDone ; attempt ; disconnect callback ; context      *)
(* check ; back-off sleep ; reset callback ; ...) against Close (under the *)
(* mutex: cancel the context if there is one, closed := TRUE ; close the   *)
(* inner client ; wait for subscribeDone), with a well-behaved inner       *)
(* client: an attempt ends by itself (error/EOF) or once its context is    *)
(* cancelled or the inner client is closed.                                *)
(* Close may be called at any moment, also before Subscribe.               *)
(* Mutant: "none", "no_closed_check" (initDone does not cancel when already*)
(* closed), "reset_before_sleep", "no_disconnect_on_cancel".               *)
(***************************************************************************)
EXTENDS Naturals, TLC

CONSTANTS MaxAttempts, Mutant

VARIABLES spc,        \* Subscribe: "idle" "attempt" "disc" "check" "sleep" "reset" "returned"
          cpc,        \* Close: "idle" "closeinner" "wait" "returned"
          closed, hasCtx, ctxCancelled, subDone,   \* subDone: "nil" "open" "closed"
          waitsFor,   \* what Close waits for: the subscribeDone it read under the mutex
          innerClosed,
          attempts,
          word        \* monitor of the callback discipline: "start" "D" "R" "bad"

vars == <<spc, cpc, closed, hasCtx, ctxCancelled, subDone, waitsFor, innerClosed, attempts, word>>

Init ==
    /\ spc = "idle" /\ cpc = "idle" /\ closed = FALSE /\ hasCtx = FALSE /\ ctxCancelled = FALSE
    /\ subDone = "nil" /\ waitsFor = "nil" /\ innerClosed = FALSE /\ attempts = 0 /\ word = "start"

(* initDone, under the mutex *)
SInit ==
    /\ spc = "idle"
    /\ subDone' = "open" /\ hasCtx' = TRUE
    /\ ctxCancelled' = (closed /\ Mutant # "no_closed_check")
    /\ spc' = "attempt"
    /\ UNCHANGED <<cpc, closed, waitsFor, innerClosed, attempts, word>>

(* the inner Subscribe returns: by itself, or because it was cancelled/closed *)
SAttemptEnds ==
    /\ spc = "attempt"
    /\ \/ attempts < MaxAttempts          \* scripted failure / EOF
       \/ ctxCancelled \/ innerClosed     \* a well-behaved client honours both
    /\ attempts' = attempts + 1
    /\ innerClosed' = FALSE               \* BaseClient.Subscribe re-opens (closed = false) on the next attempt
    /\ spc' = IF Mutant = "no_disconnect_on_cancel" /\ ctxCancelled THEN "check" ELSE "disc"
    /\ UNCHANGED <<cpc, closed, hasCtx, ctxCancelled, subDone, waitsFor, word>>

SDisconnect ==
    /\ spc = "disc"
    /\ word' = IF word \in {"start", "R"} THEN "D" ELSE "bad"
    /\ spc' = "check"
    /\ UNCHANGED <<cpc, closed, hasCtx, ctxCancelled, subDone, waitsFor, innerClosed, attempts>>

SCheck ==
    /\ spc = "check"
    /\ IF ctxCancelled
       THEN /\ spc' = "returned" /\ subDone' = "closed"
            /\ word' = IF word = "D" THEN word ELSE "bad"     \* Subscribe returns right after a disconnect
       ELSE /\ spc' = IF Mutant = "reset_before_sleep" THEN "reset" ELSE "sleep"
            /\ UNCHANGED <<subDone, word>>
    /\ UNCHANGED <<cpc, closed, hasCtx, ctxCancelled, waitsFor, innerClosed, attempts>>

SSleepDone ==
    /\ spc = "sleep" /\ spc' = (IF Mutant = "reset_before_sleep" THEN "attempt" ELSE "reset")
    /\ UNCHANGED <<cpc, closed, hasCtx, ctxCancelled, subDone, waitsFor, innerClosed, attempts, word>>

SReset ==
    /\ spc = "reset"
    /\ word' = IF word = "D" THEN "R" ELSE "bad"
    /\ spc' = (IF Mutant = "reset_before_sleep" THEN "sleep" ELSE "attempt")
    /\ UNCHANGED <<cpc, closed, hasCtx, ctxCancelled, subDone, waitsFor, innerClosed, attempts>>

(* Close, locked section *)
CLock ==
    /\ cpc = "idle"
    /\ ctxCancelled' = (ctxCancelled \/ hasCtx)
    /\ closed' = TRUE
    /\ waitsFor' = subDone
    /\ cpc' = "closeinner"
    /\ UNCHANGED <<spc, hasCtx, subDone, innerClosed, attempts, word>>
CCloseInner ==
    /\ cpc = "closeinner" /\ innerClosed' = TRUE /\ cpc' = "wait"
    /\ UNCHANGED <<spc, closed, hasCtx, ctxCancelled, subDone, waitsFor, attempts, word>>
CWait ==
    /\ cpc = "wait"
    /\ waitsFor = "nil" \/ subDone = "closed"
    /\ cpc' = "returned"
    /\ UNCHANGED <<spc, closed, hasCtx, ctxCancelled, subDone, waitsFor, innerClosed, attempts, word>>

SubscribeStep == SInit \/ SAttemptEnds \/ SDisconnect \/ SCheck \/ SSleepDone \/ SReset
CloseStep == CLock \/ CCloseInner \/ CWait
Next == SubscribeStep \/ CloseStep
(* Close is called at some point (that is what the liveness claims are about) *)
Spec == Init /\ [][Next]_vars /\ WF_vars(SubscribeStep) /\ WF_vars(CloseStep)

---------------------------------------------------------------------------
Discipline == word # "bad"
(* both calls terminate whatever the moment Close is called                 *)
CloseReturns == <>(cpc = "returned")
SubscribeReturns == (spc # "idle") ~> (spc = "returned")
(* without Close the client keeps retrying: an ended attempt is followed by *)
(* another one                                                               *)
KeepsRetrying == [](spc = "disc" /\ ~ctxCancelled /\ cpc = "idle" => <>(spc = "attempt" \/ ctxCancelled))
=============================================================================
