--------------------------- MODULE TargetConfigTrace ---------------------------
(* Trace acceptance for target.Config (C17): every Load (and                 *)
(* NewConfigWithBase) with its result, the handler calls it made (a set,     *)
(* their order is free) and Current() read back.                             *)
EXTENDS TargetConfig, Sequences, Json, IOUtils

VARIABLE l
Trace == ndJsonDeserialize(IOEnv.TRACE)
tvars == <<loaded, cur, rep, nloads, out, l>>
Ev == Trace[l]
St(name) == l <= Len(Trace) /\ Trace[l].ev = name /\ l' = l + 1
SeqSet(s) == {s[i] : i \in 1..Len(s)}
NoDupS(s) == \A i, j \in 1..Len(s) : i # j => s[i] # s[j]
Cfg(c) == [rev |-> c.rev, t |-> SeqSet(c.t), r |-> SeqSet(c.r)]

TInit == loaded = FALSE /\ cur = Empty /\ rep = {} /\ nloads = 0 /\ out = [res |-> "init", calls |-> {}] /\ l = 1 /\ TLCSet(1, 1)

TReset == St("reset") /\ loaded' = FALSE /\ cur' = Empty /\ rep' = {} /\ UNCHANGED <<nloads, out>>

TBase ==
    /\ St("base")
    /\ LET cfg == Cfg(Ev.cfg) IN
       IF Valid(cfg)
       THEN Ev.res = "ok" /\ loaded' = TRUE /\ cur' = cfg /\ rep' = Project(cfg)
       ELSE Ev.res = "err" /\ UNCHANGED <<loaded, cur, rep>>
    /\ UNCHANGED <<nloads, out>>

TLoad ==
    /\ St("load")
    /\ LET cfg == Cfg(Ev.cfg) IN
       IF Accepts(loaded, cur, cfg)
       THEN /\ Ev.res = "ok"
            /\ NoDupS(Ev.calls) = TRUE
            /\ SeqSet(Ev.calls) = Calls(cur, cfg)
            /\ rep' = Replay(rep, SeqSet(Ev.calls))
            /\ cur' = cfg /\ loaded' = TRUE
            /\ Cfg(Ev.cur) = cfg
            /\ rep' = Project(cfg)
       ELSE /\ Ev.res = "err" /\ Ev.calls = <<>>
            /\ (loaded => Cfg(Ev.cur) = cur) = TRUE
            /\ UNCHANGED <<loaded, cur, rep>>
    /\ UNCHANGED <<nloads, out>>

TNext == TReset \/ TBase \/ TLoad
TSpec == TInit /\ [][TNext]_tvars

Track == IF l > TLCGet(1) THEN TLCSet(1, l) ELSE TRUE
TraceAccepted ==
    /\ PrintT(<<"HWM", TLCGet(1) - 1, Len(Trace)>>)
    /\ TLCGet(1) = Len(Trace) + 1
=============================================================================
