SPECIFICATION Spec
CONSTANTS
  Targets = {"t1", "t2"}
  UPaths <- U2
  DPaths <- D2
  APaths <- A0
  Vals = {"v1"}
  MaxTs = 2
  Thr = 0
  ED = TRUE
  Acts = {"upd", "del", "life", "reset", "remove", "add", "tick"}
  Mutant = "none"
  MaxOps = 4
VIEW View
INVARIANTS MirrorInv CountersInv StructInv
PROPERTIES Isolation ResetClears RemoveForgets
CHECK_DEADLOCK FALSE
