SPECIFICATION Spec
CONSTANTS
  Targets = {"t1", "t2"}
  Paths = {"p1", "p2"}
  Vals = {1, 2}
  MaxSends = 3
  MaxDrops = 1
  Mutant = "refused_update_skips_deletes"
INVARIANT Faithful
CHECK_DEADLOCK FALSE
