----------------------------- MODULE PipelineTrace -----------------------------
(***************************************************************************)
(* Acceptance of end-to-end runs of the real binaries (C01): scripted TLS  *)
(* targets -> gnmi_collector -> client library / gnmi_cli.                 *)
(*   tsend   what a target streamed: an update of a leaf (semantic index    *)
(*           path: origin-or-"openconfig", element names and key values)   *)
(*           or a delete of a path (removes what the path query-matches);   *)
(*   view    what a client sees once the streams have quiesced (the driver  *)
(*           waits for a sentinel leaf sent last through the same FIFO      *)
(*           pipeline): the leaves of one target or of all ('*'), typed     *)
(*           value tokens or, for the CLI group display, rendered tokens.   *)
(* Every view must equal the targets' final state - no missing, extra or   *)
(* stale leaf - whatever client and invocation produced it.                 *)
(***************************************************************************)
EXTENDS Common, TLC, Json, IOUtils

VARIABLES l, truth      \* truth: set of [t, p, val, gval]

Trace == ndJsonDeserialize(IOEnv.TRACE)
tvars == <<l, truth>>
Ev == Trace[l]
St(name) == l <= Len(Trace) /\ Trace[l].ev = name /\ l' = l + 1

TInit == l = 1 /\ truth = {} /\ TLCSet(1, 1)
TConfig == St("config") /\ truth' = {}

TSend ==
    /\ St("tsend")
    /\ truth' = IF Ev.k = "upd"
                THEN {x \in truth : ~(x.t = Ev.t /\ x.p = Ev.p)} \cup {[t |-> Ev.t, p |-> Ev.p, val |-> Ev.val, gval |-> Ev.gval]}
                ELSE {x \in truth : ~(x.t = Ev.t /\ QueryMatch(Ev.p, x.p))}

TRedial == St("redial") /\ UNCHANGED truth

(* the target ends its stream in an orderly way and starts a new life: its state is what it streams from now on *)
TSession == St("tsession") /\ truth' = {x \in truth : x.t # Ev.t}

(* sub: the view was asked for one sub-tree only (element names and key values below any origin); <<>> = everything *)
Expected(scope, kind, sub) ==
    {[t |-> x.t, p |-> x.p, val |-> IF kind = "group" THEN x.gval ELSE x.val] :
        x \in {y \in truth : (scope = "*" \/ y.t = scope) /\ (sub = <<>> \/ QueryMatch(<<"*">> \o sub, y.p))}}

TView ==
    /\ St("view")
    /\ Ev.ok                                   \* the client / CLI invocation itself succeeded
    /\ NoDup(Ev.leaves)
    /\ SeqToSet(Ev.leaves) = Expected(Ev.scope, Ev.kind, Ev.sub)
    /\ UNCHANGED truth

TNext == TConfig \/ TSend \/ TRedial \/ TSession \/ TView
TSpec == TInit /\ [][TNext]_tvars

Track == IF l > TLCGet(1) THEN TLCSet(1, l) ELSE TRUE
TraceAccepted ==
    /\ PrintT(<<"HWM", TLCGet(1) - 1, Len(Trace)>>)
    /\ TLCGet(1) = Len(Trace) + 1
=============================================================================
