------------------------------- MODULE CacheFeed -------------------------------
(***************************************************************************)
(* C03 between quiescent points: several writers call Target.GnmiUpdate on  *)
(* ONE target at the same time.  The steps are those of cache.gnmiUpdate /  *)
(* GnmiUpdate, each a critical section of its own:                          *)
(*   Look     GetLeaf(path) and, for an existing leaf, the timestamp test   *)
(*   Write    oldval.Update(n) on the handle obtained by Look               *)
(*   Add      t.t.Add(path, n) when Look found nothing (creates the leaf,   *)
(*            or overwrites one created meanwhile)                          *)
(*   Fetch    t.t.GetLeaf(path) after Add: the handle handed to the feed    *)
(*   Feed     t.client(handle): the feed entry is what the handle holds     *)
(*            WHEN THE ENTRY IS TAKEN (the subscriber queue stores the      *)
(*            leaf, not a copy)                                             *)
(*   Remove   gnmiRemove: the leaf leaves the tree and a delete entry is    *)
(*            prepared; FeedDel hands it over                               *)
(* Leaves have identities: a handle may point to a leaf that has left the   *)
(* tree.  Every writer carries a value of its own, so nothing is            *)
(* suppressed.  feed is the sequence of entries in the order taken.         *)
(* FeedFaithful: when all writers have returned, replaying feed gives what  *)
(* the tree holds.  It holds for updates (WithDeletes = FALSE).  Mutant     *)
(* "snapshot": the creator of a leaf hands the feed a detached copy of its  *)
(* own notification (seeded change C03-6).  WithDeletes = TRUE shows why    *)
(* the concurrent rounds of the driver carry no deletes: a delete entry may *)
(* be taken after the leaf has been created again - the design gives two    *)
(* writers of one target no defined outcome there.  WithSuppression = TRUE  *)
(* (values repeat, event-driven emulation on) shows the same for            *)
(* suppression: the test compares against the value seen in Look, and a     *)
(* write landing on a leaf changed in between is withheld although it       *)
(* changes the leaf.                                                        *)
(***************************************************************************)
EXTENDS Naturals, Sequences, FiniteSets, TLC

CONSTANTS Writers, Paths, MaxTs, WithDeletes, WithSuppression, Mutant

VARIABLES tree,      \* path |-> leaf id, 0 = no leaf
          leafval,   \* leaf id |-> [ts, v]
          nleaf,     \* leaf ids handed out
          job,       \* writer |-> [k, p, ts, v]
          pc,        \* writer |-> "look" | "write" | "add" | "fetch" | "feed" | "feeddel" | "done"
          handle,    \* writer |-> leaf id it holds (0 = none)
          created,   \* writer |-> it created its leaf
          feed,      \* entries in the order taken: [k |-> "upd", p, ts, v] / [k |-> "del", p]
          oldv       \* writer |-> the value it saw in Look (event-driven test compares against it)
vars == <<tree, leafval, nleaf, job, pc, handle, created, feed, oldv>>

Ids == 1..(Cardinality(Paths) + Cardinality(Writers))
Vals == IF WithSuppression THEN 1..2 ELSE Writers
Jobs == [k : {"upd"}, p : Paths, ts : 1..MaxTs, v : Vals]
          \cup (IF WithDeletes THEN [k : {"del"}, p : Paths, ts : 1..MaxTs, v : Writers] ELSE {})

(* every path initially stored (leaf id = its rank, timestamp 0) or not                     *)
Init ==
    /\ \E present \in SUBSET Paths :
          LET rk == CHOOSE f \in [Paths -> 1..Cardinality(Paths)] : \A a, b \in Paths : a # b => f[a] # f[b] IN
          /\ tree = [p \in Paths |-> IF p \in present THEN rk[p] ELSE 0]
          /\ leafval = [i \in Ids |-> [ts |-> 0, v |-> 0]]
          /\ nleaf = Cardinality(Paths)
    /\ job \in [Writers -> Jobs]
    /\ WithSuppression \/ \A w \in Writers : job[w].v = w
    /\ oldv = [w \in Writers |-> 0]
    /\ pc = [w \in Writers |-> "look"]
    /\ handle = [w \in Writers |-> 0]
    /\ created = [w \in Writers |-> FALSE]
    /\ feed = <<>>

Look(w) ==
    /\ pc[w] = "look" /\ job[w].k = "upd"
    /\ LET id == tree[job[w].p] IN
       IF id = 0 THEN pc' = [pc EXCEPT ![w] = "add"] /\ UNCHANGED handle
       ELSE IF job[w].ts < leafval[id].ts THEN pc' = [pc EXCEPT ![w] = "done"] /\ UNCHANGED handle      \* stale: refused
       ELSE pc' = [pc EXCEPT ![w] = "write"] /\ handle' = [handle EXCEPT ![w] = id]
    /\ oldv' = [oldv EXCEPT ![w] = IF tree[job[w].p] = 0 THEN 0 ELSE leafval[tree[job[w].p]].v]
    /\ UNCHANGED <<tree, leafval, nleaf, job, created, feed>>

Write(w) ==
    /\ pc[w] = "write"
    /\ leafval' = [leafval EXCEPT ![handle[w]] = [ts |-> job[w].ts, v |-> job[w].v]]
    \* event-driven emulation: withheld when the value equals the one seen in Look
    /\ pc' = [pc EXCEPT ![w] = IF WithSuppression /\ oldv[w] = job[w].v THEN "done" ELSE "feed"]
    /\ UNCHANGED <<tree, nleaf, job, handle, created, feed, oldv>>

Add(w) ==
    /\ pc[w] = "add"
    /\ LET id == tree[job[w].p] IN
       IF id = 0
       THEN /\ nleaf' = nleaf + 1
            /\ tree' = [tree EXCEPT ![job[w].p] = nleaf + 1]
            /\ leafval' = [leafval EXCEPT ![nleaf + 1] = [ts |-> job[w].ts, v |-> job[w].v]]
       ELSE /\ leafval' = [leafval EXCEPT ![id] = [ts |-> job[w].ts, v |-> job[w].v]]      \* Add on an existing leaf sets its value
            /\ UNCHANGED <<tree, nleaf>>
    /\ created' = [created EXCEPT ![w] = TRUE]
    /\ pc' = [pc EXCEPT ![w] = "fetch"]
    /\ UNCHANGED <<job, handle, feed, oldv>>

Fetch(w) ==
    /\ pc[w] = "fetch"
    /\ handle' = [handle EXCEPT ![w] = tree[job[w].p]]
    /\ pc' = [pc EXCEPT ![w] = IF tree[job[w].p] = 0 THEN "done" ELSE "feed"]       \* nothing found: nothing handed over
    /\ UNCHANGED <<tree, leafval, nleaf, job, created, feed, oldv>>

Feed(w) ==
    /\ pc[w] = "feed"
    /\ LET e == IF Mutant = "snapshot" /\ created[w]
                THEN [k |-> "upd", p |-> job[w].p, ts |-> job[w].ts, v |-> job[w].v]
                ELSE [k |-> "upd", p |-> job[w].p, ts |-> leafval[handle[w]].ts, v |-> leafval[handle[w]].v] IN
       feed' = Append(feed, e)
    /\ pc' = [pc EXCEPT ![w] = "done"]
    /\ UNCHANGED <<tree, leafval, nleaf, job, handle, created, oldv>>

Remove(w) ==
    /\ pc[w] = "look" /\ job[w].k = "del"
    /\ IF tree[job[w].p] = 0 THEN pc' = [pc EXCEPT ![w] = "done"] /\ UNCHANGED tree
       ELSE tree' = [tree EXCEPT ![job[w].p] = 0] /\ pc' = [pc EXCEPT ![w] = "feeddel"]
    /\ UNCHANGED <<leafval, nleaf, job, handle, created, feed, oldv>>

FeedDel(w) ==
    /\ pc[w] = "feeddel"
    /\ feed' = Append(feed, [k |-> "del", p |-> job[w].p])
    /\ pc' = [pc EXCEPT ![w] = "done"]
    /\ UNCHANGED <<tree, leafval, nleaf, job, handle, created, oldv>>

Next == \E w \in Writers : Look(w) \/ Write(w) \/ Add(w) \/ Fetch(w) \/ Feed(w) \/ Remove(w) \/ FeedDel(w)
Spec == Init /\ [][Next]_vars /\ WF_vars(Next)

(* replay of the feed on top of what was stored initially is not needed: a path that is   *)
(* never fed keeps its initial content, which the replay leaves alone as well              *)
RECURSIVE Replay(_, _)
Replay(view, q) ==
    IF q = <<>> THEN view
    ELSE LET e == Head(q) IN
         Replay([view EXCEPT ![e.p] = IF e.k = "del" THEN [ts |-> 0, v |-> 0, here |-> FALSE] ELSE [ts |-> e.ts, v |-> e.v, here |-> TRUE]], Tail(q))

Quiescent == \A w \in Writers : pc[w] = "done"
Fed == {feed[i].p : i \in 1..Len(feed)}
FeedFaithful ==
    Quiescent =>
        LET view == Replay([p \in Paths |-> [ts |-> 0, v |-> 0, here |-> FALSE]], feed) IN
        \A p \in Fed :
            /\ view[p].here = (tree[p] # 0)
            \* (a withheld update leaves the fed timestamp behind the stored one: values only, then)
            /\ view[p].here => (view[p].v = leafval[tree[p]].v /\ (~WithSuppression => view[p].ts = leafval[tree[p]].ts))
(* whatever changed has an entry: a path without entries holds what it held                *)
NothingSilent ==
    Quiescent => \A p \in Paths \ Fed :
        \/ tree[p] = 0 /\ \A w \in Writers : ~(job[w].p = p /\ created[w])
        \/ tree[p] # 0 /\ leafval[tree[p]].v = 0
AllReturn == <>Quiescent
=============================================================================
