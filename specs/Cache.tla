-------------------------------- MODULE Cache --------------------------------
(***************************************************************************)
(* Specification of cache.Cache: per-target timestamped leaf store, the    *)
(* GnmiUpdate dispatch (single / multi / atomic / delete / empty), the     *)
(* change feed handed to the SetClient callback and its mirror, target     *)
(* lifecycle (Add / Remove / Reset / Sync / Connect / ConnectError /       *)
(* UpdateMetadata) and the metadata counters.                              *)
(* Properties: C02 (timestamp discipline), C03 (feed reproduces the cache),*)
(* C14 (Reset/Remove, isolation), C15 (counters).                          *)
(*                                                                         *)
(* A leaf is [p, ts, val, enc, at]: index path, timestamp, opaque value    *)
(* token, encoding token of the notification that carried it (two          *)
(* notifications are "identical" iff ts, val and enc agree), atomic flag.  *)
(* Metadata leaves live in the same store under <<"meta", name>>.          *)
(*                                                                         *)
(* The semantics are operators on a per-target record so that the bounded  *)
(* model below and the trace specification CacheTrace share them.          *)
(***************************************************************************)
EXTENDS Common, Integers, TLC

Meta == "meta"

IsMetaPath(p) == Len(p) > 0 /\ p[1] = Meta

ZeroCtr == [leaves |-> 0, added |-> 0, deleted |-> 0, updated |-> 0,
            suppressed |-> 0, stale |-> 0, future |-> 0, empty |-> 0]

Unset == "-unset-"

(* State of one target right after Cache.Add.                              *)
FreshTarget == [st |-> {}, ctr |-> ZeroCtr, latest |-> 0,
                sync |-> FALSE, connected |-> FALSE, addr |-> "string:", cerr |-> Unset,
                size |-> 0, lts |-> 0]

Bump(c, f, n) == [c EXCEPT ![f] = @ + n]

Paths(st)           == {l.p : l \in st}
LeafAt(st, p)       == CHOOSE l \in st : l.p = p
HasLeaf(st, p)      == \E l \in st : l.p = p
IsBranchPath(st, p) == \E l \in st : IsProperPrefixOf(p, l.p)
CrossesLeaf(st, p)  == \E l \in st : IsProperPrefixOf(l.p, p)
PrefixFree(st)      == \A x, y \in st : x # y => ~IsPrefixOf(x.p, y.p)
NonMeta(st)         == {l \in st : ~IsMetaPath(l.p)}

UpdEntry(t, l) == [k |-> "upd", t |-> t, p |-> l.p, ts |-> l.ts, val |-> l.val]
DelEntry(t, p, ts) == [k |-> "del", t |-> t, p |-> p, ts |-> ts]

---------------------------------------------------------------------------
(* One update (a single leaf, or an atomic group stored as one leaf at its  *)
(* prefix).  Outcome classes:                                               *)
(*   "new" "replace"  accepted        "stale" "future" "collide"  rejected  *)

Identical(old, l) == old.ts = l.ts /\ old.val = l.val /\ old.enc = l.enc /\ old.at = l.at

TooFarAhead(S, l, now, thr) ==
    /\ thr > 0
    /\ l.ts - now > thr
    /\ S.latest > 0
    /\ l.ts - S.latest > thr

UpdClass(S, l, now, thr) ==
    IF HasLeaf(S.st, l.p) THEN
        LET old == LeafAt(S.st, l.p) IN
        IF l.ts < old.ts THEN "stale"
        ELSE IF Identical(old, l) THEN "stale"
        ELSE IF l.ts > old.ts /\ TooFarAhead(S, l, now, thr) THEN "future"
        ELSE "replace"
    ELSE IF IsBranchPath(S.st, l.p) \/ CrossesLeaf(S.st, l.p) THEN "collide"
    ELSE "new"

(* May the accepted update be withheld from the feed?  Only with           *)
(* event-driven emulation, for a non-atomic update that leaves the value   *)
(* token unchanged.                                                         *)
MayWithhold(S, l, ed) ==
    /\ ed /\ ~l.at
    /\ HasLeaf(S.st, l.p)
    /\ LeafAt(S.st, l.p).val = l.val

(* Side effects of metadata paths written through the update path.         *)
MetaEffect(S, l) ==
    IF ~IsMetaPath(l.p) \/ Len(l.p) < 2 THEN S
    ELSE IF l.p[2] = "sync" THEN [S EXCEPT !.sync = (l.val = "bool:true")]
    ELSE IF l.p[2] = "connected" THEN [S EXCEPT !.connected = (l.val = "bool:true")]
    ELSE IF l.p[2] = "connectError" THEN [S EXCEPT !.cerr = l.val]
    ELSE IF l.p[2] = "connectedAddress" THEN [S EXCEPT !.addr = l.val]
    ELSE S

(* cls: outcome class (given, admissible); withheld: the accepted update    *)
(* was not fed.  Returns the successor target state.                        *)
(* The metadata side effects (sync / connected / connectError flags) are    *)
(* applied before the timestamp decision, i.e. also for rejected updates.  *)
ApplyUpd(S, l, cls, withheld, weight) ==
    LET S1 == MetaEffect(S, l) IN
    CASE cls = "stale"   -> [S1 EXCEPT !.ctr = Bump(@, "stale", 1)]
      [] cls = "future"  -> [S1 EXCEPT !.ctr = Bump(@, "future", 1)]
      [] cls = "collide" -> S1
      [] cls = "new" ->
            [S1 EXCEPT !.st  = @ \cup {l},
                       !.ctr = IF IsMetaPath(l.p) THEN Bump(@, "updated", weight)
                               ELSE Bump(Bump(Bump(@, "leaves", 1), "added", 1), "updated", weight)]
      [] cls = "replace" ->
            [S1 EXCEPT !.st  = {x \in @ : x.p # l.p} \cup {l},
                       !.ctr = IF withheld THEN Bump(@, "suppressed", 1) ELSE Bump(@, "updated", weight)]

IsAccepted(cls) == cls \in {"new", "replace"}

(* Admissible outcome classes for the update.  "Identical" is identity of  *)
(* the whole notification (timestamp, value and wire encoding), as          *)
(* proto.Equal decides it; a re-encoded copy with the same timestamp and    *)
(* value is therefore a replacement (of an unchanged value).                *)
UpdClasses(S, l, now, thr) == {UpdClass(S, l, now, thr)}

---------------------------------------------------------------------------
(* One delete at time ts: removes exactly the matching leaves whose stored *)
(* timestamp is older; each removed leaf is announced by its own delete.   *)

DelVictims(S, q, ts) == {l \in S.st : QueryMatch(q, l.p) /\ l.ts < ts}

MetaReset(S, q) ==
    IF ~IsMetaPath(q) \/ Len(q) < 2 THEN S
    ELSE IF q[2] = "sync" THEN [S EXCEPT !.sync = FALSE]
    ELSE IF q[2] = "connected" THEN [S EXCEPT !.connected = FALSE]
    ELSE IF q[2] = "connectError" THEN [S EXCEPT !.cerr = Unset]
    ELSE IF q[2] = "connectedAddress" THEN [S EXCEPT !.addr = "string:"]
    ELSE S

(* The leaf counters follow the non-metadata leaves only (C15).             *)
ApplyDel(S, q, ts) ==
    LET v  == DelVictims(S, q, ts)
        nm == Cardinality(NonMeta(v))
        S1 == MetaReset(S, q) IN
    [S1 EXCEPT !.st  = @ \ v,
               !.ctr = Bump(Bump(Bump(@, "updated", 1), "leaves", 0 - nm), "deleted", nm)]

DelFeed(t, S, q, ts) == {DelEntry(t, l.p, ts) : l \in DelVictims(S, q, ts)}

---------------------------------------------------------------------------
(* Latest accepted timestamp: tracked for notifications of target data     *)
(* (not metadata) in which at least one update was accepted.               *)
TrackLatest(S, firstPath, ts, anyAccepted) ==
    IF anyAccepted /\ ~IsMetaPath(firstPath) /\ ts > S.latest
    THEN [S EXCEPT !.latest = ts] ELSE S

---------------------------------------------------------------------------
(* Metadata export (UpdateMetadata, also inside Reset): every exported     *)
(* value whose leaf is missing or differs is (re)written at time now.      *)

MetaLeaf(name, val, now) ==
    [p |-> <<Meta, name>>, ts |-> now, val |-> val, enc |-> "meta", at |-> FALSE]

IntTok(n)  == "int:" \o ToString(n)
BoolTok(b) == IF b THEN "bool:true" ELSE "bool:false"

Exported(S) ==
    {<<"sync", BoolTok(S.sync)>>, <<"connected", BoolTok(S.connected)>>,
     <<"targetLeavesAdded", IntTok(S.ctr.added)>>, <<"targetLeavesDeleted", IntTok(S.ctr.deleted)>>,
     <<"targetLeavesEmpty", IntTok(S.ctr.empty)>>, <<"targetLeaves", IntTok(S.ctr.leaves)>>,
     <<"targetLeavesUpdated", IntTok(S.ctr.updated)>>, <<"targetLeavesStale", IntTok(S.ctr.stale)>>,
     <<"targetLeavesFuture", IntTok(S.ctr.future)>>, <<"targetLeavesSuppressed", IntTok(S.ctr.suppressed)>>,
     <<"targetSize", IntTok(S.size)>>, <<"latestTimestamp", IntTok(S.lts)>>,
     <<"connectedAddress", S.addr>>}
    \cup (IF S.cerr = Unset THEN {} ELSE {<<"connectError", S.cerr>>})

NeedsExport(S, e) ==
    ~HasLeaf(S.st, <<Meta, e[1]>>) \/ LeafAt(S.st, <<Meta, e[1]>>).val # e[2]

(* Assumes a clock that does not run backwards (now >= every stored        *)
(* metadata timestamp), so every export is an accepted write.              *)
ExportMeta(S, now) ==
    LET S0 == [S EXCEPT !.lts = S.latest]
        ch == {e \in Exported(S0) : NeedsExport(S0, e)} IN
    [S0 EXCEPT !.st = {x \in @ : ~\E e \in ch : x.p = <<Meta, e[1]>>}
                       \cup {MetaLeaf(e[1], e[2], now) : e \in ch}]

ExportFeed(t, S, now) ==
    LET S0 == [S EXCEPT !.lts = S.latest] IN
    {UpdEntry(t, MetaLeaf(e[1], e[2], now)) : e \in {x \in Exported(S0) : NeedsExport(S0, x)}}

(* Reset: metadata back to initial values and exported, every non-metadata *)
(* root removed and announced by one wildcard delete.                       *)
Roots(S) == {l.p[1] : l \in {x \in NonMeta(S.st) : Len(x.p) > 0}}

ResetCleared(S) ==
    [S EXCEPT !.ctr = ZeroCtr, !.latest = 0, !.sync = FALSE, !.connected = FALSE,
              !.addr = "string:", !.cerr = Unset, !.size = 0]

ApplyReset(S, now) ==
    LET S1 == ExportMeta(ResetCleared(S), now) IN
    [S1 EXCEPT !.st = {l \in @ : IsMetaPath(l.p)}]

ResetFeed(t, S, now) ==
    ExportFeed(t, ResetCleared(S), now) \cup {DelEntry(t, <<r, Glob>>, now) : r \in Roots(S)}

---------------------------------------------------------------------------
(* Mirror: what a consumer of the feed reconstructs.                       *)

MirrorApply(m, e) ==
    IF e.k = "upd"
    THEN {x \in m : x.p # e.p} \cup {[p |-> e.p, ts |-> e.ts, val |-> e.val]}
    ELSE {x \in m : ~QueryMatch(e.p, x.p)}

RECURSIVE MirrorApplySeq(_, _)
MirrorApplySeq(m, es) ==
    IF es = <<>> THEN m ELSE MirrorApplySeq(MirrorApply(m, Head(es)), Tail(es))

(* The mirror agrees with the store: same leaves, same values; timestamps  *)
(* equal, or older in the mirror when event-driven emulation withheld a    *)
(* refresh of an unchanged value.                                           *)
MirrorOK(st, m, ed) ==
    /\ Paths(st) = {x.p : x \in m}
    /\ \A l \in st : \E x \in m :
          /\ x.p = l.p /\ x.val = l.val
          /\ x.ts = l.ts \/ (ed /\ x.ts <= l.ts)

CountersOK(S) ==
    /\ S.ctr.leaves = Cardinality(NonMeta(S.st))
    /\ S.ctr.leaves = S.ctr.added - S.ctr.deleted
    /\ S.ctr.leaves >= 0
=============================================================================
