SPECIFICATION Spec
CONSTANTS
  Items = {"a", "b", "c"}
  MaxOps = 7
INVARIANTS TypeOK Conservation ClosedOnlyWhenDrained
PROPERTIES FifoStable RefusedAfterClose
CHECK_DEADLOCK FALSE
