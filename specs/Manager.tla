-------------------------------- MODULE Manager --------------------------------
(***************************************************************************)
(* Implementation-shaped model of manager.Manager for one target (C13):    *)
(* retryMonitor / monitor / subscribe / handleUpdates as a program counter *)
(* with the callbacks it makes, Remove (cancel, wait for finished) and     *)
(* Reconnect (cancel the session context) from other goroutines, and the   *)
(* receive-timeout goroutine.                                              *)
(*   pc: "backoff" "dial" "open" "recv" "ended"(monitor returned err, the  *)
(*       ConnectError/MonitorError callbacks are due) "finished"           *)
(* Mutant: "none", "connect_on_open" (Connect before the first message),   *)
(*         "no_reset_on_eof", "remove_no_wait" (Remove does not wait for   *)
(*         the monitor goroutine).                                         *)
(***************************************************************************)
EXTENDS Naturals, Sequences, TLC, ManagerDisc

CONSTANTS MaxSessions, MaxMsgs, Mutant

VARIABLES managed, pc, connected, due, sess, msgs, nextId, cancelled, sessCancelled,
          removing, removed, disc, cbAfterRemove

vars == <<managed, pc, connected, due, sess, msgs, nextId, cancelled, sessCancelled, removing, removed, disc, cbAfterRemove>>

Init ==
    /\ managed = FALSE /\ pc = "none" /\ connected = FALSE /\ due = <<>> /\ sess = 0 /\ msgs = 0 /\ nextId = 1
    /\ cancelled = FALSE /\ sessCancelled = FALSE /\ removing = FALSE /\ removed = FALSE
    /\ disc = D0 /\ cbAfterRemove = FALSE

CB(k, id) ==
    /\ disc' = DStep(disc, k, id)
    /\ cbAfterRemove' = (cbAfterRemove \/ removed)

NoCB == UNCHANGED <<disc, cbAfterRemove>>

Add ==
    /\ ~managed /\ ~removed
    /\ managed' = TRUE /\ pc' = "backoff"
    /\ UNCHANGED <<connected, due, sess, msgs, nextId, cancelled, sessCancelled, removing, removed>> /\ NoCB

(* timer fires: next attempt (a cancelled session context is renewed)       *)
BackoffElapsed ==
    /\ pc = "backoff" /\ ~cancelled /\ sess < MaxSessions
    /\ pc' = "dial" /\ sess' = sess + 1 /\ sessCancelled' = FALSE /\ connected' = FALSE /\ msgs' = 0
    /\ UNCHANGED <<managed, due, nextId, cancelled, removing, removed>> /\ NoCB

(* the whole Manager context is cancelled: retryMonitor returns             *)
MonitorExit ==
    /\ pc = "backoff" /\ cancelled
    /\ pc' = "finished"
    /\ UNCHANGED <<managed, connected, due, sess, msgs, nextId, cancelled, sessCancelled, removing, removed>> /\ NoCB

Fail(callbacks) == pc' = "ended" /\ due' = callbacks

DialFail ==
    /\ pc = "dial" /\ Fail(<<"connecterr", "monitorerr">>)
    /\ UNCHANGED <<managed, connected, sess, msgs, nextId, cancelled, sessCancelled, removing, removed>> /\ NoCB
DialOk ==
    /\ pc = "dial" /\ ~sessCancelled /\ ~cancelled /\ pc' = "open"
    /\ UNCHANGED <<managed, connected, due, sess, msgs, nextId, cancelled, sessCancelled, removing, removed>> /\ NoCB

OpenFail ==
    /\ pc = "open" /\ Fail(<<"connecterr", "monitorerr">>)
    /\ UNCHANGED <<managed, connected, sess, msgs, nextId, cancelled, sessCancelled, removing, removed>> /\ NoCB
OpenOk ==
    /\ pc = "open" /\ pc' = "recv"
    /\ IF Mutant = "connect_on_open" THEN CB("connect", 0) /\ connected' = TRUE ELSE NoCB /\ UNCHANGED connected
    /\ UNCHANGED <<managed, due, sess, msgs, nextId, cancelled, sessCancelled, removing, removed>>

(* one received message: Connect (first message only), then its callback -  *)
(* two callbacks of one step of the receive loop, taken as two actions      *)
RecvMsg ==
    /\ pc = "recv" /\ msgs < MaxMsgs /\ ~sessCancelled /\ ~cancelled
    /\ IF ~connected
       THEN CB("connect", 0) /\ connected' = TRUE /\ pc' = "first" /\ UNCHANGED <<msgs, nextId>>
       ELSE /\ \E k \in {"update", "sync"} : CB(k, nextId)
            /\ msgs' = msgs + 1 /\ nextId' = nextId + 1 /\ UNCHANGED <<connected, pc>>
    /\ UNCHANGED <<managed, due, sess, cancelled, sessCancelled, removing, removed>>
FirstMsg ==
    /\ pc = "first"
    /\ \E k \in {"update", "sync"} : CB(k, nextId)
    /\ pc' = "recv" /\ msgs' = msgs + 1 /\ nextId' = nextId + 1
    /\ UNCHANGED <<managed, connected, due, sess, cancelled, sessCancelled, removing, removed>>

(* Recv returns an error: stream error, EOF, or a cancelled context         *)
RecvErr ==
    /\ pc = "recv"
    /\ IF Mutant = "no_reset_on_eof" /\ ~sessCancelled /\ ~cancelled
       THEN Fail(<<"connecterr", "monitorerr">>)
       ELSE Fail(<<"reset", "connecterr", "monitorerr">>)
    /\ UNCHANGED <<managed, connected, sess, msgs, nextId, cancelled, sessCancelled, removing, removed>> /\ NoCB

(* the callbacks that end a session, one at a time                          *)
EndCallback ==
    /\ pc = "ended" /\ due # <<>>
    /\ CB(due[1], 0)
    /\ due' = [i \in 1..(Len(due) - 1) |-> due[i + 1]]
    /\ UNCHANGED <<managed, pc, connected, sess, msgs, nextId, cancelled, sessCancelled, removing, removed>>
SessionOver ==
    /\ pc = "ended" /\ due = <<>> /\ pc' = "backoff"
    /\ UNCHANGED <<managed, connected, due, sess, msgs, nextId, cancelled, sessCancelled, removing, removed>> /\ NoCB

(* Reconnect (API call or receive timeout): cancels the session context     *)
Reconnect ==
    /\ managed /\ ~sessCancelled /\ sessCancelled' = TRUE
    /\ UNCHANGED <<managed, pc, connected, due, sess, msgs, nextId, cancelled, removing, removed>> /\ NoCB

(* Remove: cancel, wait for the monitor goroutine, forget the target        *)
RemoveStart ==
    /\ managed /\ ~removing /\ removing' = TRUE /\ cancelled' = TRUE
    /\ UNCHANGED <<managed, pc, connected, due, sess, msgs, nextId, sessCancelled, removed>> /\ NoCB
RemoveReturn ==
    /\ removing /\ ~removed
    /\ (Mutant = "remove_no_wait") \/ pc = "finished"
    /\ removed' = TRUE /\ managed' = FALSE
    /\ UNCHANGED <<pc, connected, due, sess, msgs, nextId, cancelled, sessCancelled, removing>> /\ NoCB

Next == Add \/ BackoffElapsed \/ MonitorExit \/ DialFail \/ DialOk \/ OpenFail \/ OpenOk \/ RecvMsg \/ FirstMsg
        \/ RecvErr \/ EndCallback \/ SessionOver \/ Reconnect \/ RemoveStart \/ RemoveReturn
Spec == Init /\ [][Next]_vars /\ WF_vars(Next)

---------------------------------------------------------------------------
Discipline == disc.q # "bad"
SilenceAfterRemove == ~cbAfterRemove
(* Remove terminates: once started, it returns (no deadlock between Remove   *)
(* and the exiting monitor)                                                  *)
RemoveTerminates == removing ~> removed
(* a managed target whose session failed gets a new attempt                 *)
Retried == [](pc = "ended" /\ ~cancelled /\ sess < MaxSessions => <>(pc = "dial" \/ cancelled))
=============================================================================
