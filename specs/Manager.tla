-------------------------------- MODULE Manager --------------------------------
(***************************************************************************)
(* Implementation-shaped model of manager.Manager for one target name      *)
(* (C13): retryMonitor / monitor / subscribe / handleUpdates as a program  *)
(* counter with the callbacks it makes, Remove (cancel, wait for finished, *)
(* forget the target - all under the manager lock) and Reconnect (cancel   *)
(* the session context) from other goroutines, the receive-timeout         *)
(* goroutine, and Add of the same name again after (or, for the mutant,    *)
(* during) a Remove: every successful Add starts a new INCARNATION with    *)
(* its own monitor goroutine.                                              *)
(*   pc[i]: "backoff" "dial" "open" "recv" "first" "ended" (monitor        *)
(*          returned err, the ConnectError/MonitorError callbacks are due) *)
(*          "finished"; "none" before incarnation i exists                 *)
(* Mutant: "none", "connect_on_open" (Connect before the first message),   *)
(*         "no_reset_on_eof", "remove_no_wait" (Remove does not wait for   *)
(*         the monitor goroutine), "remove_unlocks_early" (Remove forgets  *)
(*         the target and releases the lock before waiting: an Add of the  *)
(*         same name gets in while the old session winds down).            *)
(***************************************************************************)
EXTENDS Naturals, Sequences, TLC, ManagerDisc

CONSTANTS MaxSessions, MaxMsgs, MaxInc, Mutant

Inc == 1..MaxInc

VARIABLES table,      \* the incarnation in the manager's table (0 = the name is not managed)
          ninc,       \* incarnations created so far
          pc, connected, due, sess, msgs, cancelled, sessCancelled,   \* per incarnation
          nextId,
          removing,   \* the incarnation a Remove call is waiting for (0 = no Remove in progress)
          removedSet, \* incarnations whose Remove has returned
          disc, cbAfterRemove

vars == <<table, ninc, pc, connected, due, sess, msgs, cancelled, sessCancelled, nextId, removing, removedSet, disc, cbAfterRemove>>

Init ==
    /\ table = 0 /\ ninc = 0
    /\ pc = [i \in Inc |-> "none"] /\ connected = [i \in Inc |-> FALSE] /\ due = [i \in Inc |-> <<>>]
    /\ sess = [i \in Inc |-> 0] /\ msgs = [i \in Inc |-> 0]
    /\ cancelled = [i \in Inc |-> FALSE] /\ sessCancelled = [i \in Inc |-> FALSE]
    /\ nextId = 1 /\ removing = 0 /\ removedSet = {}
    /\ disc = D0 /\ cbAfterRemove = FALSE

(* a callback made by incarnation i *)
CB(i, k, id) ==
    /\ disc' = DStep(disc, k, id)
    /\ cbAfterRemove' = (cbAfterRemove \/ i \in removedSet)

NoCB == UNCHANGED <<disc, cbAfterRemove>>
Ctl == <<table, ninc, removing, removedSet>>

(* Add takes the manager lock: it cannot run while a Remove holds it (the    *)
(* unmutated Remove holds it until the old monitor has finished)             *)
Add ==
    /\ table = 0 /\ ninc < MaxInc
    /\ (removing = 0 \/ Mutant = "remove_unlocks_early")
    /\ ninc' = ninc + 1 /\ table' = ninc + 1
    /\ pc' = [pc EXCEPT ![ninc + 1] = "backoff"]
    /\ disc' = IF removing = 0 THEN D0 ELSE disc     \* a new life of the name: the discipline starts afresh once the old one is over
    /\ UNCHANGED <<connected, due, sess, msgs, cancelled, sessCancelled, nextId, removing, removedSet, cbAfterRemove>>

(* timer fires: next attempt (a cancelled session context is renewed)       *)
BackoffElapsed(i) ==
    /\ pc[i] = "backoff" /\ ~cancelled[i] /\ sess[i] < MaxSessions
    /\ pc' = [pc EXCEPT ![i] = "dial"] /\ sess' = [sess EXCEPT ![i] = @ + 1]
    /\ sessCancelled' = [sessCancelled EXCEPT ![i] = FALSE] /\ connected' = [connected EXCEPT ![i] = FALSE]
    /\ msgs' = [msgs EXCEPT ![i] = 0]
    /\ UNCHANGED <<due, nextId, cancelled>> /\ UNCHANGED Ctl /\ NoCB

(* the incarnation's context is cancelled: retryMonitor returns             *)
MonitorExit(i) ==
    /\ pc[i] = "backoff" /\ cancelled[i]
    /\ pc' = [pc EXCEPT ![i] = "finished"]
    /\ UNCHANGED <<connected, due, sess, msgs, nextId, cancelled, sessCancelled>> /\ UNCHANGED Ctl /\ NoCB

Fail(i, callbacks) == pc' = [pc EXCEPT ![i] = "ended"] /\ due' = [due EXCEPT ![i] = callbacks]

DialFail(i) ==
    /\ pc[i] = "dial" /\ Fail(i, <<"connecterr", "monitorerr">>)
    /\ UNCHANGED <<connected, sess, msgs, nextId, cancelled, sessCancelled>> /\ UNCHANGED Ctl /\ NoCB
DialOk(i) ==
    /\ pc[i] = "dial" /\ ~sessCancelled[i] /\ ~cancelled[i] /\ pc' = [pc EXCEPT ![i] = "open"]
    /\ UNCHANGED <<connected, due, sess, msgs, nextId, cancelled, sessCancelled>> /\ UNCHANGED Ctl /\ NoCB

OpenFail(i) ==
    /\ pc[i] = "open" /\ Fail(i, <<"connecterr", "monitorerr">>)
    /\ UNCHANGED <<connected, sess, msgs, nextId, cancelled, sessCancelled>> /\ UNCHANGED Ctl /\ NoCB
OpenOk(i) ==
    /\ pc[i] = "open" /\ pc' = [pc EXCEPT ![i] = "recv"]
    /\ IF Mutant = "connect_on_open" THEN CB(i, "connect", 0) /\ connected' = [connected EXCEPT ![i] = TRUE] ELSE NoCB /\ UNCHANGED connected
    /\ UNCHANGED <<due, sess, msgs, nextId, cancelled, sessCancelled>> /\ UNCHANGED Ctl

(* one received message: Connect (first message only), then its callback -  *)
(* two callbacks of one step of the receive loop, taken as two actions      *)
RecvMsg(i) ==
    /\ pc[i] = "recv" /\ msgs[i] < MaxMsgs /\ ~sessCancelled[i] /\ ~cancelled[i]
    /\ IF ~connected[i]
       THEN CB(i, "connect", 0) /\ connected' = [connected EXCEPT ![i] = TRUE] /\ pc' = [pc EXCEPT ![i] = "first"] /\ UNCHANGED <<msgs, nextId>>
       ELSE /\ \E k \in {"update", "sync"} : CB(i, k, nextId)
            /\ msgs' = [msgs EXCEPT ![i] = @ + 1] /\ nextId' = nextId + 1 /\ UNCHANGED <<connected, pc>>
    /\ UNCHANGED <<due, sess, cancelled, sessCancelled>> /\ UNCHANGED Ctl
FirstMsg(i) ==
    /\ pc[i] = "first"
    /\ \E k \in {"update", "sync"} : CB(i, k, nextId)
    /\ pc' = [pc EXCEPT ![i] = "recv"] /\ msgs' = [msgs EXCEPT ![i] = @ + 1] /\ nextId' = nextId + 1
    /\ UNCHANGED <<connected, due, sess, cancelled, sessCancelled>> /\ UNCHANGED Ctl

(* Recv returns an error: stream error, EOF, or a cancelled context         *)
RecvErr(i) ==
    /\ pc[i] = "recv"
    /\ IF Mutant = "no_reset_on_eof" /\ ~sessCancelled[i] /\ ~cancelled[i]
       THEN Fail(i, <<"connecterr", "monitorerr">>)
       ELSE Fail(i, <<"reset", "connecterr", "monitorerr">>)
    /\ UNCHANGED <<connected, sess, msgs, nextId, cancelled, sessCancelled>> /\ UNCHANGED Ctl /\ NoCB

(* the callbacks that end a session, one at a time                          *)
EndCallback(i) ==
    /\ pc[i] = "ended" /\ due[i] # <<>>
    /\ CB(i, due[i][1], 0)
    /\ due' = [due EXCEPT ![i] = [k \in 1..(Len(due[i]) - 1) |-> due[i][k + 1]]]
    /\ UNCHANGED <<pc, connected, sess, msgs, nextId, cancelled, sessCancelled>> /\ UNCHANGED Ctl
SessionOver(i) ==
    /\ pc[i] = "ended" /\ due[i] = <<>> /\ pc' = [pc EXCEPT ![i] = "backoff"]
    /\ UNCHANGED <<connected, due, sess, msgs, nextId, cancelled, sessCancelled>> /\ UNCHANGED Ctl /\ NoCB

(* Reconnect (API call or receive timeout): cancels the session context of the managed incarnation *)
Reconnect ==
    /\ table # 0 /\ ~sessCancelled[table] /\ sessCancelled' = [sessCancelled EXCEPT ![table] = TRUE]
    /\ UNCHANGED <<pc, connected, due, sess, msgs, nextId, cancelled>> /\ UNCHANGED Ctl /\ NoCB

(* Remove: cancel, wait for the monitor goroutine, forget the target        *)
RemoveStart ==
    /\ table # 0 /\ removing = 0
    /\ removing' = table /\ cancelled' = [cancelled EXCEPT ![table] = TRUE]
    /\ table' = IF Mutant = "remove_unlocks_early" THEN 0 ELSE table
    /\ UNCHANGED <<ninc, pc, connected, due, sess, msgs, nextId, sessCancelled, removedSet>> /\ NoCB
RemoveReturn ==
    /\ removing # 0
    /\ (Mutant = "remove_no_wait") \/ pc[removing] = "finished"
    /\ removedSet' = removedSet \cup {removing}
    /\ table' = IF table = removing THEN 0 ELSE table
    /\ removing' = 0
    /\ UNCHANGED <<ninc, pc, connected, due, sess, msgs, nextId, cancelled, sessCancelled>> /\ NoCB

Next == Add \/ Reconnect \/ RemoveStart \/ RemoveReturn
        \/ \E i \in Inc : BackoffElapsed(i) \/ MonitorExit(i) \/ DialFail(i) \/ DialOk(i) \/ OpenFail(i) \/ OpenOk(i)
                          \/ RecvMsg(i) \/ FirstMsg(i) \/ RecvErr(i) \/ EndCallback(i) \/ SessionOver(i)
Spec == Init /\ [][Next]_vars /\ WF_vars(Next)

---------------------------------------------------------------------------
Discipline == disc.q # "bad"
SilenceAfterRemove == ~cbAfterRemove
(* at most one incarnation of the name is running its sessions              *)
OneLife == \A i, j \in Inc : (i # j /\ pc[i] \notin {"none", "finished"} /\ pc[j] \notin {"none", "finished"}) => FALSE
(* Remove terminates: once started, it returns (no deadlock between Remove   *)
(* and the exiting monitor)                                                  *)
RemoveTerminates == (removing # 0) ~> (removing = 0)
(* a managed target whose session failed gets a new attempt                 *)
Retried == \A i \in Inc : [](pc[i] = "ended" /\ ~cancelled[i] /\ sess[i] < MaxSessions => <>(pc[i] = "dial" \/ cancelled[i]))
=============================================================================
