SPECIFICATION SpecClose
CONSTANTS
  Producers = {"p1", "p2"}
  Mutant = "none"
INVARIANTS TypeOK Conservation NoLostWakeup ClosedAfterDrain
PROPERTIES ConsumerReturns WakeOnInsert
CHECK_DEADLOCK FALSE
