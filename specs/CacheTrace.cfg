SPECIFICATION TSpec
CONSTRAINT Track
POSTCONDITION Accepted
CHECK_DEADLOCK FALSE
