----------------------------- MODULE ManagerTrace -----------------------------
(***************************************************************************)
(* Acceptance of recorded executions of manager.Manager against scripted   *)
(* gNMI servers (C13): every callback (target, kind, update id), the       *)
(* inv/ret of Add / Remove / Reconnect issued by one controller goroutine, *)
(* in real-time order.  Per target the callback word must follow           *)
(* ManagerDisc; a callback is only allowed between the invocation of a     *)
(* successful Add and the return of the Remove that ends it; Add of a      *)
(* managed target and Remove/Reconnect of an unknown one are refused.      *)
(* "hang" events (no retry within 50x the maximum back-off, Remove not     *)
(* returning) are accepted by no action.                                    *)
(***************************************************************************)
EXTENDS ManagerDisc, Sequences, TLC, Json, IOUtils

VARIABLES l, active, disc, pend    \* pend: the controller's call in progress

Trace == ndJsonDeserialize(IOEnv.TRACE)
tvars == <<l, active, disc, pend>>
Ev == Trace[l]
St(name) == l <= Len(Trace) /\ Trace[l].ev = name /\ l' = l + 1

Put(f, k, v) == [x \in DOMAIN f \cup {k} |-> IF x = k THEN v ELSE f[x]]
None == [op |-> "none", t |-> ""]

TInit == l = 1 /\ active = {} /\ disc = <<>> /\ pend = None /\ TLCSet(1, 1)

TReset == St("reset") /\ active' = {} /\ disc' = <<>> /\ pend' = None

(* callbacks may start as soon as Add has been invoked                      *)
TInv ==
    /\ St("inv") /\ pend = None
    /\ pend' = [op |-> Ev.op, t |-> Ev.t, was |-> Ev.t \in active]
    /\ IF Ev.op = "Add" /\ Ev.t \notin active
       THEN active' = active \cup {Ev.t} /\ disc' = Put(disc, Ev.t, D0)
       ELSE UNCHANGED <<active, disc>>

TRet ==
    /\ St("ret") /\ pend.op = Ev.op /\ pend.t = Ev.t
    /\ Ev.res = (IF (Ev.op = "Add") = pend.was THEN "err" ELSE "ok")
    /\ active' = IF Ev.op = "Remove" THEN active \ {Ev.t} ELSE active
    /\ pend' = None
    /\ UNCHANGED disc

TCb ==
    /\ St("cb")
    /\ Ev.t \in active
    /\ LET d == DStep(disc[Ev.t], Ev.k, Ev.id) IN
       /\ d.q # "bad"
       /\ disc' = Put(disc, Ev.t, d)
    /\ UNCHANGED <<active, pend>>

(* scripted-server markers carry no obligation                              *)
TSrv == St("srv") /\ UNCHANGED <<active, disc, pend>>

TFinal == St("final") /\ active = {} /\ pend = None /\ UNCHANGED <<active, disc, pend>>

TNext == TReset \/ TInv \/ TRet \/ TCb \/ TSrv \/ TFinal
TSpec == TInit /\ [][TNext]_tvars

Track == IF l > TLCGet(1) THEN TLCSet(1, l) ELSE TRUE
TraceAccepted ==
    /\ PrintT(<<"HWM", TLCGet(1) - 1, Len(Trace)>>)
    /\ TLCGet(1) = Len(Trace) + 1
=============================================================================
