----------------------------- MODULE ManagerTrace -----------------------------
(***************************************************************************)
(* Acceptance of recorded executions of manager.Manager against scripted   *)
(* gNMI servers (C13): every callback (target, kind, update id), the       *)
(* inv/ret of Add / Remove / Reconnect issued by the controller goroutines, *)
(* in real-time order.  Per target the callback word must follow           *)
(* ManagerDisc; a callback is only allowed between the invocation of a     *)
(* successful Add and the return of the Remove that ends it; Add of a      *)
(* managed target and Remove/Reconnect of an unknown one are refused.      *)
(* "hang" events (no retry within 50x the maximum back-off, Remove not     *)
(* returning) are accepted by no action.                                    *)
(***************************************************************************)
EXTENDS ManagerDisc, Sequences, TLC, Json, IOUtils

(* Calls come from controller goroutines ("c": c1 is the script, c2 races an *)
(* Add against a Remove of the same target).  An Add that overlaps a Remove  *)
(* of its target is refused if it takes effect first and succeeds if it takes *)
(* effect second; in that case the manager runs it only after the Remove has  *)
(* wound the old session down: every callback of the old session precedes     *)
(* every callback of the new one.  Where the one ends and the other begins is *)
(* not observable, so it is inferred (TSwitch, a silent step).                *)
VARIABLES l, active, disc, pend,   \* pend: controller |-> its call in progress
          inc,                     \* target |-> number of its current incarnation (a new one per successful Add)
          rt,                      \* target |-> its effective receive timeout in ms (0 = none), from the driver's "tcfg" marker
          cause,                   \* target |-> since its last Reset something has happened that may end a session of the target
          emptyMsg                 \* target |-> since its last Reset the target has sent a response with nothing in it

Trace == ndJsonDeserialize(IOEnv.TRACE)
tvars == <<l, active, disc, pend, inc, rt, cause, emptyMsg>>
Ev == Trace[l]
St(name) == l <= Len(Trace) /\ Trace[l].ev = name /\ l' = l + 1

Put(f, k, v) == [x \in DOMAIN f \cup {k} |-> IF x = k THEN v ELSE f[x]]
Get(f, k) == IF k \in DOMAIN f THEN f[k] ELSE 0
Busy(c) == c \in DOMAIN pend /\ pend[c].op # "none"
CauseOf(t) == t \in DOMAIN cause /\ cause[t]
None == [op |-> "none", t |-> "", was |-> FALSE, rem |-> FALSE, sw |-> FALSE, inc0 |-> 0, ts |-> <<>>]
SeqSet(q) == {q[i] : i \in 1..Len(q)}
(* "ReconnectMany": the collector's Reconnect RPC (collector.Server in front of Manager.Reconnect) with a list of   *)
(* target names: every known one is reconnected, the call fails (NotFound) iff some name is not managed             *)
Many(e) == e.op = "ReconnectMany"

TInit == l = 1 /\ active = {} /\ disc = <<>> /\ pend = <<>> /\ inc = <<>> /\ rt = <<>> /\ cause = <<>> /\ emptyMsg = <<>> /\ TLCSet(1, 1)

TReset == St("reset") /\ active' = {} /\ disc' = <<>> /\ pend' = <<>> /\ inc' = <<>> /\ rt' = <<>> /\ cause' = <<>> /\ emptyMsg' = <<>>

(* the driver announces the receive timeout in force for a target before adding it *)
TCfg == St("tcfg") /\ rt' = Put(rt, Ev.t, Ev.rt) /\ UNCHANGED <<active, disc, pend, inc, cause, emptyMsg>>

(* callbacks may start as soon as Add has been invoked                      *)
TInv ==
    /\ St("inv") /\ ~Busy(Ev.c)
    /\ LET overlapRemove == \E c \in DOMAIN pend : pend[c].op = "Remove" /\ pend[c].t = Ev.t
           rec == [op |-> Ev.op, t |-> Ev.t, was |-> IF Many(Ev) THEN SeqSet(Ev.ts) \subseteq active ELSE Ev.t \in active,
                   rem |-> Ev.op = "Add" /\ overlapRemove, sw |-> FALSE,
                   inc0 |-> Get(inc, Ev.t), ts |-> IF Many(Ev) THEN Ev.ts ELSE <<>>]
           \* a Remove beginning while an Add of the same target is in progress overlaps it too
           marked == [c \in DOMAIN pend |-> IF Ev.op = "Remove" /\ pend[c].op = "Add" /\ pend[c].t = Ev.t
                                            THEN [pend[c] EXCEPT !.rem = TRUE] ELSE pend[c]] IN
       /\ pend' = Put(marked, Ev.c, rec)
       /\ IF Ev.op = "Add" /\ Ev.t \notin active
          THEN active' = active \cup {Ev.t} /\ disc' = Put(disc, Ev.t, D0) /\ inc' = Put(inc, Ev.t, Get(inc, Ev.t) + 1)
          ELSE UNCHANGED <<active, disc, inc>>
       \* a Reconnect or Remove may end the running session of its target
       /\ cause' = IF Ev.op \in {"Reconnect", "Remove"} THEN Put(cause, Ev.t, TRUE)
                   ELSE IF Many(Ev) THEN [x \in DOMAIN cause \cup SeqSet(Ev.ts) |-> IF x \in SeqSet(Ev.ts) THEN TRUE ELSE cause[x]]
                   ELSE cause
    /\ UNCHANGED <<rt, emptyMsg>>

(* silent: the overlapping Remove has wound the old session down, the Add   *)
(* begins a new incarnation of the target                                   *)
TSwitch ==
    /\ l <= Len(Trace)
    /\ \E c \in DOMAIN pend :
          /\ pend[c].op = "Add" /\ pend[c].was /\ pend[c].rem /\ ~pend[c].sw
          /\ pend' = [pend EXCEPT ![c].sw = TRUE]
          /\ disc' = Put(disc, pend[c].t, D0)
          /\ inc' = Put(inc, pend[c].t, Get(inc, pend[c].t) + 1)
    /\ UNCHANGED <<l, active, rt, cause, emptyMsg>>

TRet ==
    /\ St("ret") /\ Busy(Ev.c) /\ pend[Ev.c].op = Ev.op /\ pend[Ev.c].t = Ev.t
    /\ LET p == pend[Ev.c] IN
       /\ Ev.res = (IF Ev.op = "Add" THEN (IF p.was /\ ~p.sw THEN "err" ELSE "ok")
                    ELSE (IF p.was THEN "ok" ELSE "err"))
       \* the Remove ends the incarnation it found; a newer one (an overlapping Add that took effect after it) stays
       /\ active' = IF Ev.op = "Remove" /\ Get(inc, Ev.t) = p.inc0 THEN active \ {Ev.t} ELSE active
    /\ pend' = Put(pend, Ev.c, None)
    \* a Reconnect/Remove still in progress when the previous Reset was made may be what ends the next session
    /\ cause' = IF Ev.op \in {"Reconnect", "Remove"} THEN Put(cause, Ev.t, TRUE)
                ELSE IF Many(Ev) THEN LET q == pend[Ev.c].ts IN [x \in DOMAIN cause \cup SeqSet(q) |-> IF x \in SeqSet(q) THEN TRUE ELSE cause[x]]
                ELSE cause
    /\ UNCHANGED <<disc, inc, rt, emptyMsg>>

TCb ==
    /\ St("cb")
    /\ Ev.t \in active
    \* a response with nothing in it is a message (Connect is due) but has no callback of its own: a session
    \* whose only messages were such ends with Connect followed directly by Reset
    /\ LET d == IF Ev.k = "reset" /\ disc[Ev.t].q = "conn" /\ Ev.t \in DOMAIN emptyMsg /\ emptyMsg[Ev.t]
                THEN [disc[Ev.t] EXCEPT !.q = "reset"]
                ELSE DStep(disc[Ev.t], Ev.k, Ev.id) IN
       /\ d.q # "bad"
       /\ disc' = Put(disc, Ev.t, d)
    /\ emptyMsg' = IF Ev.k = "reset" THEN Put(emptyMsg, Ev.t, FALSE) ELSE emptyMsg
    \* a session is not ended for no reason: unless a receive timeout is in force for the target, a Reset needs - since
    \* the target's previous Reset - the target to have ended a stream, or a Reconnect/Remove of the target (begun or returned)
    /\ (Ev.k = "reset" => (Get(rt, Ev.t) > 0 \/ CauseOf(Ev.t))) = TRUE
    \* a Reset uses up what could have caused it
    /\ cause' = IF Ev.k = "reset" THEN Put(cause, Ev.t, FALSE) ELSE cause
    /\ UNCHANGED <<active, pend, inc, rt>>

(* scripted-server markers carry no obligation                              *)
TSrv == /\ St("srv")
        \* "end": the target ends the stream it has just served (possibly before the manager has looked at its first message)
        /\ cause' = IF Ev.k = "end" THEN Put(cause, Ev.t, TRUE) ELSE cause
        /\ emptyMsg' = IF Ev.k = "empty" THEN Put(emptyMsg, Ev.t, TRUE) ELSE emptyMsg
        /\ UNCHANGED <<active, disc, pend, inc, rt>>

(* a driver observation with a retry delay of an hour: in the 1.5 s after a target's first failed attempt the manager *)
(* makes no further attempt (it backs off - and the failure was seen, so it had not stopped before)               *)
TBackoff == St("backoffwin") /\ Ev.failed /\ Ev.attempts = 0 /\ UNCHANGED <<active, disc, pend, inc, rt, cause, emptyMsg>>

TFinal == St("final") /\ active = {} /\ (\A c \in DOMAIN pend : ~Busy(c)) /\ UNCHANGED <<active, disc, pend, inc, rt, cause, emptyMsg>>

TNext == TReset \/ TCfg \/ TBackoff \/ TInv \/ TSwitch \/ TRet \/ TCb \/ TSrv \/ TFinal
TSpec == TInit /\ [][TNext]_tvars

Track == IF l > TLCGet(1) THEN TLCSet(1, l) ELSE TRUE
TraceAccepted ==
    /\ PrintT(<<"HWM", TLCGet(1) - 1, Len(Trace)>>)
    /\ TLCGet(1) = Len(Trace) + 1
=============================================================================
