------------------------------ MODULE MatchTrace ------------------------------
(* Trace acceptance for match.Match (C06): registrations by handle, every   *)
(* Update/UpdateOnce with the number of deliveries each client received.    *)
EXTENDS Match, Json, IOUtils

VARIABLES l, handles     \* handle id |-> registration (kept after removal: remove is idempotent)
Trace == ndJsonDeserialize(IOEnv.TRACE)
tvars == <<regs, nops, out, l, handles>>
Ev == Trace[l]
St(name) == l <= Len(Trace) /\ Trace[l].ev = name /\ l' = l + 1

TInit == regs = {} /\ nops = 0 /\ out = [op |-> "init"] /\ l = 1 /\ handles = <<>> /\ TLCSet(1, 1)

TReset == St("reset") /\ regs' = {} /\ handles' = <<>>

(* One registration and one update on a fresh registry (the pair space).   *)
TPair ==
    /\ St("pair")
    /\ Ev.n = (IF Agree(Ev.q, Ev.p) THEN 1 ELSE 0)
    /\ UNCHANGED <<regs, handles>>

TAdd ==
    /\ St("add")
    /\ regs' = regs \cup {[c |-> Ev.c, q |-> Ev.q]}
    /\ handles' = [h \in DOMAIN handles \cup {Ev.h} |-> IF h = Ev.h THEN [c |-> Ev.c, q |-> Ev.q] ELSE handles[h]]

TRemove ==
    /\ St("remove")
    /\ Ev.h \in DOMAIN handles
    /\ regs' = regs \ {handles[Ev.h]}
    /\ UNCHANGED handles

Clis == {Ev.counts[i].c : i \in 1..Len(Ev.counts)}
CountOf(c) == Ev.counts[CHOOSE i \in 1..Len(Ev.counts) : Ev.counts[i].c = c].n

(* Update: one delivery per agreeing registration of the client.           *)
TUpdate ==
    /\ St("update")
    /\ (\A c \in Clis : CountOf(c) = UpdateCount(regs, c, Ev.p)) = TRUE
    /\ UNCHANGED <<regs, handles>>

(* UpdateOnce over all paths of one notification with a shared map: each   *)
(* client at most once.                                                     *)
TUpdateOnce ==
    /\ St("updateonce")
    /\ (\A c \in Clis : CountOf(c) = OnceCount(regs, c, SeqToSet(Ev.ps))) = TRUE
    /\ UNCHANGED <<regs, handles>>

TNext == (TReset \/ TPair \/ TAdd \/ TRemove \/ TUpdate \/ TUpdateOnce) /\ UNCHANGED <<nops, out>>
TSpec == TInit /\ [][TNext]_tvars

Track == IF l > TLCGet(1) THEN TLCSet(1, l) ELSE TRUE
TraceAccepted ==
    /\ PrintT(<<"HWM", TLCGet(1) - 1, Len(Trace)>>)
    /\ TLCGet(1) = Len(Trace) + 1
=============================================================================
