------------------------------- MODULE CacheMC -------------------------------
(***************************************************************************)
(* Bounded model of cache.Cache built from the operators of Cache.tla;     *)
(* TLC explores every history of at most MaxOps calls and checks the       *)
(* properties C02 / C03 / C14 / C15 as invariants and action properties.   *)
(* Each property has its own configuration (CacheMC_C02.cfg ...) enabling  *)
(* the call kinds that matter for it.                                       *)
(***************************************************************************)
EXTENDS Cache

CONSTANTS Targets,   \* target names
          UPaths,    \* paths updates may address
          DPaths,    \* paths deletes may address (may contain globs)
          APaths,    \* prefixes of atomic containers
          Vals,      \* value tokens
          MaxTs,     \* timestamps 1..MaxTs, clock 1..MaxTs
          Thr,       \* future threshold
          ED,        \* event-driven emulation
          Acts,      \* enabled call kinds
          MaxOps,
          Mutant     \* "none", or a deliberately wrong rule used to show that the invariants bite

VARIABLES known, S, mirror, now, nops,
          best,      \* ghost: per target, path |-> greatest accepted ts since the leaf was last deleted
          hi,        \* ghost: per target, greatest accepted non-meta ts since the last Reset
          out        \* last call (output only)

vars == <<known, S, mirror, now, nops, best, hi, out>>

TS == 1..MaxTs

Init ==
    /\ known = Targets
    /\ S = [t \in Targets |-> FreshTarget]
    /\ mirror = [t \in Targets |-> {}]
    /\ now = 1 /\ nops = 0
    /\ best = [t \in Targets |-> [p \in UPaths \cup APaths |-> 0]]
    /\ hi = [t \in Targets |-> 0]
    /\ out = [op |-> "init", t |-> "", cls |-> "none"]

Bound == nops < MaxOps /\ nops' = nops + 1

RECURSIVE ApplySet(_, _)
ApplySet(m, es) == IF es = {} THEN m
                   ELSE LET e == CHOOSE x \in es : TRUE IN ApplySet(MirrorApply(m, e), es \ {e})

(* One single update or one atomic group (stored as one leaf).              *)
DoUpdate(t, lf, op) ==
    /\ t \in known
    /\ \E cls \in UpdClasses(S[t], lf, now, Thr) :
       \E withheld \in (IF cls = "replace" /\ (MayWithhold(S[t], lf, ED) \/ Mutant = "withhold_changed")
                        THEN BOOLEAN ELSE {FALSE}) :
          LET s1 == ApplyUpd(S[t], lf, cls, withheld, 1)
              s2 == TrackLatest(s1, lf.p, lf.ts, IsAccepted(cls)) IN
          /\ S' = [S EXCEPT ![t] = s2]
          /\ mirror' = IF IsAccepted(cls) /\ ~withheld
                       THEN [mirror EXCEPT ![t] = MirrorApply(@, UpdEntry(t, lf))] ELSE mirror
          /\ best' = IF IsAccepted(cls) /\ ~IsMetaPath(lf.p)
                     THEN [best EXCEPT ![t][lf.p] = Max(@, lf.ts)] ELSE best
          /\ hi' = IF IsAccepted(cls) /\ ~IsMetaPath(lf.p) THEN [hi EXCEPT ![t] = Max(@, lf.ts)] ELSE hi
          /\ out' = [op |-> op, t |-> t, cls |-> cls]
    /\ UNCHANGED <<known, now>>

Update(t, p, v, ts, enc) ==
    "upd" \in Acts /\ Bound /\ DoUpdate(t, [p |-> p, ts |-> ts, val |-> v, enc |-> enc, at |-> FALSE], "Update")

Atomic(t, p, v, ts) ==
    "atomic" \in Acts /\ Bound /\ DoUpdate(t, [p |-> p, ts |-> ts, val |-> v, enc |-> "e1", at |-> TRUE], "Atomic")

DoDelete(t, q, ts, op) ==
    /\ t \in known
    /\ S' = [S EXCEPT ![t] = ApplyDel(@, q, ts)]
    /\ mirror' = [mirror EXCEPT ![t] = ApplySet(@, DelFeed(t, S[t], q, ts))]
    /\ best' = [best EXCEPT ![t] = [p \in DOMAIN @ |->
                   IF \E l \in DelVictims(S[t], q, ts) : l.p = p THEN 0 ELSE @[p]]]
    /\ out' = [op |-> op, t |-> t, cls |-> "del"]
    /\ UNCHANGED <<known, now, hi>>

Delete(t, q, ts) == "del" \in Acts /\ Bound /\ DoDelete(t, q, ts, "Delete")

Sync(t) ==
    "life" \in Acts /\ Bound /\ DoUpdate(t, MetaLeaf("sync", "bool:true", now), "Sync")

(* Connect = update meta/connected ; delete meta/connectError (two steps of *)
(* the same call; the model takes them as two actions of one call kind).    *)
Connect1(t) ==
    "life" \in Acts /\ Bound /\ DoUpdate(t, MetaLeaf("connected", "bool:true", now), "Connect")
Connect2(t) ==
    "life" \in Acts /\ out.op = "Connect" /\ out.t = t /\ UNCHANGED nops
    /\ DoDelete(t, <<Meta, "connectError">>, now, "Connect2")

ConnectError(t) ==
    "life" \in Acts /\ Bound /\ DoUpdate(t, MetaLeaf("connectError", "string:e", now), "ConnectError")

UpdateMetadata ==
    /\ "export" \in Acts /\ Bound
    /\ S' = [t \in DOMAIN S |-> ExportMeta(S[t], now)]
    /\ mirror' = [t \in DOMAIN mirror |-> IF t \in known THEN ApplySet(mirror[t], ExportFeed(t, S[t], now)) ELSE mirror[t]]
    /\ out' = [op |-> "UpdateMetadata", t |-> "", cls |-> "none"]
    /\ UNCHANGED <<known, now, best, hi>>

Reset(t) ==
    /\ "reset" \in Acts /\ Bound /\ t \in known
    /\ S' = [S EXCEPT ![t] = ApplyReset(@, now)]
    /\ mirror' = [mirror EXCEPT ![t] = ApplySet(@, ResetFeed(t, S[t], now))]
    /\ best' = [best EXCEPT ![t] = [p \in DOMAIN @ |-> 0]]
    /\ hi' = [hi EXCEPT ![t] = 0]
    /\ out' = [op |-> "Reset", t |-> t, cls |-> "none"]
    /\ UNCHANGED <<known, now>>

Remove(t) ==
    /\ "remove" \in Acts /\ Bound
    /\ known' = known \ {t}
    /\ S' = [u \in known \ {t} |-> S[u]]
    /\ mirror' = [mirror EXCEPT ![t] = MirrorApply(@, DelEntry(t, <<Glob>>, now))]
    /\ best' = [best EXCEPT ![t] = [p \in DOMAIN @ |-> 0]]
    /\ hi' = [hi EXCEPT ![t] = 0]
    /\ out' = [op |-> "Remove", t |-> t, cls |-> "none"]
    /\ UNCHANGED now

Add(t) ==
    /\ "add" \in Acts /\ Bound /\ t \notin known
    /\ known' = known \cup {t}
    /\ S' = [u \in known \cup {t} |-> IF u = t THEN FreshTarget ELSE S[u]]
    /\ out' = [op |-> "Add", t |-> t, cls |-> "none"]
    /\ UNCHANGED <<mirror, now, best, hi>>

Tick ==
    /\ "tick" \in Acts /\ now < MaxTs /\ now' = now + 1
    /\ out' = [op |-> "Tick", t |-> "", cls |-> "none"]
    /\ UNCHANGED <<known, S, mirror, nops, best, hi>>

Next ==
    \/ \E t \in Targets, p \in UPaths, v \in Vals, ts \in TS, enc \in {"e1", "e2"} : Update(t, p, v, ts, enc)
    \/ \E t \in Targets, p \in APaths, v \in Vals, ts \in TS : Atomic(t, p, v, ts)
    \/ \E t \in Targets, q \in DPaths, ts \in TS : Delete(t, q, ts)
    \/ \E t \in Targets : Sync(t) \/ Connect1(t) \/ Connect2(t) \/ ConnectError(t) \/ Reset(t) \/ Remove(t) \/ Add(t)
    \/ UpdateMetadata
    \/ Tick

Spec == Init /\ [][Next]_vars

View == <<known, S, mirror, now, nops, best, hi, out.op, out.t>>

---------------------------------------------------------------------------
(* C03: the mirror of the feed agrees with the store after every call.     *)
MirrorInv ==
    /\ \A t \in known : MirrorOK(S[t].st, mirror[t], ED)
    /\ \A t \in Targets \ known : mirror[t] = {}

(* C15: leaf counters.                                                      *)
CountersInv == \A t \in known : CountersOK(S[t])

StructInv == \A t \in known : PrefixFree(S[t].st)

(* C02: a stored leaf carries the greatest timestamp accepted for it since *)
(* it was last deleted.                                                      *)
NewestInv ==
    \A t \in known : \A l \in NonMeta(S[t].st) : l.ts = best[t][l.p]

(* C15: latest = greatest accepted target timestamp since the last reset.  *)
LatestInv == \A t \in known : S[t].latest = hi[t]

(* C02: a rejected update changes nothing that is stored.                   *)
RejectedUnchanged ==
    [][out'.cls \in {"stale", "future", "collide"} => S'[out'.t].st = S[out'.t].st /\ mirror' = mirror]_vars

(* C02: a delete at time T removes exactly the matching older leaves.       *)
DeleteExact ==
    [][out'.op = "Delete" =>
         \A l \in S[out'.t].st : (l \in S'[out'.t].st) = ~(\E q \in DPaths, ts \in TS :
              QueryMatch(q, l.p) /\ l.ts < ts /\ S'[out'.t].st = S[out'.t].st \ DelVictims(S[out'.t], q, ts))
              \/ l \in S'[out'.t].st]_vars

(* C14: a call addressed to one target leaves every other target alone.    *)
Isolation ==
    [][\A u \in known \cap known' :
          (out'.t # "" /\ u # out'.t) => S'[u] = S[u] /\ mirror'[u] = mirror[u]]_vars

(* C14: Reset clears the target data and returns metadata to initial       *)
(* values; Remove makes the target unknown.                                 *)
ResetClears ==
    [][out'.op = "Reset" =>
         LET s == S'[out'.t] IN
         /\ NonMeta(s.st) = {} /\ s.ctr = ZeroCtr /\ ~s.sync /\ ~s.connected /\ s.latest = 0]_vars

RemoveForgets == [][out'.op = "Remove" => out'.t \notin known' /\ mirror'[out'.t] = {}]_vars
---------------------------------------------------------------------------
(* Constant sets for the configurations (cfg files cannot spell tuples).   *)
U4 == {<<"a">>, <<"a", "b">>, <<"a", "c">>, <<"b">>}
U3 == {<<"a">>, <<"a", "b">>, <<"b">>}
U2 == {<<"a">>, <<"b", "c">>}
D4 == {<<"a">>, <<"a", "b">>, <<"*">>, <<"a", "*">>}
D3 == {<<"a">>, <<"*">>, <<"b", "*">>}
D2 == {<<"a">>, <<"*">>}
A1 == {<<"c">>}
A0 == {}
=============================================================================
