SPECIFICATION Spec
CONSTANTS
  MaxSessions = 3
  MaxMsgs = 2
  MaxInc = 2
  Mutant = "connect_on_open"
INVARIANTS Discipline SilenceAfterRemove
CHECK_DEADLOCK FALSE
