--------------------------- MODULE ConnectionTrace ---------------------------
(***************************************************************************)
(* Acceptance of recorded executions of connection.Manager (C16).  Events  *)
(* in real-time order: inv/ret of Connection() and of the done functions,  *)
(* dialstart/dialend of the driver's dial function, each carrying the set  *)
(* of connections observed shut down at that moment (shut).                *)
(*   - at most one dial per address in flight;                             *)
(*   - a successful request returns a connection produced by a dial for    *)
(*     that address which is not shut down; a failed request was cancelled *)
(*     on entry or overlapped a failed dial (shared outcome) - a request   *)
(*     naming a dialer the manager does not have counts as a dial that     *)
(*     fails at once; once a request has returned the failure of a dial    *)
(*     the manager has forgotten that dial: later requests start afresh;   *)
(*   - a connection is never observed shut down while somebody who got it  *)
(*     has not started to release it;                                      *)
(*   - when the last holder's release returns and no request for that      *)
(*     address is in progress, the connection is shut down; at the end     *)
(*     every connection is shut down;                                      *)
(*   - releasing twice, or after a failed request, changes nothing (it     *)
(*     would close a connection somebody else still holds).                *)
(***************************************************************************)
EXTENDS Naturals, Sequences, FiniteSets, TLC, Json, IOUtils

VARIABLES l,
          inflight,   \* addr |-> dial id in flight (0 = none)
          connAddr,   \* conn id |-> addr (connections produced by successful dials)
          holders,    \* conn id |-> number of holders that have not started to release
          handle,     \* handle id |-> [conn, released]
          pending,    \* addr |-> number of Connection() calls in progress
          fails,      \* addr |-> number of failed dials so far
          call,       \* goroutine |-> [addr, fc0, lf0, cancelled] of its Connection() call in progress
          lastFail,   \* addr |-> id of the last dial for addr if it failed, no new dial has started since and nobody
                      \*          who began after it has returned its failure yet (0 otherwise)
          relBusy,    \* conn id |-> number of first releases that have started and not returned
          vpend       \* addr |-> number of requests naming an unknown dialer in progress

Trace == ndJsonDeserialize(IOEnv.TRACE)
tvars == <<l, inflight, connAddr, holders, handle, pending, fails, call, lastFail, relBusy, vpend>>
Ev == Trace[l]
St(name) == l <= Len(Trace) /\ Trace[l].ev = name /\ l' = l + 1

Get(f, k) == IF k \in DOMAIN f THEN f[k] ELSE 0
Put(f, k, v) == [x \in DOMAIN f \cup {k} |-> IF x = k THEN v ELSE f[x]]
SeqSet(s) == {s[i] : i \in 1..Len(s)}

(* no connection is shut down while it has a holder                        *)
ShutOK(h, shut) == \A c \in SeqSet(shut) : Get(h, c) = 0

TInit ==
    /\ l = 1 /\ inflight = <<>> /\ connAddr = <<>> /\ holders = <<>> /\ handle = <<>>
    /\ pending = <<>> /\ fails = <<>> /\ call = <<>> /\ lastFail = <<>> /\ relBusy = <<>> /\ vpend = <<>> /\ TLCSet(1, 1)

TReset ==
    /\ St("reset")
    /\ inflight' = <<>> /\ connAddr' = <<>> /\ holders' = <<>> /\ handle' = <<>>
    /\ pending' = <<>> /\ fails' = <<>> /\ call' = <<>> /\ lastFail' = <<>> /\ relBusy' = <<>> /\ vpend' = <<>>

TDialStart ==
    /\ St("dialstart")
    /\ Get(inflight, Ev.addr) = 0
    /\ ShutOK(holders, Ev.shut) = TRUE
    /\ inflight' = Put(inflight, Ev.addr, Ev.d)
    /\ lastFail' = Put(lastFail, Ev.addr, 0)
    /\ UNCHANGED <<connAddr, holders, handle, pending, fails, call, relBusy, vpend>>

TDialEnd ==
    /\ St("dialend")
    /\ Get(inflight, Ev.addr) = Ev.d
    /\ ShutOK(holders, Ev.shut) = TRUE
    /\ inflight' = Put(inflight, Ev.addr, 0)
    /\ IF Ev.ok THEN connAddr' = Put(connAddr, Ev.conn, Ev.addr) /\ UNCHANGED <<fails, lastFail>>
       ELSE /\ fails' = Put(fails, Ev.addr, Get(fails, Ev.addr) + 1)
            /\ lastFail' = Put(lastFail, Ev.addr, Ev.d)
            /\ UNCHANGED connAddr
    /\ UNCHANGED <<holders, handle, pending, call, relBusy, vpend>>

TConnInv ==
    /\ St("inv") /\ Ev.op = "Connection"
    /\ ShutOK(holders, Ev.shut) = TRUE
    /\ pending' = Put(pending, Ev.addr, Get(pending, Ev.addr) + 1)
    \* a request naming an unknown dialer is, for everybody overlapping it, a dial that may fail at any moment
    /\ call' = Put(call, Ev.g, [addr |-> Ev.addr, fc0 |-> Get(fails, Ev.addr), lf0 |-> Get(lastFail, Ev.addr),
                                cancelled |-> Ev.cancelled, nodialer |-> Ev.nodialer, vp0 |-> Get(vpend, Ev.addr) > 0])
    /\ vpend' = IF Ev.nodialer THEN Put(vpend, Ev.addr, Get(vpend, Ev.addr) + 1) ELSE vpend
    /\ fails' = IF Ev.nodialer THEN Put(fails, Ev.addr, Get(fails, Ev.addr) + 1) ELSE fails
    /\ UNCHANGED <<inflight, connAddr, holders, handle, lastFail, relBusy>>

TConnRet ==
    /\ St("ret") /\ Ev.op = "Connection"
    /\ LET c == call[Ev.g] IN
       /\ pending' = Put(pending, c.addr, Get(pending, c.addr) - 1)
       /\ IF Ev.res = "conn"
          THEN /\ Ev.conn \in DOMAIN connAddr /\ connAddr[Ev.conn] = c.addr
               /\ Ev.conn \notin SeqSet(Ev.shut)
               /\ holders' = Put(holders, Ev.conn, Get(holders, Ev.conn) + 1)
               /\ handle' = Put(handle, Ev.h, [conn |-> Ev.conn, released |-> FALSE, first |-> ""])
               /\ ShutOK(holders', Ev.shut) = TRUE
          \* a failed request was cancelled on entry, overlapped a failed dial, or joined the entry of
          \* the last failed dial while the manager was still forgetting it
          ELSE /\ (c.cancelled \/ Get(fails, c.addr) > c.fc0 \/ c.lf0 # 0 \/ c.nodialer \/ c.vp0) = TRUE
               /\ handle' = Put(handle, Ev.h, [conn |-> 0, released |-> TRUE, first |-> ""])
               /\ ShutOK(holders, Ev.shut) = TRUE
               /\ UNCHANGED holders
       \* the waiters of a failed dial are woken after the manager has forgotten it: a request that began after
       \* that dial had failed (lf0), was not cancelled and returns a failure proves that nothing of the dial
       \* lingers for requests begun later
       /\ lastFail' = IF Ev.res # "conn" /\ ~c.cancelled /\ c.lf0 # 0 /\ c.lf0 = Get(lastFail, c.addr) /\ ~c.nodialer /\ ~c.vp0
                       THEN Put(lastFail, c.addr, 0) ELSE lastFail
       /\ vpend' = IF c.nodialer THEN Put(vpend, c.addr, Get(vpend, c.addr) - 1) ELSE vpend
    /\ UNCHANGED <<inflight, connAddr, fails, call, relBusy>>

TDoneInv ==
    /\ St("inv") /\ Ev.op = "Done"
    /\ LET h == handle[Ev.h] IN
       IF h.released THEN UNCHANGED <<holders, handle, relBusy>>
       ELSE /\ holders' = Put(holders, h.conn, holders[h.conn] - 1)
            /\ handle' = Put(handle, Ev.h, [h EXCEPT !.released = TRUE, !.first = Ev.g])
            /\ relBusy' = Put(relBusy, h.conn, Get(relBusy, h.conn) + 1)
    /\ ShutOK(holders', Ev.shut) = TRUE
    /\ UNCHANGED <<inflight, connAddr, pending, fails, call, lastFail, vpend>>

(* the release that actually gives the reference back is the first call of  *)
(* the done function; when the last of them has returned and nobody is      *)
(* requesting the address, the connection is shut down                      *)
TDoneRet ==
    /\ St("ret") /\ Ev.op = "Done"
    /\ ShutOK(holders, Ev.shut) = TRUE
    /\ LET h == handle[Ev.h]
           first == h.conn # 0 /\ h.first = Ev.g /\ Get(relBusy, h.conn) > 0 IN
       /\ relBusy' = IF first THEN Put(relBusy, h.conn, relBusy[h.conn] - 1) ELSE relBusy
       /\ handle' = IF first THEN Put(handle, Ev.h, [h EXCEPT !.first = ""]) ELSE handle
       /\ (h.conn # 0 /\ holders[h.conn] = 0 /\ Get(relBusy', h.conn) = 0 /\ Get(pending, connAddr[h.conn]) = 0)
            => h.conn \in SeqSet(Ev.shut)
    /\ UNCHANGED <<inflight, connAddr, holders, pending, fails, call, lastFail, vpend>>

TFinal ==
    /\ St("final")
    /\ (\A c \in DOMAIN connAddr : Get(holders, c) = 0 /\ c \in SeqSet(Ev.shut)) = TRUE
    /\ (\A a \in DOMAIN inflight : inflight[a] = 0) = TRUE
    /\ UNCHANGED <<inflight, connAddr, holders, handle, pending, fails, call, lastFail, relBusy, vpend>>

TNext == TReset \/ TDialStart \/ TDialEnd \/ TConnInv \/ TConnRet \/ TDoneInv \/ TDoneRet \/ TFinal
TSpec == TInit /\ [][TNext]_tvars

Track == IF l > TLCGet(1) THEN TLCSet(1, l) ELSE TRUE
TraceAccepted ==
    /\ PrintT(<<"HWM", TLCGet(1) - 1, Len(Trace)>>)
    /\ TLCGet(1) = Len(Trace) + 1
=============================================================================
