SPECIFICATION Spec
CONSTANTS
  Names = {"a", "*"}
  MaxLen = 2
  Clients = {"c1", "c2"}
  MaxOps = 3
INVARIANTS OffersOnlyRegistered AtMostOnce
PROPERTIES RemoveIsolated
CHECK_DEADLOCK FALSE
