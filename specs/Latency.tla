------------------------------- MODULE Latency -------------------------------
(***************************************************************************)
(* latency.Latency (C15, latency clause): samples are accumulated into the  *)
(* current batch by Compute; every Update closes the batch into a slot      *)
(* [start, end] that is appended to every window, drops from each window    *)
(* the slots that ended at or before (now - size), and exports avg / max /  *)
(* min per window.  The specification is shaped like the implementation     *)
(* (batch, slots, slide); the property is stated over the SAMPLES:          *)
(*                                                                          *)
(*   Bounded   every exported statistic of a window lies between the        *)
(*             smallest and the largest latency observed in that window,    *)
(*             the average up to the averaging precision;                    *)
(*   Window    "observed in that window": the samples accounted to a window  *)
(*             include every sample observed after (now - size) and no       *)
(*             sample observed before the update that precedes (now - size). *)
(*                                                                          *)
(* Mutant constants re-introduce the design errors the invariants must       *)
(* reject (vacuity guard):                                                   *)
(*   "no_reset"     the batch extremes are not reset when a slot is closed;  *)
(*   "late_slide"   a slot is dropped one comparison too late (end < cutoff  *)
(*                  instead of end <= cutoff);                                *)
(*   "unscaled_avg" the average is accumulated in precision units but        *)
(*                  exported without scaling back.                           *)
(***************************************************************************)
EXTENDS Integers, Sequences, FiniteSets, TLC

CONSTANTS Lats,        \* latency values a sample may have (integers, may be <= 0)
          Sizes,       \* window sizes
          Steps,       \* possible clock advances between two calls
          Prec,        \* averaging precision (scale factor), >= 1
          MaxTime,     \* bound on the clock
          MaxOps,      \* bound on the number of calls (the clock may stand still between calls)
          Mutant

VARIABLES now,      \* clock
          batch,    \* samples of the open batch: sequence of [lat, at]
          bstart,   \* start time of the open batch (-1: none yet)
          bmax, bmin, \* running extremes of the open batch as the implementation keeps them
          slots,    \* window size |-> sequence of slots [samples, start, end, max, min, total, count]
          upd,      \* times of the Update calls so far (sequence)
          exported, \* last export: set of [size, typ, val, at]
          seen,     \* history: every sample ever observed, as [lat, at]
          nops      \* number of calls so far

vars == <<now, batch, bstart, bmax, bmin, slots, upd, exported, seen, nops>>

Min(S) == CHOOSE x \in S : \A y \in S : x <= y
Max(S) == CHOOSE x \in S : \A y \in S : x >= y
\* integer division truncating toward zero, as Go does
Quot(a, b) == IF a >= 0 THEN a \div b ELSE -((-a) \div b)
RECURSIVE SumLat(_), SumTotal(_), SumCount(_)
SumLat(s)    == IF s = <<>> THEN 0 ELSE Quot(Head(s).lat, Prec) + SumLat(Tail(s))   \* in precision units
SumTotal(sq) == IF sq = <<>> THEN 0 ELSE Head(sq).total + SumTotal(Tail(sq))
SumCount(sq) == IF sq = <<>> THEN 0 ELSE Head(sq).count + SumCount(Tail(sq))

Init ==
    /\ now = 0 /\ batch = <<>> /\ bstart = -1 /\ bmax = 0 /\ bmin = 0
    /\ slots = [z \in Sizes |-> <<>>] /\ upd = <<>> /\ exported = {} /\ seen = {} /\ nops = 0

Tick == nops < MaxOps /\ nops' = nops + 1 /\ \E d \in Steps : now + d <= MaxTime /\ now' = now + d

(* Compute: one sample observed at the (advanced) clock.                    *)
Compute ==
    /\ Tick
    /\ \E lat \in Lats :
        /\ batch' = Append(batch, [lat |-> lat, at |-> now'])
        /\ seen' = seen \cup {[lat |-> lat, at |-> now']}
        /\ bmax' = IF lat > bmax THEN lat ELSE bmax
        /\ bmin' = IF lat < bmin \/ bmin = 0 THEN lat ELSE bmin
    /\ bstart' = IF bstart = -1 THEN now' ELSE bstart
    /\ UNCHANGED <<slots, upd, exported>>

Slot(t) == [samples |-> batch, start |-> bstart, end |-> t, max |-> bmax, min |-> bmin,
            total |-> SumLat(batch), count |-> Len(batch)]

Keep(s, cutoff) == IF Mutant = "late_slide" THEN s.end >= cutoff ELSE s.end > cutoff

Slide(sq, cutoff) == SelectSeq(sq, LAMBDA s : Keep(s, cutoff))

Stats(z, sq, t) ==
    IF sq = <<>> THEN {}
    ELSE LET total == SumTotal(sq)
             count == SumCount(sq)
             avgu  == Quot(total, count)
             avg   == IF Mutant = "unscaled_avg" THEN avgu ELSE avgu * Prec
             mx    == Max({0} \cup {sq[i].max : i \in 1..Len(sq)})
             mn    == Min({sq[i].min : i \in 1..Len(sq)}) IN
         {[size |-> z, typ |-> "avg", val |-> avg, at |-> t] : x \in IF avgu # 0 THEN {1} ELSE {}} \cup
         {[size |-> z, typ |-> "max", val |-> mx, at |-> t] : x \in IF mx # 0 THEN {1} ELSE {}} \cup
         {[size |-> z, typ |-> "min", val |-> mn, at |-> t] : x \in IF mn # 0 THEN {1} ELSE {}}

(* Update: close the batch, slide every window, export.  (The initial       *)
(* coverage rule - nothing is exported before a window has been observed    *)
(* for its whole size - only delays exports and is left out of the model.)  *)
Update ==
    /\ Tick
    /\ LET t  == now'
           s2 == [z \in Sizes |-> IF batch = <<>> THEN slots[z] ELSE Append(slots[z], Slot(t))]
           s3 == [z \in Sizes |-> Slide(s2[z], t - z)] IN
       /\ slots' = s3
       /\ exported' = UNION {Stats(z, s3[z], t) : z \in Sizes}
    /\ batch' = <<>> /\ bstart' = now'
    /\ bmax' = IF Mutant = "no_reset" THEN bmax ELSE 0
    /\ bmin' = IF Mutant = "no_reset" THEN bmin ELSE 0
    /\ upd' = Append(upd, now')
    /\ UNCHANGED seen

Next == Compute \/ Update
Spec == Init /\ [][Next]_vars

---------------------------------------------------------------------------
(* The property, over samples (the history variable seen), independent of  *)
(* how the implementation groups them.                                      *)

(* the update that precedes (or is at) time x; 0 if none                    *)
PrevUpd(x) == LET c == {upd[i] : i \in 1..Len(upd)} \cap (0..(IF x < 0 THEN 0 ELSE x)) IN
              IF c = {} THEN 0 ELSE Max(c)

(* observed inside the window (t - z, t] ...                                 *)
In(z, t) == {s \in seen : s.at > t - z /\ s.at <= t}
(* ... or, at the granularity of the update calls, not before the update     *)
(* that precedes the window's left edge                                      *)
Near(z, t) == {s \in seen : s.at >= PrevUpd(t - z) /\ s.at <= t}

Bounded ==
    \A e \in exported :
        LET S == {s.lat : s \in Near(e.size, e.at)} IN
        /\ S # {}
        /\ IF e.typ = "avg" THEN e.val > Min(S) - Prec /\ e.val < Max(S) + Prec
                            ELSE e.val >= Min(S) /\ e.val <= Max(S)

AllSamples(z) == UNION {{slots[z][i].samples[j] : j \in 1..Len(slots[z][i].samples)} : i \in 1..Len(slots[z])}

(* right after an Update the samples accounted to a window are all of In and *)
(* nothing outside Near                                                      *)
Window ==
    (upd # <<>> /\ now = upd[Len(upd)] /\ batch = <<>>) =>
        \A z \in Sizes : In(z, now) \subseteq AllSamples(z) /\ AllSamples(z) \subseteq Near(z, now)

TypeOK == now \in 0..MaxTime /\ bstart \in -1..MaxTime
=============================================================================
