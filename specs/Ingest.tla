--------------------------------- MODULE Ingest ---------------------------------
(***************************************************************************)
(* C12 - no message from a remote peer can crash a process.                *)
(* This specification is a generator and a contract.  A message is         *)
(* described by shape features; TLC enumerates the complete lattice of     *)
(* shapes (x cache state classes) and prints every tuple as a JSON test    *)
(* vector (one initial state per vector).  The driver materialises each    *)
(* vector as real protobuf messages, feeds them to the real entry points   *)
(* under recover(), and records the outcome and the cache content before   *)
(* and after; IngestTrace holds the recorded outcomes to the contract:     *)
(*     outcome \in {"ok", "error"}     (never "panic")                     *)
(*     outcome = "error" => content unchanged   (for a message carrying a  *)
(*     single update or delete, or an atomic group: a notification with    *)
(*     several updates is applied one at a time and may be refused in part)*)
(***************************************************************************)
EXTENDS Naturals, Sequences, TLC, Json

CONSTANT Family      \* "noti" | "subreq" | "resp"

(* --- notifications from a target into cache.Cache ----------------------- *)
NPrefix == {"nil", "empty", "target", "target_origin", "target_origin_meta", "target_elems", "target_meta", "target_element"}
NPath   == {"nil", "empty", "meta", "meta_sync", "meta_connected", "meta_connectError", "meta_leaves",
            "normal", "keyed", "glob", "element"}
NVal    == {"nil", "no_arm", "int", "string", "bool", "leaflist", "json", "decimal_nil", "dep_json", "dep_bytes",
            "decimal_big", "leaflist_nested"}
NState  == {"empty", "leaf_int", "leaf_string", "branch_below", "leaf_above", "atomic_at_prefix"}
NotiVectors ==
    [prefix : NPrefix, path : NPath, val : NVal, atomic : BOOLEAN, nup : 0..2, ndel : 0..1,
     ts : {"equal", "newer"}, state : NState]

(* --- subscribe requests from a client into subscribe.Server ------------- *)
SubVectors ==
    [subscribe : {"nil", "empty", "ok"}, prefix : {"nil", "no_target", "unknown_target", "star", "target"},
     mode : {"once", "poll", "stream", "bad"}, subpath : {"none", "nil_path", "empty", "normal", "glob", "origin_both", "origin_prefix_elems"},
     uo : BOOLEAN, first : {"subscribe", "poll"}]

(* --- responses from a server into the client library and the CLI -------- *)
RespVectors ==
    [resp : {"nil_response", "update", "sync", "error"}, prefix : {"nil", "target", "target_origin"},
     upath : {"nil", "empty", "normal", "keyed"},
     val : {"nil", "no_arm", "int", "string", "leaflist", "json_bad", "any", "decimal_nil", "dep_json", "dep_bad", "dep_none",
            \* protobuf-valid but out-of-model field values: what a decoder must not trust
            "decimal_big", "decimal_max", "leaflist_decimal", "leaflist_nested", "leaflist_empty", "double_nan", "uint_max",
            "bytes_empty", "proto_bytes"},
     ndel : 0..1, collide : {"none", "leaf_then_branch", "branch_then_leaf"}]

Vectors == CASE Family = "noti" -> NotiVectors [] Family = "subreq" -> SubVectors [] Family = "resp" -> RespVectors

VARIABLE v
Init == v \in Vectors
Next == UNCHANGED v
Spec == Init /\ [][Next]_v

Emit == PrintT(<<"VEC", ToJson(v)>>)

(* the contract, as evaluated on recorded outcomes by IngestTrace *)
ContractOK(outcome, single, before, after) ==
    /\ outcome \in {"ok", "error"}
    /\ (outcome = "error" /\ single) => before = after
=============================================================================
