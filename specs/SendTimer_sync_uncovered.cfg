SPECIFICATION Spec
CONSTANTS
  MaxItems = 4
  Mutant = "sync_uncovered"
INVARIANTS TimeoutOnlyWhenBlocked
PROPERTIES BlockedSendTimesOut
CHECK_DEADLOCK FALSE
