----------------------------- MODULE PathValueTrace -----------------------------
(* Trace acceptance for path.ToStrings / path.CompletePath / the client query   *)
(* conversion / value.FromScalar, ToScalar, Equal (C19).  Every line is one     *)
(* input with the outputs of the real functions.                                *)
EXTENDS PathValue, Json, IOUtils

VARIABLE l
Trace == ndJsonDeserialize(IOEnv.TRACE)
tvars == <<l, dummy>>
Ev == Trace[l]
St(name) == l <= Len(Trace) /\ Trace[l].ev = name /\ l' = l + 1 /\ UNCHANGED dummy

TInit == l = 1 /\ dummy = 0 /\ TLCSet(1, 1)

(* the same input evaluated many times (fresh maps each time): one value, the operator's *)
TToStrings ==
    /\ St("tostrings")
    /\ (\A i \in 1..Len(Ev.outs) : Ev.outs[i] = ToStrings(Ev.path, Ev.prefix)) = TRUE

TComplete ==
    /\ St("complete")
    /\ IF CompleteOK(Ev.prefix, Ev.path)
       THEN Ev.res = "ok" /\ (\A i \in 1..Len(Ev.outs) : Ev.outs[i] = CompletePath(Ev.prefix, Ev.path)) = TRUE
       ELSE Ev.res = "err"

(* plain query elements reach the server indexed as the same elements *)
TQuery == St("query") /\ Ev.res = "ok" /\ Ev.out = Ev.elems

(* Go scalar -> TypedValue -> Go scalar: arm and kind by the map, payload token preserved *)
TScalar ==
    /\ St("scalar")
    /\ IF ArmOf(Ev.kind) = "unsupported" THEN Ev.res = "err"
       ELSE /\ Ev.res = "ok" /\ Ev.arm = ArmOf(Ev.kind) /\ Ev.back_kind = BackKind(Ev.arm) /\ Ev.back_tok = Ev.tok

(* equality is total (never panics), symmetric, and never reports two different values equal *)
TEqual ==
    /\ St("equal")
    /\ Ev.ab \in {"true", "false"} /\ Ev.ba = Ev.ab
    /\ (Ev.ab = "true" => Ev.a = Ev.b) = TRUE

TNext == TToStrings \/ TComplete \/ TQuery \/ TScalar \/ TEqual
TSpec == TInit /\ [][TNext]_tvars

Track == IF l > TLCGet(1) THEN TLCSet(1, l) ELSE TRUE
TraceAccepted ==
    /\ PrintT(<<"HWM", TLCGet(1) - 1, Len(Trace)>>)
    /\ TLCGet(1) = Len(Trace) + 1
=============================================================================
