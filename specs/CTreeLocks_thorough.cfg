SPECIFICATION Spec
CONSTANTS
  Procs = {1, 2, 3}
  MaxN = 10
  Menu <- FullMenu
  InitTrees <- Trees
  Mutant = "none"
INVARIANTS Refines PrefixFreeAbs NoRace Exclusive NoPhantom
PROPERTIES Terminates
