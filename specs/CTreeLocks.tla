----------------------------- MODULE CTreeLocks -----------------------------
(***************************************************************************)
(* Lock-level model of ctree.Tree (property C10): one sync.RWMutex per     *)
(* node, the hand-over-hand descent of Add/Get/Query that keeps the read   *)
(* locks of all ancestors until it returns, the reader -> writer exchange  *)
(* of intermediateAdd with the re-check in slowAdd, terminalAdd, the       *)
(* deletes that take the root write lock and then lock every node they     *)
(* inspect, and the operations on retained leaf handles (Leaf.Value,       *)
(* Leaf.Update) that lock the leaf node only.                              *)
(*                                                                         *)
(* sync.RWMutex is modelled with writer preference as Go implements it:    *)
(* a writer first announces itself (ann), which blocks new readers, and    *)
(* is granted the lock (wr) when the readers have drained.                 *)
(*                                                                         *)
(* What TLC decides here, for every interleaving of a few operations:      *)
(*   Refines   - the content reachable from the root equals an abstract    *)
(*               path map (abs) that every operation updates atomically    *)
(*               at one point inside its interval: the tree is             *)
(*               linearizable with respect to CTree.tla's Add/Delete/      *)
(*               handle update (no lost add, no add into a detached        *)
(*               subtree, prefix-freeness kept);                           *)
(*   NoRace    - no field of a node is read while another process holds    *)
(*               the node's write lock, nor written while another process  *)
(*               holds any lock on it;                                     *)
(*   deadlock  - every operation returns (TLC's deadlock check: the only   *)
(*               terminal states are those where all processes are done).  *)
(*                                                                         *)
(* Mutant selects a seeded design error; each must produce a counter-      *)
(* example (vacuity guard).                                                *)
(***************************************************************************)
EXTENDS Naturals, Sequences, FiniteSets, TLC

CONSTANTS Procs,      \* process ids (naturals 1..P)
          MaxN,       \* size of the node pool
          Menu,       \* set of operations a process may be given
          InitTrees,  \* set of initial contents: sets of <<path, value>>
          Mutant      \* "none" | "no_recheck" | "early_release" | "visitor_value" | "delete_no_node_locks" | "terminal_check_unlocked" | "delete_empty_check_unlocked"

Names  == {"a", "b", "c"}
Nodes  == 1..MaxN
Root   == 1
NoVal  == "-"

VARIABLES kind,   \* node -> "free" | "nil" | "leaf" | "branch"
          val,    \* node -> value of a leaf
          kids,   \* node -> [Names -> node or 0]
          rd,     \* node -> [Procs -> number of read locks held]
          ann,    \* node -> announced writer or 0
          wr,     \* node -> writer holding the lock or 0
          pr,     \* process -> record (program counter, operation, locks held)
          abs,    \* abstract content: set of <<path, value>>
          raced   \* a conflicting unsynchronised access has happened

vars == <<kind, val, kids, rd, ann, wr, pr, abs, raced>>

---------------------------------------------------------------------------
(* RWMutex                                                                 *)

CanRLock(n)    == ann[n] = 0
NoReaders(n)   == \A j \in Procs : rd[n][j] = 0
RLock(i, n)    == rd' = [rd EXCEPT ![n][i] = @ + 1]
RUnlockAll(i, ns) == rd' = [n \in Nodes |-> IF n \in ns THEN [rd[n] EXCEPT ![i] = 0] ELSE rd[n]]

ReadRace(i, n)  == \E j \in Procs : j # i /\ wr[n] = j
WriteRace(i, n) == \E j \in Procs : j # i /\ (wr[n] = j \/ rd[n][j] > 0)

---------------------------------------------------------------------------
(* Reachable content                                                       *)

RECURSIVE ReachFrom(_, _)
ReachFrom(n, prefix) ==
    IF kind[n] = "leaf" THEN {<<prefix, val[n]>>}
    ELSE IF kind[n] = "branch"
         THEN UNION {ReachFrom(kids[n][k], Append(prefix, k)) : k \in {x \in Names : kids[n][x] # 0}}
         ELSE {}
Reach == ReachFrom(Root, <<>>)

RECURSIVE NodeAt(_, _)
NodeAt(n, p) == IF p = <<>> THEN n
                ELSE IF kind[n] = "branch" /\ kids[n][Head(p)] # 0 THEN NodeAt(kids[n][Head(p)], Tail(p)) ELSE 0

RECURSIVE Desc(_)
Desc(n) == IF kind[n] = "branch"
           THEN UNION {{kids[n][k]} \cup Desc(kids[n][k]) : k \in {x \in Names : kids[n][x] # 0}}
           ELSE {}

IsPrefix(p, q) == Len(p) <= Len(q) /\ \A k \in 1..Len(p) : p[k] = q[k]

PathOfNode(h) == {pv[1] : pv \in {x \in Reach : NodeAt(Root, x[1]) = h}}

FreeNodes == {n \in Nodes : kind[n] = "free"}

---------------------------------------------------------------------------
(* Initial state: a tree holding the chosen content, every process with    *)
(* one operation of the menu.                                              *)

EmptyKids == [k \in Names |-> 0]

\* Fixed layouts for the initial contents used by the configurations (node 1 root, 2 = a, 3 = a/b, 4 = a/c)
LayoutKind(t) == [n \in Nodes |->
    IF t = {} THEN (IF n = 1 THEN "nil" ELSE "free")
    ELSE IF n = 1 \/ n = 2 THEN "branch"
    ELSE IF n = 3 /\ (\E x \in t : x[1] = <<"a", "b">>) THEN "leaf"
    ELSE IF n = 4 /\ (\E x \in t : x[1] = <<"a", "c">>) THEN "leaf"
    ELSE "free"]
LayoutVal(t) == [n \in Nodes |->
    IF n = 3 /\ (\E x \in t : x[1] = <<"a", "b">>) THEN (CHOOSE x \in t : x[1] = <<"a", "b">>)[2]
    ELSE IF n = 4 /\ (\E x \in t : x[1] = <<"a", "c">>) THEN (CHOOSE x \in t : x[1] = <<"a", "c">>)[2]
    ELSE NoVal]
LayoutKids(t) == [n \in Nodes |->
    IF t = {} THEN EmptyKids
    ELSE IF n = 1 THEN [EmptyKids EXCEPT !["a"] = 2]
    ELSE IF n = 2 THEN [k \in Names |-> IF k = "b" /\ (\E x \in t : x[1] = <<"a", "b">>) THEN 3
                                        ELSE IF k = "c" /\ (\E x \in t : x[1] = <<"a", "c">>) THEN 4 ELSE 0]
    ELSE EmptyKids]

NewProc(o) == [op |-> o.op, path |-> o.path, v |-> o.v, ph |-> "start", cur |-> Root, rest |-> o.path,
               held |-> {}, h |-> 0, todo |-> <<>>, res |-> "-"]

Init ==
    \E t \in InitTrees :
    \E assign \in [Procs -> Menu] :
        /\ \A i, j \in Procs : i < j => assign[i].id <= assign[j].id      \* processes are interchangeable
        /\ kind = LayoutKind(t) /\ val = LayoutVal(t) /\ kids = LayoutKids(t)
        /\ rd = [n \in Nodes |-> [j \in Procs |-> 0]]
        /\ ann = [n \in Nodes |-> 0] /\ wr = [n \in Nodes |-> 0]
        /\ pr = [i \in Procs |-> NewProc(assign[i])]
        /\ abs = t
        /\ raced = FALSE

---------------------------------------------------------------------------
(* Helpers for process steps                                               *)

Set(i, r)  == pr' = [pr EXCEPT ![i] = r]
P(i)       == pr[i]

\* release every lock the process holds (the deferred unlocks of the recursion unwinding)
ReleaseAll(i) ==
    /\ rd'  = [n \in Nodes |-> [rd[n] EXCEPT ![i] = 0]]
    /\ wr'  = [n \in Nodes |-> IF wr[n] = i THEN 0 ELSE wr[n]]
    /\ ann' = [n \in Nodes |-> IF ann[n] = i THEN 0 ELSE ann[n]]

Finish(i, res) ==
    /\ ReleaseAll(i)
    /\ Set(i, [P(i) EXCEPT !.ph = "done", !.held = {}, !.res = res])

\* writer lock: announce, then be granted when the readers have drained
Announce(i, n, next) ==
    /\ ann[n] = 0
    /\ ann' = [ann EXCEPT ![n] = i]
    /\ Set(i, [P(i) EXCEPT !.ph = next])
    /\ UNCHANGED <<kind, val, kids, rd, wr, abs, raced>>
Grant(i, n, next) ==
    /\ ann[n] = i /\ wr[n] = 0 /\ NoReaders(n)
    /\ wr' = [wr EXCEPT ![n] = i]
    /\ Set(i, [P(i) EXCEPT !.ph = next, !.held = @ \cup {n}])
    /\ UNCHANGED <<kind, val, kids, rd, ann, abs, raced>>

\* a chain of fresh nodes for path q ending in a leaf with value v; the first node's id is returned
\* (fresh nodes are taken in increasing order so that allocation adds no nondeterminism)
RECURSIVE ChainNodes(_, _)
ChainNodes(free, k) == IF k = 0 THEN <<>> ELSE
    LET n == CHOOSE x \in free : \A y \in free : x <= y IN <<n>> \o ChainNodes(free \ {n}, k - 1)

---------------------------------------------------------------------------
(* Add(path, v)                                                            *)

AddStart(i) ==
    /\ P(i).op = "add" /\ P(i).ph = "start"
    /\ Set(i, [P(i) EXCEPT !.ph = IF P(i).rest = <<>> THEN (IF Mutant = "terminal_check_unlocked" THEN "t_check" ELSE "t_ann") ELSE "i_rlock"])
    /\ UNCHANGED <<kind, val, kids, rd, ann, wr, abs, raced>>

\* mutant: terminalAdd rejects a branch under the read lock only and does not look again under the write lock
AddTCheck(i) ==
    LET n == P(i).cur IN
    /\ P(i).op = "add" /\ P(i).ph = "t_check"
    /\ CanRLock(n)
    /\ raced' = (raced \/ ReadRace(i, n))
    /\ IF kind[n] = "branch"
       THEN /\ ReleaseAll(i)
            /\ Set(i, [P(i) EXCEPT !.ph = "done", !.held = {}, !.res = "err"])
       ELSE /\ Set(i, [P(i) EXCEPT !.ph = "t_ann"])
            /\ UNCHANGED <<rd, wr, ann>>
    /\ UNCHANGED <<kind, val, kids, abs>>

\* intermediateAdd: read lock, inspect the child
AddILook(i) ==
    LET n == P(i).cur  k == Head(P(i).rest) IN
    /\ P(i).op = "add" /\ P(i).ph = "i_rlock"
    /\ \/ /\ CanRLock(n)
          /\ raced' = (raced \/ ReadRace(i, n))
          /\ IF kind[n] = "leaf"
             THEN /\ ReleaseAll(i)
                  /\ Set(i, [P(i) EXCEPT !.ph = "done", !.held = {}, !.res = "err"])
             ELSE IF kind[n] = "branch" /\ kids[n][k] # 0
             THEN \* descend, keeping the read lock (mutant early_release drops it first)
                  /\ IF Mutant = "early_release" THEN UNCHANGED rd ELSE RLock(i, n)
                  /\ Set(i, [P(i) EXCEPT !.cur = kids[n][k], !.rest = Tail(@), !.ph = "start"])
                  /\ UNCHANGED <<wr, ann>>
             ELSE \* child missing: exchange the read lock for the write lock (released here, re-acquired below)
                  /\ Set(i, [P(i) EXCEPT !.ph = "i_ann"])
                  /\ UNCHANGED <<rd, wr, ann>>
    /\ UNCHANGED <<kind, val, kids, abs>>

AddIAnn(i)   == P(i).op = "add" /\ P(i).ph = "i_ann"   /\ Announce(i, P(i).cur, "i_grant")
AddIGrant(i) == P(i).op = "add" /\ P(i).ph = "i_grant" /\ Grant(i, P(i).cur, "i_slow")

\* slowAdd under the write lock
AddISlow(i) ==
    LET n == P(i).cur  k == Head(P(i).rest)  q == Tail(P(i).rest) IN
    /\ P(i).op = "add" /\ P(i).ph = "i_slow"
    /\ raced' = (raced \/ WriteRace(i, n))
    /\ IF kind[n] = "leaf"
       THEN /\ ReleaseAll(i)
            /\ Set(i, [P(i) EXCEPT !.ph = "done", !.held = {}, !.res = "err"])
            /\ UNCHANGED <<kind, val, kids, abs>>
       ELSE IF kind[n] = "branch" /\ kids[n][k] # 0 /\ Mutant # "no_recheck"
       THEN \* another routine added the branch during the exchange: go on with the normal Add below it
            /\ Set(i, [P(i) EXCEPT !.cur = kids[n][k], !.rest = q, !.ph = "start"])
            /\ UNCHANGED <<kind, val, kids, abs, rd, wr, ann>>
       ELSE \* attach a new chain ending in the leaf
            /\ Cardinality(FreeNodes) >= Len(q) + 1
            /\ LET ch == ChainNodes(FreeNodes, Len(q) + 1) IN
               /\ kind' = [m \in Nodes |->
                     IF m = n THEN "branch"
                     ELSE IF \E x \in 1..Len(ch) : ch[x] = m
                          THEN (IF m = ch[Len(ch)] THEN "leaf" ELSE "branch")
                          ELSE kind[m]]
               /\ val' = [val EXCEPT ![ch[Len(ch)]] = P(i).v]
               /\ kids' = [m \in Nodes |->
                     IF m = n THEN [(IF kind[n] = "branch" THEN kids[n] ELSE EmptyKids) EXCEPT ![k] = ch[1]]
                     ELSE IF \E x \in 1..(Len(ch) - 1) : ch[x] = m
                          THEN LET x == CHOOSE y \in 1..(Len(ch) - 1) : ch[y] = m IN [EmptyKids EXCEPT ![q[x]] = ch[x + 1]]
                          ELSE kids[m]]
               \* linearization point of a successful Add that creates nodes
               /\ abs' = {x \in abs : x[1] # P(i).path} \cup {<<P(i).path, P(i).v>>}
               /\ Set(i, [P(i) EXCEPT !.cur = ch[1], !.rest = q, !.ph = "start"])
            /\ UNCHANGED <<rd, wr, ann>>

\* terminalAdd
AddTAnn(i)   == P(i).op = "add" /\ P(i).ph = "t_ann"   /\ Announce(i, P(i).cur, "t_grant")
AddTGrant(i) == P(i).op = "add" /\ P(i).ph = "t_grant" /\ Grant(i, P(i).cur, "t_write")
AddTWrite(i) ==
    LET n == P(i).cur IN
    /\ P(i).op = "add" /\ P(i).ph = "t_write"
    /\ raced' = (raced \/ WriteRace(i, n))
    /\ IF kind[n] = "branch" /\ Mutant # "terminal_check_unlocked"
       THEN UNCHANGED <<kind, val, abs>>
       ELSE /\ kind' = [kind EXCEPT ![n] = "leaf"]
            /\ val' = [val EXCEPT ![n] = P(i).v]
            \* linearization point of an Add onto an existing position - if the position is still in the tree
            /\ abs' = IF NodeAt(Root, P(i).path) = n
                      THEN {x \in abs : x[1] # P(i).path} \cup {<<P(i).path, P(i).v>>}
                      ELSE abs \cup {<<P(i).path, P(i).v>>}   \* claimed success on a detached node: abs and Reach differ from now on
    /\ ReleaseAll(i)
    /\ Set(i, [P(i) EXCEPT !.ph = "done", !.held = {}, !.res = IF kind[n] = "branch" /\ Mutant # "terminal_check_unlocked" THEN "err" ELSE "ok"])
    /\ UNCHANGED kids

---------------------------------------------------------------------------
(* Get(path) / Query(path) with a literal path: descent with read locks;   *)
(* "upd" and "val" continue with the handle                                *)

Reader(i) == P(i).op \in {"get", "query", "upd", "val"}

ReadStep(i) ==
    LET n == P(i).cur IN
    /\ Reader(i) /\ P(i).ph = "start"
    /\ CanRLock(n)
    /\ raced' = (raced \/ ReadRace(i, n))
    /\ IF P(i).rest = <<>>
       THEN \* arrived
            IF P(i).op = "query" /\ kind[n] = "leaf"
            THEN \* the visitor is called with the leaf's read lock held
                 /\ RLock(i, n)
                 /\ Set(i, [P(i) EXCEPT !.ph = IF Mutant = "visitor_value" THEN "q_value" ELSE "q_ret"])
                 /\ UNCHANGED <<wr, ann>>
            ELSE /\ ReleaseAll(i)
                 /\ Set(i, [P(i) EXCEPT !.h = IF kind[n] = "leaf" THEN n ELSE 0, !.held = {},
                                        !.ph = IF P(i).op \in {"upd", "val"} /\ kind[n] = "leaf" THEN "h_start" ELSE "done"])
       ELSE IF kind[n] = "branch" /\ kids[n][Head(P(i).rest)] # 0
            THEN /\ RLock(i, n)
                 /\ Set(i, [P(i) EXCEPT !.cur = kids[n][Head(P(i).rest)], !.rest = Tail(@)])
                 /\ UNCHANGED <<wr, ann>>
            ELSE /\ ReleaseAll(i)
                 /\ Set(i, [P(i) EXCEPT !.ph = "done", !.held = {}])
    /\ UNCHANGED <<kind, val, kids, abs>>

\* mutant: the visitor calls l.Value(), a second read lock on the node it already holds
QueryValue(i) ==
    /\ P(i).op = "query" /\ P(i).ph = "q_value"
    /\ CanRLock(P(i).cur)
    /\ RLock(i, P(i).cur)
    /\ Set(i, [P(i) EXCEPT !.ph = "q_ret"])
    /\ UNCHANGED <<kind, val, kids, ann, wr, abs, raced>>
QueryRet(i) ==
    /\ P(i).op = "query" /\ P(i).ph = "q_ret"
    /\ ReleaseAll(i)
    /\ Set(i, [P(i) EXCEPT !.ph = "done", !.held = {}])
    /\ UNCHANGED <<kind, val, kids, abs, raced>>

\* operations on the retained handle: Leaf.Value (read lock) and Leaf.Update (write lock) on the leaf node only
HandleValue(i) ==
    /\ P(i).op = "val" /\ P(i).ph = "h_start"
    /\ CanRLock(P(i).h)
    /\ raced' = (raced \/ ReadRace(i, P(i).h))
    /\ Set(i, [P(i) EXCEPT !.ph = "done"])
    /\ UNCHANGED <<kind, val, kids, rd, ann, wr, abs>>
HandleAnn(i)   == P(i).op = "upd" /\ P(i).ph = "h_start" /\ Announce(i, P(i).h, "h_grant")
HandleGrant(i) == P(i).op = "upd" /\ P(i).ph = "h_grant" /\ Grant(i, P(i).h, "h_write")
HandleWrite(i) ==
    LET h == P(i).h IN
    /\ P(i).op = "upd" /\ P(i).ph = "h_write"
    /\ raced' = (raced \/ WriteRace(i, h))
    /\ val' = [val EXCEPT ![h] = P(i).v]
    \* linearization point: visible in the tree only while the leaf is still attached
    /\ abs' = LET ps == PathOfNode(h) IN
              IF ps = {} THEN abs ELSE {x \in abs : x[1] \notin ps} \cup {<<p, P(i).v>> : p \in ps}
    /\ ReleaseAll(i)
    /\ Set(i, [P(i) EXCEPT !.ph = "done", !.held = {}])
    /\ UNCHANGED <<kind, kids>>

---------------------------------------------------------------------------
(* Delete(path): root write lock, then every node on the way and every     *)
(* node inspected is locked (unless the mutant says otherwise)             *)

\* mutant "delete_empty_check_unlocked": "nothing to delete in an empty tree" is decided under the read lock, before the
\* write lock is taken, and not looked at again (seeded change C10-5)
DelPre(i) ==
    /\ P(i).op = "del" /\ P(i).ph = "start" /\ Mutant = "delete_empty_check_unlocked"
    /\ CanRLock(Root)
    /\ raced' = (raced \/ ReadRace(i, Root))
    /\ IF kind[Root] = "nil"
       THEN /\ ReleaseAll(i) /\ Set(i, [P(i) EXCEPT !.ph = "done", !.held = {}, !.res = "none"])
       ELSE /\ Set(i, [P(i) EXCEPT !.ph = "d_ann"]) /\ UNCHANGED <<rd, wr, ann>>
    /\ UNCHANGED <<kind, val, kids, abs>>
DelAnn(i)   == /\ P(i).op = "del"
               /\ IF Mutant = "delete_empty_check_unlocked" THEN P(i).ph = "d_ann" ELSE P(i).ph = "start"
               /\ Announce(i, Root, "d_grant")
DelGrant(i) == P(i).op = "del" /\ P(i).ph = "d_grant" /\ Grant(i, Root, "d_walk")

\* the nodes still to lock and inspect: the node addressed and its descendants, top down
RECURSIVE SeqOfSet(_)
SeqOfSet(S) == IF S = {} THEN <<>> ELSE LET n == CHOOSE x \in S : \A y \in S : x <= y IN <<n>> \o SeqOfSet(S \ {n})

DelWalk(i) ==
    LET n == P(i).cur IN
    /\ P(i).op = "del" /\ P(i).ph = "d_walk"
    /\ raced' = (raced \/ ReadRace(i, n))
    /\ IF kind[n] = "nil"
       THEN \* an empty tree: nothing to delete - the mutant, past its check, takes the empty root for a leaf and reports it
            Finish(i, IF Mutant = "delete_empty_check_unlocked" /\ n = Root /\ P(i).path = <<>> THEN "phantom" ELSE "none")
            /\ UNCHANGED <<kind, val, kids, abs>>
       ELSE IF P(i).rest = <<>>
       THEN \* the node addressed: inspect its descendants one by one
            /\ Set(i, [P(i) EXCEPT !.todo = SeqOfSet(Desc(n)), !.ph = "d_inspect"])
            /\ UNCHANGED <<kind, val, kids, abs, rd, wr, ann>>
       ELSE IF kind[n] = "branch" /\ kids[n][Head(P(i).rest)] # 0
       THEN /\ Set(i, [P(i) EXCEPT !.cur = kids[n][Head(P(i).rest)], !.rest = Tail(@),
                                   !.ph = IF Mutant = "delete_no_node_locks" THEN "d_walk" ELSE "d_nann"])
            /\ UNCHANGED <<kind, val, kids, abs, rd, wr, ann>>
       ELSE Finish(i, "none") /\ UNCHANGED <<kind, val, kids, abs>>

DelNAnn(i)   == P(i).op = "del" /\ P(i).ph = "d_nann"   /\ Announce(i, P(i).cur, "d_ngrant")
DelNGrant(i) == P(i).op = "del" /\ P(i).ph = "d_ngrant" /\ Grant(i, P(i).cur, "d_walk")

\* lock the next descendant, look at it, unlock it
DelInspect(i) ==
    /\ P(i).op = "del" /\ P(i).ph = "d_inspect"
    /\ IF P(i).todo = <<>>
       THEN Set(i, [P(i) EXCEPT !.ph = "d_detach"]) /\ UNCHANGED <<ann, raced>>
       ELSE IF Mutant = "delete_no_node_locks"
            THEN /\ raced' = (raced \/ ReadRace(i, Head(P(i).todo)))
                 /\ Set(i, [P(i) EXCEPT !.todo = Tail(@)])
                 /\ UNCHANGED ann
            ELSE /\ ann[Head(P(i).todo)] = 0
                 /\ ann' = [ann EXCEPT ![Head(P(i).todo)] = i]
                 /\ Set(i, [P(i) EXCEPT !.ph = "d_igrant"])
                 /\ UNCHANGED raced
    /\ UNCHANGED <<kind, val, kids, rd, wr, abs>>
DelIGrant(i) ==
    LET m == Head(P(i).todo) IN
    /\ P(i).op = "del" /\ P(i).ph = "d_igrant"
    /\ ann[m] = i /\ wr[m] = 0 /\ NoReaders(m)
    \* lock, read, unlock in one step: nothing else can touch the node in between
    /\ ann' = [ann EXCEPT ![m] = 0]
    /\ raced' = (raced \/ ReadRace(i, m))
    /\ Set(i, [P(i) EXCEPT !.todo = Tail(@), !.ph = "d_inspect"])
    /\ UNCHANGED <<kind, val, kids, rd, wr, abs>>

\* remove the addressed node from its parent, prune emptied ancestors, empty root becomes nil
RECURSIVE AtK(_, _, _)
AtK(ks, n, q) == IF q = <<>> THEN n ELSE AtK(ks, ks[n][Head(q)], Tail(q))
RECURSIVE Prune(_, _, _)
Prune(kd, ks, p) ==   \* p: path of the node to detach; returns <<kind, kids>>
    IF p = <<>> THEN <<[kd EXCEPT ![Root] = "nil"], [ks EXCEPT ![Root] = EmptyKids]>>
    ELSE LET par == SubSeq(p, 1, Len(p) - 1)
             pn  == AtK(ks, Root, par)
             ks2 == [ks EXCEPT ![pn][p[Len(p)]] = 0]
         IN IF \A k \in Names : ks2[pn][k] = 0 THEN Prune(kd, ks2, par) ELSE <<kd, ks2>>

DelDetach(i) ==
    /\ P(i).op = "del" /\ P(i).ph = "d_detach"
    /\ raced' = (raced \/ WriteRace(i, Root))
    /\ LET r == Prune(kind, kids, P(i).path) IN
       /\ kind' = r[1] /\ kids' = r[2]
    \* linearization point of the delete
    /\ abs' = {x \in abs : ~IsPrefix(P(i).path, x[1])}
    /\ UNCHANGED val
    /\ Finish(i, "ok")

---------------------------------------------------------------------------

Step(i) ==
    \/ AddStart(i) \/ AddILook(i) \/ AddIAnn(i) \/ AddIGrant(i) \/ AddISlow(i)
    \/ AddTCheck(i) \/ AddTAnn(i) \/ AddTGrant(i) \/ AddTWrite(i)
    \/ ReadStep(i) \/ QueryValue(i) \/ QueryRet(i)
    \/ HandleValue(i) \/ HandleAnn(i) \/ HandleGrant(i) \/ HandleWrite(i)
    \/ DelPre(i) \/ DelAnn(i) \/ DelGrant(i) \/ DelWalk(i) \/ DelNAnn(i) \/ DelNGrant(i)
    \/ DelInspect(i) \/ DelIGrant(i) \/ DelDetach(i)

AllDone == \A i \in Procs : pr[i].ph = "done"

Next == (\E i \in Procs : Step(i)) \/ (AllDone /\ UNCHANGED vars)

Spec == Init /\ [][Next]_vars /\ \A i \in Procs : WF_vars(Step(i))

---------------------------------------------------------------------------
(* Properties                                                              *)

DeleteInFlight == \E i \in Procs : pr[i].op = "del" /\ wr[Root] = i

\* the tree the other operations can see is the abstract map (refinement of CTree.tla's content)
Refines == ~DeleteInFlight => Reach = abs

PrefixFreeAbs == \A x, y \in abs : x # y => ~IsPrefix(x[1], y[1])

NoRace == ~raced

\* a delete reports only what it removed (nothing, in a tree that is empty when it takes effect)
NoPhantom == \A i \in Procs : pr[i].res # "phantom"

\* a writer holds the lock alone
Exclusive == \A n \in Nodes : wr[n] # 0 => \A j \in Procs : j # wr[n] => rd[n][j] = 0

Terminates == <>AllDone

=============================================================================
