------------------------------ MODULE LatencyMC ------------------------------
(* Constant sets for the bounded configurations of Latency.tla (a cfg file  *)
(* cannot spell negative numbers).                                           *)
EXTENDS Latency
LatsSmall == {-3, 0, 5}
LatsPrec  == {-9, 6, 13}
=============================================================================
