SPECIFICATION Spec
CONSTANTS
  MaxSessions = 3
  MaxMsgs = 2
  Mutant = "none"
INVARIANTS Discipline SilenceAfterRemove
CHECK_DEADLOCK FALSE
PROPERTIES RemoveTerminates Retried
