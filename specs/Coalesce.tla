------------------------------- MODULE Coalesce -------------------------------
(***************************************************************************)
(* Sequential specification of coalesce.Queue (C11): items are delivered   *)
(* in the order of their first pending insertion; an item inserted again   *)
(* while pending is not duplicated but delivered once with the number of   *)
(* extra insertions; after Close insertions are refused and the consumer   *)
(* is told "closed" only once the queue is empty.                          *)
(***************************************************************************)
EXTENDS Common, TLC

CONSTANTS Items, MaxOps

VARIABLES queue,     \* sequence of distinct pending items
          dup,       \* pending item |-> number of extra insertions
          closed,
          nops, out,
          ins, del   \* ghosts: successful insertions / deliveries incl. duplicates

vars == <<queue, dup, closed, nops, out, ins, del>>

Pending(q) == SeqToSet(q)

(* Result and successor of each call, as operators (shared with the trace  *)
(* specifications).                                                         *)
InsertRes(q, c, i)  == IF c THEN "refused" ELSE IF i \in Pending(q) THEN "coalesced" ELSE "fresh"
InsertQ(q, c, i)    == IF c \/ i \in Pending(q) THEN q ELSE Append(q, i)
InsertDup(q, d, c, i) ==
    IF c THEN d
    ELSE IF i \in Pending(q) THEN [d EXCEPT ![i] = @ + 1]
    ELSE [x \in DOMAIN d \cup {i} |-> IF x = i THEN 0 ELSE d[x]]

NextKind(q, c) == IF q # <<>> THEN "item" ELSE IF c THEN "closed" ELSE "empty"
DropKey(d, i)  == [x \in DOMAIN d \ {i} |-> d[x]]

Init == queue = <<>> /\ dup = <<>> /\ closed = FALSE /\ nops = 0 /\ out = [op |-> "init"] /\ ins = 0 /\ del = 0

Bound == nops < MaxOps /\ nops' = nops + 1

Insert(i) ==
    /\ Bound
    /\ queue' = InsertQ(queue, closed, i)
    /\ dup' = InsertDup(queue, dup, closed, i)
    /\ ins' = IF closed THEN ins ELSE ins + 1
    /\ out' = [op |-> "Insert", i |-> i, res |-> InsertRes(queue, closed, i)]
    /\ UNCHANGED <<closed, del>>

Next ==
    /\ Bound
    /\ IF queue # <<>>
       THEN /\ queue' = Tail(queue)
            /\ dup' = DropKey(dup, Head(queue))
            /\ del' = del + 1 + dup[Head(queue)]
            /\ out' = [op |-> "Next", kind |-> "item", i |-> Head(queue), dup |-> dup[Head(queue)]]
       ELSE /\ UNCHANGED <<queue, dup, del>>
            /\ out' = [op |-> "Next", kind |-> NextKind(queue, closed)]
    /\ UNCHANGED <<closed, ins>>

Close ==
    /\ Bound /\ closed' = TRUE /\ out' = [op |-> "Close"]
    /\ UNCHANGED <<queue, dup, ins, del>>

Step == (\E i \in Items : Insert(i)) \/ Next \/ Close
Spec == Init /\ [][Step]_vars

---------------------------------------------------------------------------
TypeOK == NoDup(queue) /\ DOMAIN dup = Pending(queue)

(* Conservation: every successful insertion is either delivered (as a      *)
(* delivery or as a counted duplicate) or still pending.                    *)
RECURSIVE SumDup(_, _)
SumDup(q, d) == IF q = <<>> THEN 0 ELSE 1 + d[Head(q)] + SumDup(Tail(q), d)
Conservation == ins = del + SumDup(queue, dup)

(* "closed" is reported only when nothing is pending.                      *)
ClosedOnlyWhenDrained == (out.op = "Next" /\ out.kind = "closed") => queue = <<>> /\ closed

(* FIFO by first pending insertion: an item is appended, never moved.      *)
FifoStable ==
    [][\A k \in 1..Len(queue) : queue[k] \in Pending(queue') =>
          \E j \in 1..Len(queue') : queue'[j] = queue[k] /\
             \A k2 \in 1..(k-1) : queue[k2] \in Pending(queue') =>
                \E j2 \in 1..(j-1) : queue'[j2] = queue[k2]]_vars

RefusedAfterClose == [][(closed /\ out'.op = "Insert") => out'.res = "refused" /\ queue' = queue]_vars
=============================================================================
