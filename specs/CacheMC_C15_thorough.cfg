SPECIFICATION Spec
CONSTANTS
  Targets = {"t1"}
  UPaths <- U2
  DPaths <- D2
  APaths <- A0
  Vals = {"v1", "v2"}
  MaxTs = 2
  Thr = 1
  ED = TRUE
  Acts = {"upd", "del", "life", "reset", "export", "tick"}
  Mutant = "none"
  MaxOps = 5
VIEW View
INVARIANTS MirrorInv CountersInv StructInv LatestInv
PROPERTIES ResetClears
CHECK_DEADLOCK FALSE
