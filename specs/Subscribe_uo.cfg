SPECIFICATION Spec
CONSTANTS
  Paths = {"p1", "p2"}
  Vals = {1, 2}
  MaxOps = 4
  UpdatesOnly = TRUE
  Mutant = "none"
INVARIANTS UOSyncFirst Backlog Converge NoLostUpdate SyncAfterSnapshot
CHECK_DEADLOCK FALSE
PROPERTIES EventuallySynced EventuallyConverged
