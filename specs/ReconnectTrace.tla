---------------------------- MODULE ReconnectTrace ----------------------------
(***************************************************************************)
(* Acceptance of recorded executions of client.Reconnect(BaseClient) (C18) *)
(* with a scripted Impl or the real gnmi Impl against a scripted server.   *)
(* Events: inv/ret of Subscribe and Close, the disconnect (D) and reset    *)
(* (R) callbacks, "attempt" (a new inner client is being created), "noti"  *)
(* (a notification handed to the application: kind, message id), "hang"    *)
(* (a call or a retry overdue - accepted by no action).                    *)
(*   - callbacks: D and R alternate, starting with D; Subscribe returns    *)
(*     right after a D (one disconnect per ended attempt, one reset before *)
(*     each retry); a client that has not been closed keeps resubscribing: *)
(*     Subscribe (whose context is never cancelled here) does not return   *)
(*     before Close has been called or its own context is done;            *)
(*   - on every stream Connected precedes all other notifications (a       *)
(*     stream starts at "attempt"); update ids increase along a stream;    *)
(*   - after Close returned, at most the notifications of one further      *)
(*     message reach the application;                                      *)
(*   - a Subscribe on a client that has been closed returns (the driver    *)
(*     logs a "hang" otherwise), after one disconnect callback.            *)
(***************************************************************************)
EXTENDS Naturals, Sequences, FiniteSets, TLC, Json, IOUtils

VARIABLES l, word, sub, closeRet, connected, lastId, after,   \* after: ids of messages delivered after Close returned
          closeInv                                              \* Close has been called

Trace == ndJsonDeserialize(IOEnv.TRACE)
tvars == <<l, word, sub, closeRet, connected, lastId, after, closeInv>>
Ev == Trace[l]
St(name) == l <= Len(Trace) /\ Trace[l].ev = name /\ l' = l + 1

TInit == l = 1 /\ word = "start" /\ sub = "idle" /\ closeRet = FALSE /\ connected = FALSE /\ lastId = 0 /\ after = {} /\ closeInv = FALSE /\ TLCSet(1, 1)

TReset ==
    /\ St("reset")
    /\ word' = "start" /\ sub' = "idle" /\ closeRet' = FALSE /\ connected' = FALSE /\ lastId' = 0 /\ after' = {} /\ closeInv' = FALSE

TInv ==
    /\ St("inv")
    /\ sub' = IF Ev.op = "Subscribe" THEN "running" ELSE sub
    /\ word' = IF Ev.op = "Subscribe" THEN "start" ELSE word      \* every Subscribe call has its own callback word
    /\ closeInv' = (closeInv \/ Ev.op = "Close")
    /\ UNCHANGED <<closeRet, connected, lastId, after>>

TRet ==
    /\ St("ret")
    /\ IF Ev.op = "Subscribe"
       THEN /\ sub = "running" /\ word = "D" /\ closeInv
            /\ sub' = "returned" /\ UNCHANGED closeRet
       ELSE /\ closeRet' = TRUE /\ UNCHANGED sub
    /\ UNCHANGED <<word, connected, lastId, after, closeInv>>

TCb ==
    /\ St("cb") /\ sub = "running"
    /\ word' = (IF Ev.k = "D" THEN (IF word \in {"start", "R"} THEN "D" ELSE "bad")
                ELSE (IF word = "D" THEN "R" ELSE "bad"))
    /\ word' # "bad"
    /\ UNCHANGED <<sub, closeRet, connected, lastId, after, closeInv>>

TAttempt ==
    /\ St("attempt")
    /\ connected' = FALSE /\ lastId' = 0
    /\ UNCHANGED <<word, sub, closeRet, after, closeInv>>

TNoti ==
    /\ St("noti")
    /\ IF Ev.k = "connected" THEN ~connected /\ connected' = TRUE /\ UNCHANGED lastId
       ELSE /\ connected /\ UNCHANGED connected
            /\ IF Ev.k = "update" THEN Ev.id > lastId /\ lastId' = Ev.id ELSE UNCHANGED lastId
    /\ after' = IF closeRet THEN after \cup {Ev.msg} ELSE after
    /\ Cardinality(after') <= 1
    /\ UNCHANGED <<word, sub, closeRet, closeInv>>

(* the context handed to Subscribe is done (deadline): as good as a Close for the Subscribe in progress *)
TCtxDone == St("ctxdone") /\ closeInv' = TRUE /\ UNCHANGED <<word, sub, closeRet, connected, lastId, after>>

TSrv == St("srv") /\ UNCHANGED <<word, sub, closeRet, connected, lastId, after, closeInv>>
TFinal == St("final") /\ sub \in {"idle", "returned"} /\ UNCHANGED <<word, sub, closeRet, connected, lastId, after, closeInv>>

TNext == TReset \/ TCtxDone \/ TInv \/ TRet \/ TCb \/ TAttempt \/ TNoti \/ TSrv \/ TFinal
TSpec == TInit /\ [][TNext]_tvars

Track == IF l > TLCGet(1) THEN TLCSet(1, l) ELSE TRUE
TraceAccepted ==
    /\ PrintT(<<"HWM", TLCGet(1) - 1, Len(Trace)>>)
    /\ TLCGet(1) = Len(Trace) + 1
=============================================================================
