---------------------------- MODULE CacheLatTrace ----------------------------
(***************************************************************************)
(* C15, latency clause at the level of the cache.  A cache with latency    *)
(* windows, a manual clock, one target.  Events:                           *)
(*   latcfg   a new scenario                                               *)
(*   latop    a call: update (lat = clock - timestamp of the update, in    *)
(*            microseconds; res), sync, connect, reset                     *)
(*   refresh  the periodic metadata refresh and the latency leaves the     *)
(*            cache exports afterwards (window, statistic, value in        *)
(*            microseconds)                                                *)
(* The only latency samples there may be are those of the target's own     *)
(* updates accepted while the target was in sync (the implementation may   *)
(* leave some of them out - an update suppressed as a repetition, say).    *)
(* Whatever a window's statistics are computed from, every exported        *)
(* average, maximum and minimum therefore lies between the smallest and    *)
(* the largest of those latencies, and nothing is exported before there    *)
(* has been one.  (The window arithmetic itself is decided on              *)
(* latency.Latency by Latency.tla / LatencyTrace.tla.)                     *)
(***************************************************************************)
EXTENDS Integers, Sequences, FiniteSets, TLC, Json, IOUtils

VARIABLES l, synced, cands

Trace == ndJsonDeserialize(IOEnv.TRACE)
tvars == <<l, synced, cands>>
Ev == Trace[l]
St(name) == l <= Len(Trace) /\ Trace[l].ev = name /\ l' = l + 1

SetMin(S) == CHOOSE x \in S : \A y \in S : x <= y
SetMax(S) == CHOOSE x \in S : \A y \in S : x >= y

TInit == l = 1 /\ synced = FALSE /\ cands = {} /\ TLCSet(1, 1)

TCfg == St("latcfg") /\ synced' = FALSE /\ cands' = {}

TOp ==
    /\ St("latop")
    /\ synced' = IF Ev.op = "sync" THEN TRUE ELSE IF Ev.op = "reset" THEN FALSE ELSE synced
    /\ cands' = IF Ev.op = "update" /\ Ev.res = "ok" /\ synced THEN cands \cup {Ev.lat} ELSE cands

Bounded(e) == cands # {} /\ e.val >= SetMin(cands) /\ e.val <= SetMax(cands)

TRefresh ==
    /\ St("refresh")
    /\ (\A i \in 1..Len(Ev.exports) : Bounded(Ev.exports[i])) = TRUE
    /\ UNCHANGED <<synced, cands>>

TNext == TCfg \/ TOp \/ TRefresh
TSpec == TInit /\ [][TNext]_tvars

Track == IF l > TLCGet(1) THEN TLCSet(1, l) ELSE TRUE
TraceAccepted ==
    /\ PrintT(<<"HWM", TLCGet(1) - 1, Len(Trace)>>)
    /\ TLCGet(1) = Len(Trace) + 1
=============================================================================
