SPECIFICATION LSpec
CONSTANTS
  Items = {"a"}
  MaxOps = 1
CONSTRAINT Track
POSTCONDITION TraceAccepted
CHECK_DEADLOCK FALSE
