SPECIFICATION Spec
CONSTANTS
  TNames = {"t1", "t2"}
  RNames = {"r1", "r2"}
  Contents = {"c1", "c2"}
  MaxRev = 2
  MaxLoads = 2
INVARIANTS ReplayEqualsCurrent CurrentValid
PROPERTIES Monotonic RejectedSilent NoCallForUnchanged
CHECK_DEADLOCK FALSE
