SPECIFICATION Spec
CONSTANTS
  Paths = {"p1", "p2"}
  Vals = {1, 2}
  MaxOps = 4
  UpdatesOnly = FALSE
  Mutant = "register_after_walk"
INVARIANTS Converge NoLostUpdate SyncAfterSnapshot Backlog
CHECK_DEADLOCK FALSE
