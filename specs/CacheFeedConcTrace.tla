-------------------------- MODULE CacheFeedConcTrace --------------------------
(***************************************************************************)
(* C03 between quiescent points: several writers update ONE target at the   *)
(* same time (update notifications only), the driver placing the calls so   *)
(* that a writer's feed callback is delayed past other writers' whole calls *)
(* (hook cache feed.before).  The change-feed callback records, under one   *)
(* lock, what the handed leaf holds at that moment; when all writers have   *)
(* returned the cache is read back.                                         *)
(*   fsc    a new scenario (fresh cache)                                    *)
(*   fw     a writer's notification (its updates: path, timestamp, value)   *)
(*   fcb    one feed entry, in the order the callback took them             *)
(*   fret   a writer's call returned                                        *)
(*   fq     quiescent point: the non-metadata leaves Query returns          *)
(* Replaying the feed entries in order must give exactly what is read back  *)
(* (values; timestamps too when every written value is distinct, so that    *)
(* nothing can have been suppressed), every entry must carry something a    *)
(* writer wrote, and - nothing being suppressed - every accepted single     *)
(* update has its own entry.                                                *)
(***************************************************************************)
EXTENDS Integers, Sequences, FiniteSets, TLC, Json, IOUtils

VARIABLES l, view, written, okS, multi, cbs, pendW
Trace == ndJsonDeserialize(IOEnv.TRACE)
tvars == <<l, view, written, okS, multi, cbs, pendW>>
Ev == Trace[l]
St(name) == l <= Len(Trace) /\ Trace[l].ev = name /\ l' = l + 1

Put(f, k, v) == [x \in DOMAIN f \cup {k} |-> IF x = k THEN v ELSE f[x]]
Get(f, k) == IF k \in DOMAIN f THEN f[k] ELSE 0
Drop(f, ks) == [x \in DOMAIN f \ ks |-> f[x]]
Ups(e) == {e.ups[i] : i \in 1..Len(e.ups)}

TInit == l = 1 /\ view = <<>> /\ written = {} /\ okS = <<>> /\ multi = <<>> /\ cbs = <<>> /\ pendW = <<>> /\ TLCSet(1, 1)

TScen == St("fsc") /\ view' = <<>> /\ written' = {} /\ okS' = <<>> /\ multi' = <<>> /\ cbs' = <<>> /\ pendW' = <<>>

(* a writer is about to call GnmiUpdate                                      *)
TWrite ==
    /\ St("fw")
    /\ written' = written \cup {<<u.p, u.ts, u.v>> : u \in Ups(Ev)}
    /\ pendW' = Put(pendW, Ev.w, Ev)
    /\ multi' = IF Len(Ev.ups) > 1 \/ Len(Ev.dels) > 0
                THEN [x \in DOMAIN multi \cup {u.p : u \in Ups(Ev)} |-> Get(multi, x) + Cardinality({u \in Ups(Ev) : u.p = x})]
                ELSE multi
    /\ UNCHANGED <<view, okS, cbs>>

TRet ==
    /\ St("fret") /\ Ev.w \in DOMAIN pendW
    /\ LET e == pendW[Ev.w] IN
       okS' = IF Len(e.ups) = 1 /\ Len(e.dels) = 0 /\ Ev.res = "ok"
              THEN Put(okS, e.ups[1].p, Get(okS, e.ups[1].p) + 1) ELSE okS
    /\ UNCHANGED <<view, written, multi, cbs, pendW>>

(* one feed entry                                                            *)
TCb ==
    /\ St("fcb")
    /\ IF Ev.del
       THEN /\ view' = Drop(view, {Ev.p})
            /\ UNCHANGED cbs
       ELSE /\ (<<Ev.p, Ev.ts, Ev.v>> \in written) = TRUE          \* nothing no writer wrote
            /\ view' = Put(view, Ev.p, [ts |-> Ev.ts, v |-> Ev.v])
            /\ cbs' = Put(cbs, Ev.p, Get(cbs, Ev.p) + 1)
    /\ UNCHANGED <<written, okS, multi, pendW>>

(* all writers have returned: what the cache holds                           *)
TQuiet ==
    /\ St("fq")
    /\ LET got == [p \in {Ev.leaves[i].p : i \in 1..Len(Ev.leaves)} |->
                      LET i == CHOOSE j \in 1..Len(Ev.leaves) : Ev.leaves[j].p = p IN [ts |-> Ev.leaves[i].ts, v |-> Ev.leaves[i].v]] IN
       /\ (DOMAIN got = DOMAIN view) = TRUE
       /\ (\A p \in DOMAIN got : got[p].v = view[p].v /\ (Ev.strict => got[p].ts = view[p].ts)) = TRUE
       \* nothing was suppressed (all values distinct): every accepted single update has a feed entry of its own,
       \* and there are no more entries than accepted updates
       /\ (Ev.strict => \A p \in DOMAIN okS \cup DOMAIN cbs :
                           Get(okS, p) <= Get(cbs, p) /\ Get(cbs, p) <= Get(okS, p) + Get(multi, p)) = TRUE
    /\ okS' = <<>> /\ multi' = <<>> /\ cbs' = <<>> /\ pendW' = <<>>
    /\ UNCHANGED <<view, written>>

TNext == TScen \/ TWrite \/ TRet \/ TCb \/ TQuiet
TSpec == TInit /\ [][TNext]_tvars

Track == IF l > TLCGet(1) THEN TLCSet(1, l) ELSE TRUE
TraceAccepted ==
    /\ PrintT(<<"HWM", TLCGet(1) - 1, Len(Trace)>>)
    /\ TLCGet(1) = Len(Trace) + 1
=============================================================================
