SPECIFICATION Spec
CONSTANTS
  Procs = {1, 2}
  MaxN = 8
  Menu <- FullMenu
  InitTrees <- Trees
  Mutant = "delete_empty_check_unlocked"
INVARIANTS Refines PrefixFreeAbs NoRace Exclusive NoPhantom
PROPERTIES Terminates
