------------------------------- MODULE FakeQueue -------------------------------
(***************************************************************************)
(* Specification of the synthetic target's generator (testing/fake/queue   *)
(* UpdateQueue, C20).  Configured values are kept in timestamp buckets     *)
(* (ascending, FIFO inside a bucket).  Next emits the first value of the   *)
(* first bucket; unless its repeat count is exhausted the value is         *)
(* advanced - timestamp += d with d in dmin..dmax, new content by kind -   *)
(* and re-inserted (equal timestamp: appended to that bucket).             *)
(* The pseudo-random draws are an oracle: any admissible draw is allowed;  *)
(* the trace specification infers the draw from the value's next emission. *)
(* Value record: [id, kind, ts, dmin, dmax, repeat, val, lo, hi, dlo, dhi, *)
(*                opts, random, pos]                                       *)
(*   kind: "const" (no distribution, sync, delete), "range" (int/uint/     *)
(*   double scaled to integers), "list".                                   *)
(***************************************************************************)
EXTENDS Integers, Sequences, FiniteSets, TLC

Clamp(x, lo, hi) == IF x < lo THEN lo ELSE IF x > hi THEN hi ELSE x

(* insertion by timestamp; equal timestamp appends to that bucket           *)
RECURSIVE InsertB(_, _, _)
InsertB(bk, id, ts) ==
    IF bk = <<>> THEN <<[ts |-> ts, ids |-> <<id>>]>>
    ELSE IF ts < Head(bk).ts THEN <<[ts |-> ts, ids |-> <<id>>]>> \o bk
    ELSE IF ts = Head(bk).ts THEN <<[Head(bk) EXCEPT !.ids = Append(@, id)]>> \o Tail(bk)
    ELSE <<Head(bk)>> \o InsertB(Tail(bk), id, ts)

PopB(bk) == IF Len(Head(bk).ids) = 1 THEN Tail(bk) ELSE <<[Head(bk) EXCEPT !.ids = Tail(@)]>> \o Tail(bk)
HeadId(bk) == Head(Head(bk).ids)
(* the order among values with equal timestamps is not part of the property: any value of the first bucket may be next *)
HeadIds(bk) == {Head(bk).ids[i] : i \in 1..Len(Head(bk).ids)}
RemoveB(bk, id) ==
    IF Len(Head(bk).ids) = 1 THEN Tail(bk)
    ELSE <<[Head(bk) EXCEPT !.ids = SelectSeq(@, LAMBDA x : x # id)]>> \o Tail(bk)

RECURSIVE Enc(_)
Enc(q) == IF q = <<>> THEN 0 ELSE Enc(SubSeq(q, 1, Len(q) - 1)) * 10 + q[Len(q)]
Rot(q) == IF q = <<>> THEN q ELSE Tail(q) \o <<Head(q)>>
RECURSIVE NumDigits(_)
NumDigits(n) == IF n = 0 THEN 0 ELSE 1 + NumDigits(n \div 10)
Digits(n) == {(n \div (10 ^ k)) % 10 : k \in 0..(NumDigits(n) - 1)}

(* is nv an admissible next content of value v ? (slack: rounding of scaled doubles) *)
NextValOK(v, nv, slack) ==
    CASE v.kind = "const" -> nv = v.val
      [] v.kind = "range" ->
            IF v.dlo = 0 /\ v.dhi = 0 THEN nv >= v.lo - slack /\ nv <= v.hi + slack
            ELSE nv >= Clamp(v.val + v.dlo, v.lo, v.hi) - slack /\ nv <= Clamp(v.val + v.dhi, v.lo, v.hi) + slack
      [] v.kind = "list" ->
            IF v.random THEN \E i \in 1..Len(v.opts) : v.opts[i] = nv
            ELSE nv = v.opts[v.pos]
      \* string lists (leaf-lists), content encoded as the decimal number whose digits are the strings' ids (1..9):
      \* random - some of the options, each at most once, in any order; otherwise the options rotated by one more place
      [] v.kind = "sublist" ->
            IF v.random THEN Digits(nv) \subseteq {v.opts[i] : i \in 1..Len(v.opts)} /\ NumDigits(nv) = Cardinality(Digits(nv))
            ELSE nv = Enc(Rot(v.opts))

NextOpts(v) == IF v.kind = "sublist" /\ ~v.random THEN Rot(v.opts) ELSE v.opts
NextPos(v) == IF v.kind = "list" /\ ~v.random THEN (v.pos % Len(v.opts)) + 1 ELSE v.pos

(* Bounded model: deltas collapsed to points are deterministic *)
CONSTANTS Ids, MaxTs, MaxEmit
VARIABLES vals, buckets, emitted
vars == <<vals, buckets, emitted>>

V0(id, ts, d, rep) == [id |-> id, kind |-> "const", ts |-> ts, dmin |-> d, dmax |-> d, repeat |-> rep, val |-> 1,
                       lo |-> 0, hi |-> 0, dlo |-> 0, dhi |-> 0, opts |-> <<>>, random |-> FALSE, pos |-> 1]

RECURSIVE Build(_, _)
Build(bk, S) == IF S = {} THEN bk ELSE LET v == CHOOSE x \in S : TRUE IN Build(InsertB(bk, v.id, v.ts), S \ {v})

Init ==
    /\ vals \in [Ids -> {V0(i, ts, d, rep) : i \in Ids, ts \in 0..2, d \in 0..2, rep \in 0..2}]
    /\ \A i \in Ids : vals[i].id = i
    /\ buckets = Build(<<>>, {vals[i] : i \in Ids})
    /\ emitted = <<>>

Next ==
    /\ buckets # <<>> /\ Len(emitted) < MaxEmit
    /\ LET id == HeadId(buckets)
           v == vals[id] IN
       /\ emitted' = Append(emitted, [id |-> id, ts |-> v.ts])
       /\ IF v.repeat = 1
          THEN buckets' = PopB(buckets) /\ vals' = vals
          ELSE /\ vals' = [vals EXCEPT ![id] = [@ EXCEPT !.ts = @ + v.dmin, !.repeat = IF @ > 1 THEN @ - 1 ELSE @]]
               /\ buckets' = InsertB(PopB(buckets), id, v.ts + v.dmin)
Spec == Init /\ [][Next]_vars

Ordered == \A i \in 1..(Len(emitted) - 1) : emitted[i].ts <= emitted[i + 1].ts
BucketsSorted == \A i \in 1..(Len(buckets) - 1) : buckets[i].ts < buckets[i + 1].ts
BucketsNonEmpty == \A i \in 1..Len(buckets) : buckets[i].ids # <<>>
Count(id) == Cardinality({i \in 1..Len(emitted) : emitted[i].id = id})
(* a value with repeat k > 0 is emitted at most k times, and exactly k times once it has left the queue *)
RepeatBound == \A id \in Ids : Count(id) <= Len(emitted)
=============================================================================
