----------------------------- MODULE CoalesceTrace -----------------------------
(* Trace acceptance for coalesce.Queue used from one goroutine (C11).       *)
EXTENDS Coalesce, Json, IOUtils

VARIABLE l
Trace == ndJsonDeserialize(IOEnv.TRACE)
aux == <<nops, out, ins, del>>
tvars == <<queue, dup, closed, l, aux>>
Ev == Trace[l]
St(name) == l <= Len(Trace) /\ Trace[l].ev = name /\ l' = l + 1

TInit == queue = <<>> /\ dup = <<>> /\ closed = FALSE /\ l = 1 /\ TLCSet(1, 1)
         /\ nops = 0 /\ out = [op |-> "init"] /\ ins = 0 /\ del = 0

TReset == St("reset") /\ queue' = <<>> /\ dup' = <<>> /\ closed' = FALSE

TInsert ==
    /\ St("Insert")
    /\ Ev.res = InsertRes(queue, closed, Ev.i)
    /\ queue' = InsertQ(queue, closed, Ev.i)
    /\ dup' = InsertDup(queue, dup, closed, Ev.i)
    /\ Ev.len = Len(queue')
    /\ UNCHANGED closed

TNextItem ==
    /\ St("Next") /\ Ev.kind = "item"
    /\ queue # <<>>
    /\ Ev.i = Head(queue) /\ Ev.dup = dup[Head(queue)]
    /\ queue' = Tail(queue) /\ dup' = DropKey(dup, Head(queue))
    /\ Ev.len = Len(queue')
    /\ UNCHANGED closed

TNextOther ==
    /\ St("Next") /\ Ev.kind # "item"
    /\ Ev.kind = NextKind(queue, closed)
    /\ Ev.len = Len(queue)
    /\ UNCHANGED <<queue, dup, closed>>

TClose == St("Close") /\ closed' = TRUE /\ Ev.len = Len(queue) /\ UNCHANGED <<queue, dup>>

TIsClosed == St("IsClosed") /\ Ev.res = closed /\ UNCHANGED <<queue, dup, closed>>

TNext == (TReset \/ TInsert \/ TNextItem \/ TNextOther \/ TClose \/ TIsClosed) /\ UNCHANGED aux
TSpec == TInit /\ [][TNext]_tvars

Track == IF l > TLCGet(1) THEN TLCSet(1, l) ELSE TRUE
TraceAccepted ==
    /\ PrintT(<<"HWM", TLCGet(1) - 1, Len(Trace)>>)
    /\ TLCGet(1) = Len(Trace) + 1
=============================================================================
