------------------------------ MODULE ManagerDisc ------------------------------
(***************************************************************************)
(* The per-target callback discipline of manager.Manager (C13) as a        *)
(* deterministic monitor automaton, shared by the model (Manager.tla) and  *)
(* the trace acceptance (ManagerTrace.tla).  A session is                  *)
(*      [ Connect (Update|Sync)+ ] [Reset] ConnectError MonitorError       *)
(* where Reset is mandatory once Connect was reported, Connect is          *)
(* immediately followed by the callback of the stream's first message, and *)
(* updates arrive in stream order.  State:                                 *)
(*   q      "idle"   between sessions                                      *)
(*          "conn"   Connect reported, first message's callback due        *)
(*          "up"     streaming                                             *)
(*          "reset"  Reset reported, ConnectError due                      *)
(*          "cerr"   ConnectError reported, MonitorError due               *)
(*          "bad"    discipline broken                                     *)
(*   last   id of the last update delivered (ids increase along streams)   *)
(***************************************************************************)
EXTENDS Naturals

D0 == [q |-> "idle", last |-> 0]

DStep(d, k, id) ==
    IF d.q = "bad" THEN d
    ELSE CASE k = "connect"    -> IF d.q = "idle" THEN [d EXCEPT !.q = "conn"] ELSE [d EXCEPT !.q = "bad"]
           [] k = "update"     -> IF d.q \in {"conn", "up"} /\ id > d.last THEN [q |-> "up", last |-> id]
                                  ELSE [d EXCEPT !.q = "bad"]
           [] k = "sync"       -> IF d.q \in {"conn", "up"} THEN [d EXCEPT !.q = "up"] ELSE [d EXCEPT !.q = "bad"]
           [] k = "reset"      -> IF d.q \in {"up", "idle"} THEN [d EXCEPT !.q = "reset"] ELSE [d EXCEPT !.q = "bad"]
           [] k = "connecterr" -> IF d.q \in {"reset", "idle"} THEN [d EXCEPT !.q = "cerr"] ELSE [d EXCEPT !.q = "bad"]
           [] k = "monitorerr" -> IF d.q = "cerr" THEN [d EXCEPT !.q = "idle"] ELSE [d EXCEPT !.q = "bad"]
           [] OTHER -> [d EXCEPT !.q = "bad"]
=============================================================================
