SPECIFICATION Spec
CONSTANTS
  Procs = {1, 2}
  MaxN = 8
  Menu <- FullMenu
  InitTrees <- Trees
  Mutant = "delete_no_node_locks"
INVARIANTS Refines PrefixFreeAbs NoRace Exclusive NoPhantom
PROPERTIES Terminates
