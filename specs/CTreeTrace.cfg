SPECIFICATION TSpec
CONSTANTS
  Names = {"a"}
  Values = {"v1"}
  MaxStored = 1
  MaxQuery = 1
CONSTRAINT Track
POSTCONDITION Accepted
CHECK_DEADLOCK FALSE
