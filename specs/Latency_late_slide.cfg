SPECIFICATION Spec
CONSTANTS
  Lats <- LatsSmall
  Sizes = {2, 4}
  Steps = {0, 1, 2}
  Prec = 1
  MaxTime = 12
  MaxOps = 5
  Mutant = "late_slide"
INVARIANTS TypeOK Bounded Window
CHECK_DEADLOCK FALSE
