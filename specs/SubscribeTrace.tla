---------------------------- MODULE SubscribeTrace ----------------------------
(***************************************************************************)
(* Property-level acceptance of recorded executions of subscribe.Server on *)
(* top of cache.Cache (C04, C05, C07, C08, C14 stream clause, C06 server   *)
(* part).  The trace holds only what is observable at API boundaries:      *)
(*   winv/wret   a writer's call into the cache (arguments / result and    *)
(*               the feed entries it produced), one writer per target;     *)
(*   substart    a Subscribe RPC begins (mode, target, index paths, user); *)
(*   send        a response handed to the stream's Send (at entry);        *)
(*   trigger     a POLL trigger sent by the client;                        *)
(*   subend      Subscribe returned (status code);                         *)
(*   quiesce     writers are done and every live, unstalled STREAM         *)
(*               subscriber has received everything offered so far         *)
(*               (established by the driver with sentinel updates through  *)
(*               the FIFO queues), with the cache content read back;       *)
(*   stall/resume/clientend/end/config  driver markers.                    *)
(* Leaves under "meta" and the driver's sentinel leaves are flagged aux    *)
(* and only subject to the ACL rule.                                       *)
(***************************************************************************)
EXTENDS Common, Integers, TLC, Json, IOUtils

VARIABLES cfgv,      \* scenario configuration
          present,   \* leaves [t,p] certainly present (written, no delete since)
          vers,      \* versions [t,p,val,ts] some writer has (started to) written
          sub,       \* per subscriber state
          wcount,    \* number of writer calls started so far
          stable,    \* [valid, w, proj]: cache content at the last quiesce, valid while wcount = w
          l

Trace == ndJsonDeserialize(IOEnv.TRACE)
tvars == <<cfgv, present, vers, sub, wcount, stable, l>>
Ev == Trace[l]
St(name) == l <= Len(Trace) /\ Trace[l].ev = name /\ l' = l + 1
Has(e, f) == f \in DOMAIN e

Key(x) == [t |-> x.t, p |-> x.p]
Keys(S) == {Key(x) : x \in S}

Allowed(user, t) == ~cfgv.aclOn \/ <<user, t>> \in cfgv.acl
TargetOK(s, t)   == s.t = "*" \/ s.t = t

(* snapshot relation (ctree.Query) and streaming relation (match.Match)     *)
QMatches(s, x) == TargetOK(s, x.t) /\ Allowed(s.user, x.t) /\ \E q \in s.paths : QueryMatch(q, x.p)
(* the streaming filter matches a notification by its update paths: for an   *)
(* atomic container these are the paths of its children (x.kids)             *)
AMatches(s, x) == TargetOK(s, x.t) /\ Allowed(s.user, x.t) /\ \E q \in s.paths : \E i \in 1..Len(x.kids) : Agree(q, x.kids[i])
DMatches(s, x) == TargetOK(s, x.t) /\ Allowed(s.user, x.t) /\ \E q \in s.paths : Agree(q, x.p)

TsOK(v, x) == v = x \/ (cfgv.ed /\ v <= x)

NoSub == [mode |-> "", t |-> "", paths |-> {}, uo |-> FALSE, user |-> "", started |-> FALSE, ended |-> FALSE,
          code |-> "", expect |-> "", syncs |-> 0, nall |-> 0, view |-> {}, cand |-> {}, got |-> {},
          w0 |-> 0, clean0 |-> FALSE, tdel |-> FALSE, stalled |-> FALSE, timeouts |-> FALSE,
          settled |-> FALSE, offers |-> <<>>, deliv |-> <<>>, dels |-> 0, auxkeys |-> {}, dupsum |-> 0, regw |-> 0, ending |-> FALSE]

(* counting functions over leaf keys                                        *)
Inc(f, k, n) == [x \in DOMAIN f \cup {k} |-> (IF x \in DOMAIN f THEN f[x] ELSE 0) + (IF x = k THEN n ELSE 0)]

TInit ==
    /\ cfgv = [ed |-> TRUE, aclOn |-> FALSE, acl |-> {}, aclErr |-> {}, targets |-> {}, removed |-> {}, shortTimeout |-> FALSE, winv |-> <<>>]
    /\ present = {} /\ vers = {} /\ sub = <<>> /\ wcount = 0
    /\ stable = [valid |-> FALSE, w |-> 0, proj |-> {}]
    /\ l = 1 /\ TLCSet(1, 1)

TConfig ==
    /\ St("config")
    /\ cfgv' = [ed |-> Ev.ed, aclOn |-> Ev.acl_on, acl |-> {<<Ev.acl[i].u, Ev.acl[i].t>> : i \in 1..Len(Ev.acl)},
                aclErr |-> SeqToSet(Ev.acl_err), targets |-> SeqToSet(Ev.targets), removed |-> {},
                shortTimeout |-> Ev.timeout_ms < 1000, winv |-> <<>>]
    /\ present' = {} /\ vers' = {} /\ sub' = <<>> /\ wcount' = 0
    /\ stable' = [valid |-> FALSE, w |-> 0, proj |-> {}]

---------------------------------------------------------------------------
(* Writers                                                                 *)

MayDelete(e, x) ==
    /\ x.t = e.t
    /\ \/ e.op \in {"Reset", "Remove"}
       \/ e.op = "GnmiUpdate" /\ \E i \in 1..Len(e.dels) : QueryMatch(e.dels[i].p, x.p)

TWinv ==
    /\ St("winv")
    /\ LET e == Ev
           nv == IF e.op = "GnmiUpdate"
                 THEN {[t |-> e.t, p |-> e.ups[i].p, val |-> e.ups[i].val, ts |-> e.ts, kids |-> e.ups[i].kids] : i \in 1..Len(e.ups)}
                 ELSE {} IN
       /\ vers' = vers \cup nv
       /\ present' = {x \in present : ~MayDelete(e, x)}
       /\ sub' = [s \in DOMAIN sub |-> [sub[s] EXCEPT !.cand = {x \in @ : ~MayDelete(e, x)}]]
       /\ wcount' = wcount + 1
       \* winv[t]: the number of this writer call (the writer of a target has one call outstanding at most)
       /\ cfgv' = [cfgv EXCEPT !.removed = IF e.op = "Remove" THEN @ \cup {e.t} ELSE @,
                               !.winv = [t \in DOMAIN @ \cup {e.t} |-> IF t = e.t THEN wcount + 1 ELSE @[t]]]
    /\ UNCHANGED stable

(* What the feed offered to a settled subscriber during this call (C06/C08): *)
(* an update is offered once if the leaf agrees with one of its paths.       *)
RECURSIVE AddOffers(_, _, _, _)
AddOffers(s, t, fed, i) ==
    IF i > Len(fed) THEN s
    ELSE LET f == fed[i]
             x == [t |-> t, p |-> f.p] IN
         IF f.k = "upd" /\ AMatches(s, [t |-> t, p |-> f.p, kids |-> f.kids])
         THEN IF f.aux THEN AddOffers([s EXCEPT !.auxkeys = @ \cup {x}], t, fed, i + 1)
              ELSE AddOffers([s EXCEPT !.offers = Inc(@, x, 1)], t, fed, i + 1)
         ELSE IF f.k = "del" /\ DMatches(s, x)
         THEN AddOffers([s EXCEPT !.dels = @ + 1], t, fed, i + 1)
         ELSE AddOffers(s, t, fed, i + 1)

(* One notification of the change feed is offered to a client at most once,  *)
(* however many of its paths agree with it (C06); counted by the driver at   *)
(* the offer hook while the notification is handed to the server.            *)
(* ... and it is offered to a settled subscriber if and only if it agrees    *)
(* with one of the subscriber's paths on every element they both have (the   *)
(* ACL plays no part at offer time).                                         *)
OfferExpected(s, t, f) ==
    /\ TargetOK(s, t)
    /\ \E q \in s.paths : IF f.k = "upd" THEN \E i \in 1..Len(f.kids) : Agree(q, f.kids[i]) ELSE Agree(q, f.p)
(* judged from the moment the registration of the stream has returned: for   *)
(* writer calls that began after it (regw: the number of writer calls begun  *)
(* when the driver's hook behind the registration fired; 0 = not registered) *)
OfferJudged(s, t) == /\ s.regw > 0 /\ ~s.ended /\ ~s.stalled /\ ~s.timeouts /\ s.mode = "stream"
                     /\ t \in DOMAIN cfgv.winv /\ cfgv.winv[t] > s.regw
(* a stream that the client is ending, or whose target has been removed (it   *)
(* is handed the target delete and ends), leaves the registry some time before *)
(* its RPC returns: a notification it is no longer offered is not a fault      *)
MissJudged(s, t) == OfferJudged(s, t) /\ ~s.ending /\ (s.t = "*" \/ s.t \notin cfgv.removed)
TWret ==
    /\ St("wret")
    /\ (\A i \in 1..Len(Ev.fed) : Ev.fed[i].maxoff <= 1) = TRUE
    /\ (\A i \in 1..Len(Ev.fed) : \A n \in DOMAIN sub :
            /\ OfferJudged(sub[n], Ev.t) => ((n \in SeqToSet(Ev.fed[i].to)) => OfferExpected(sub[n], Ev.t, Ev.fed[i]))
            /\ MissJudged(sub[n], Ev.t) => (OfferExpected(sub[n], Ev.t, Ev.fed[i]) => (n \in SeqToSet(Ev.fed[i].to)))) = TRUE
    /\ present' = present \cup {[t |-> Ev.t, p |-> Ev.fed[i].p] : i \in {j \in 1..Len(Ev.fed) : Ev.fed[j].k = "upd" /\ ~Ev.fed[j].aux}}
    /\ sub' = [n \in DOMAIN sub |-> IF sub[n].settled /\ ~sub[n].ended THEN AddOffers(sub[n], Ev.t, Ev.fed, 1) ELSE sub[n]]
    /\ UNCHANGED <<cfgv, vers, wcount, stable>>

---------------------------------------------------------------------------
(* Subscribers                                                             *)

Expect(e) ==
    IF cfgv.aclOn /\ e.user \in cfgv.aclErr THEN "Unauthenticated"
    ELSE IF e.t # "*" /\ e.t \notin cfgv.targets THEN "NotFound"
    ELSE IF cfgv.aclOn /\ e.t # "*" /\ <<e.user, e.t>> \notin cfgv.acl THEN "PermissionDenied"
    ELSE ""

StartWalk(s) ==
    [s EXCEPT !.cand = {x \in present : QMatches(s, x)}, !.got = {}, !.w0 = wcount,
              !.clean0 = (stable.valid /\ stable.w = wcount)]

TSubStart ==
    /\ St("substart")
    /\ LET e == Ev
           s0 == [NoSub EXCEPT !.mode = e.mode, !.t = e.t, !.paths = SeqToSet(e.paths), !.uo = e.uo,
                               !.user = e.user, !.started = TRUE, !.expect = Expect(e)]
           s1 == StartWalk(s0) IN
       sub' = [n \in DOMAIN sub \cup {e.s} |-> IF n = e.s THEN s1 ELSE sub[n]]
    /\ UNCHANGED <<cfgv, present, vers, wcount, stable>>

(* driver marker: addSubscription has returned for this stream              *)
TRegistered ==
    /\ St("registered")
    /\ sub' = [sub EXCEPT ![Ev.s].regw = wcount + 1]
    /\ UNCHANGED <<cfgv, present, vers, wcount, stable>>

TTrigger ==
    /\ St("trigger")
    /\ sub[Ev.s].mode = "poll"
    /\ sub' = [sub EXCEPT ![Ev.s] = StartWalk(@)]
    /\ UNCHANGED <<cfgv, present, vers, wcount, stable>>

(* Every response: the subscription is running, was not refused, and the   *)
(* caller is authorised for the response's target (C07).                   *)
SendBase(s, e) ==
    /\ s.started /\ ~s.ended /\ s.expect = ""
    /\ Has(e, "t") => Allowed(s.user, e.t)

(* An update response: a value the leaf has held; the leaf agrees with one *)
(* of the subscription's paths (query-matches it for ONCE/POLL).           *)
TSendUpd ==
    /\ St("send") /\ Ev.k = "upd"
    /\ LET e == Ev
           s == sub[e.s]
           x == [t |-> e.t, p |-> e.p, val |-> e.val, ts |-> e.ts, kids |-> e.kids] IN
       /\ SendBase(s, e) = TRUE
       /\ IF e.aux THEN sub' = [sub EXCEPT ![e.s] = [@ EXCEPT !.nall = @ + 1, !.dupsum = @ + e.dup]]
          ELSE /\ (x \in vers) = TRUE
               /\ (IF s.mode = "stream" THEN AMatches(s, x) ELSE QMatches(s, x)) = TRUE
               /\ sub' = [sub EXCEPT ![e.s] =
                            [@ EXCEPT !.nall = @ + 1, !.dupsum = @ + e.dup,
                                      !.view = {v \in @ : Key(v) # Key(x)} \cup {x},
                                      !.got = @ \cup {x},
                                      !.deliv = Inc(@, Key(x), 1 + e.dup)]]
    /\ UNCHANGED <<cfgv, present, vers, wcount, stable>>

TSendDel ==
    /\ St("send") /\ Ev.k = "del"
    /\ LET e == Ev
           s == sub[e.s] IN
       /\ SendBase(s, e) = TRUE
       /\ sub' = [sub EXCEPT ![e.s] =
                    [@ EXCEPT !.nall = @ + 1,
                              !.view = {v \in @ : ~(v.t = e.t /\ QueryMatch(e.p, v.p))},
                              !.tdel = @ \/ (e.p = <<Glob>> /\ e.t = s.t)]]
    /\ UNCHANGED <<cfgv, present, vers, wcount, stable>>

(* sync_response: exactly one per walk; after every leaf that was present  *)
(* for the whole walk was sent; against an unchanging cache the walk's     *)
(* responses are exactly the matching content (C05).                       *)
SnapshotOK(s) ==
    IF s.clean0 /\ s.w0 = wcount
    THEN s.got = {x \in stable.proj : QMatches(s, x)}
    ELSE s.cand \subseteq Keys(s.got)

TSendSync ==
    /\ St("send") /\ Ev.k = "sync"
    /\ LET s == sub[Ev.s] IN
       /\ SendBase(s, Ev) = TRUE
       /\ (s.mode \in {"stream", "once"} => s.syncs = 0) = TRUE
       /\ IF s.mode = "stream" /\ s.uo THEN s.nall = 0 ELSE SnapshotOK(s) = TRUE
       /\ sub' = [sub EXCEPT ![Ev.s] = [@ EXCEPT !.syncs = @ + 1, !.nall = @ + 1, !.cand = {}]]
    /\ UNCHANGED <<cfgv, present, vers, wcount, stable>>

(* The sender goroutine may hand one more response to Send after the RPC    *)
(* has returned (the transport would drop it): outside the properties.      *)
TSendAfterEnd ==
    /\ St("send") /\ sub[Ev.s].ended
    /\ UNCHANGED <<cfgv, present, vers, sub, wcount, stable>>

(* Subscribe returned.                                                      *)
EndOK(s, code) ==
    \* a refusal: the expected code - or NotFound when the target has been removed meanwhile (the server looks the
    \* target up before it asks the ACL)
    IF s.expect # "" THEN (code = s.expect \/ (s.expect = "PermissionDenied" /\ code = "NotFound" /\ s.t \in cfgv.removed)) /\ s.nall = 0
    ELSE CASE s.mode = "once" -> (code = "OK" /\ s.syncs = 1) \/ (code = "NotFound" /\ s.t \in cfgv.removed /\ s.nall = 0)
           [] s.mode = "poll" -> code \in {"OK", "Canceled"} \/ (code = "NotFound" /\ s.t \in cfgv.removed /\ s.nall = 0)
           [] s.mode = "stream" ->
                \/ code = "Canceled"
                \/ code = "OK" /\ s.tdel                 \* its only target was deleted
                \/ code \notin {"OK", "Canceled"} /\ s.timeouts   \* a send timed out (C08)
                \* with a sub-second send timeout any subscriber may time out for reasons outside
                \* the system (scheduling, GC): not a verdict
                \/ code = "Error" /\ cfgv.shortTimeout
                \/ code = "NotFound" /\ s.t \in cfgv.removed /\ s.nall = 0

TSubEnd ==
    /\ St("subend")
    /\ LET s == sub[Ev.s] IN
       /\ s.started /\ ~s.ended
       /\ EndOK(s, Ev.code) = TRUE
    /\ sub' = [sub EXCEPT ![Ev.s] = [@ EXCEPT !.ended = TRUE, !.code = Ev.code]]
    /\ UNCHANGED <<cfgv, present, vers, wcount, stable>>

---------------------------------------------------------------------------
(* Quiescence: replaying a live STREAM subscriber's responses yields the   *)
(* cache's matching content (C04).  Leaves that merely agree with a        *)
(* subscription path without query-matching it may or may not be in the    *)
(* view (the streaming filter is wider than the query, C06).               *)

Proj(e) == {[t |-> e.proj[i].t, p |-> e.proj[i].p, val |-> e.proj[i].val, ts |-> e.proj[i].ts, kids |-> e.proj[i].kids] : i \in 1..Len(e.proj)}

Converged(s, proj) ==
    /\ s.uo \/ \A x \in {y \in proj : QMatches(s, y)} :
                  \E v \in s.view : Key(v) = Key(x) /\ v.val = x.val /\ TsOK(v.ts, x.ts)
    /\ \A v \in s.view :
          \E x \in {y \in proj : AMatches(s, y)} : Key(v) = Key(x) /\ v.val = x.val /\ TsOK(v.ts, x.ts)

Live(s) == s.started /\ ~s.ended /\ s.expect = "" /\ ~s.stalled

(* Diagnosis only: convergence on the targets that were never removed or   *)
(* reset in this scenario (if it holds while Converged fails, what went    *)
(* wrong concerns a removed/reset target: C14).                             *)
GoneTargets == {Trace[j].t : j \in {k \in 1..l : Trace[k].ev = "winv" /\ Trace[k].op \in {"Remove", "Reset"}}}
ConvergedKept(s, proj) ==
    LET g == GoneTargets IN
    Converged([s EXCEPT !.view = {v \in @ : v.t \notin g}], {x \in proj : x.t \notin g})

(* Between two quiescent points a settled subscriber receives, per leaf,    *)
(* as many deliveries - counting the reported duplicates - as updates were *)
(* offered to it: one delivery per notification, exact duplicate counts    *)
(* (C06, C08).                                                              *)
Conserved(s) ==
    /\ DOMAIN s.deliv = DOMAIN s.offers
    /\ \A k \in DOMAIN s.offers : s.deliv[k] = s.offers[k]

LateOf(e, n) == LET i == CHOOSE j \in 1..Len(e.subs) : e.subs[j].s = n IN e.subs[i].late

(* Server statistics (subscribe.WithStats) read at quiescence - beyond the   *)
(* listed properties: per subscription mode and per requested target, the    *)
(* active count is the number of RPCs inside Subscribe past the target check *)
(* and the cumulative count the number that ever got there (an RPC refused   *)
(* NotFound is counted only if the target vanished after the first check);   *)
(* a live, unstalled subscriber's client entry names its target, shows an    *)
(* empty queue and a coalesce count equal to the duplicates reported to it   *)
(* (at least those, when an ACL filters some dequeued items).                *)
Card(S) == Cardinality(S)
StatOf(lst, k) == LET c == {i \in 1..Len(lst) : lst[i].k = k} IN
                IF c = {} THEN [active |-> 0, total |-> 0] ELSE lst[CHOOSE i \in c : TRUE]
CountOK(lst, k, sel(_)) ==
    LET st    == StatOf(lst, k)
        alive == {n \in DOMAIN sub : sel(sub[n]) /\ sub[n].started /\ ~sub[n].ended}
        gone  == {n \in DOMAIN sub : sel(sub[n]) /\ sub[n].started /\ sub[n].ended}
        sure  == {n \in gone : sub[n].code \notin {"NotFound", "Unauthenticated", "InvalidArgument"}}
        maybe == {n \in gone : sub[n].code = "NotFound" /\ sub[n].mode = "stream"}
        racy  == {n \in gone : sub[n].timeouts}      \* may have ended while the statistics were read
    IN /\ st.active >= Card(alive) /\ st.active <= Card(alive) + Card(racy)
       /\ st.total >= Card(alive) + Card(sure) /\ st.total <= Card(alive) + Card(sure) + Card(maybe)
IdleOf(e, n) == \E j \in 1..Len(e.subs) : e.subs[j].s = n /\ e.subs[j].idle
StatsOK(e) ==
    LET st == e.stats IN
    /\ \A i \in 1..Len(st.types) : st.types[i].k \in {"stream", "once", "poll"}
    /\ \A m \in {"stream", "once", "poll"} : CountOK(st.types, m, LAMBDA s : s.mode = m)
    /\ \A t \in {sub[n].t : n \in DOMAIN sub} \cup {st.targets[i].k : i \in 1..Len(st.targets)} :
          CountOK(st.targets, t, LAMBDA s : s.t = t)
    /\ \A i \in 1..Len(st.clients) :
          LET c == st.clients[i] IN
          c.s \in DOMAIN sub /\ sub[c.s].started /\ c.t = sub[c.s].t
          /\ ((~sub[c.s].ended /\ ~sub[c.s].stalled /\ ~sub[c.s].timeouts /\ IdleOf(e, c.s)) =>
                 (c.qsize = 0 /\ c.coalesce >= sub[c.s].dupsum /\ (cfgv.aclOn \/ c.coalesce = sub[c.s].dupsum)))
    /\ \A n \in DOMAIN sub :
          (sub[n].started /\ ~sub[n].ended /\ ~sub[n].stalled /\ ~sub[n].timeouts /\ sub[n].nall >= 1) =>
             \E i \in 1..Len(st.clients) : st.clients[i].s = n

(* With DIAG=1 in the environment the three aspects of the last line (a     *)
(* quiesce) are printed; the runner uses them to name the broken property.  *)
DiagOn == "DIAG" \in DOMAIN IOEnv /\ IOEnv.DIAG = "1"
Diag(a) == IF DiagOn /\ l = Len(Trace) THEN PrintT(<<"DIAG", a>>) ELSE TRUE

TQuiesce ==
    /\ St("quiesce")
    /\ LET proj == Proj(Ev)
           a == [conv |-> \A n \in DOMAIN sub :
                            (Live(sub[n]) /\ sub[n].mode = "stream") => (sub[n].syncs = 1 /\ Converged(sub[n], proj)),
                 convkept |-> ~DiagOn \/ \A n \in DOMAIN sub :
                            (Live(sub[n]) /\ sub[n].mode = "stream") => (sub[n].syncs = 1 /\ ConvergedKept(sub[n], proj)),
                 cons |-> \A n \in DOMAIN sub : (Live(sub[n]) /\ sub[n].settled) => Conserved(sub[n]),
                 late |-> \A n \in DOMAIN sub :
                            (\E j \in 1..Len(Ev.subs) : Ev.subs[j].s = n) => LateOf(Ev, n) = 0,
                 stat |-> StatsOK(Ev)] IN
       /\ Diag(a)
       /\ (a.conv /\ a.cons /\ a.late /\ a.stat) = TRUE
       /\ stable' = [valid |-> TRUE, w |-> wcount, proj |-> proj]
       /\ sub' = [n \in DOMAIN sub |->
                    [sub[n] EXCEPT !.settled = (Live(sub[n]) /\ sub[n].mode = "stream" /\ sub[n].syncs = 1),
                                   !.offers = <<>>, !.deliv = <<>>, !.dels = 0, !.auxkeys = {}]]
    /\ UNCHANGED <<cfgv, present, vers, wcount>>

(* While a subscriber is stalled its backlog holds at most one entry per   *)
(* distinct pending leaf (a re-added leaf is a new one) plus one per delete *)
(* (C08).                                                                   *)
TBacklog ==
    /\ St("backlog")
    /\ LET s == sub[Ev.s] IN
       \* (+ the driver's own sentinel leaves, four per target, which may still be pending)
       (s.settled => Ev.len <= Cardinality(DOMAIN s.offers) + Cardinality(s.auxkeys) + 2 * s.dels
                                + 4 * Cardinality(cfgv.targets)) = TRUE
    /\ UNCHANGED <<cfgv, present, vers, sub, wcount, stable>>

(* Driver markers.                                                          *)
TStall ==
    /\ St("stall")
    /\ sub' = [sub EXCEPT ![Ev.s] = [@ EXCEPT !.stalled = TRUE, !.timeouts = @ \/ Ev.kind = "permanent"]]
    /\ UNCHANGED <<cfgv, present, vers, wcount, stable>>
TResume ==
    /\ St("resume")
    /\ sub' = [sub EXCEPT ![Ev.s].stalled = FALSE]
    /\ UNCHANGED <<cfgv, present, vers, wcount, stable>>
TClientEnd == /\ St("clientend")
              /\ sub' = IF Ev.s \in DOMAIN sub THEN [sub EXCEPT ![Ev.s].ending = TRUE] ELSE sub
              /\ UNCHANGED <<cfgv, present, vers, wcount, stable>>
TEnd ==
    /\ St("end")
    /\ (\A n \in DOMAIN sub : sub[n].started => sub[n].ended) = TRUE
    /\ UNCHANGED <<cfgv, present, vers, sub, wcount, stable>>

TNext == \/ TConfig \/ TWinv \/ TWret \/ TSubStart \/ TRegistered \/ TTrigger \/ TSendUpd \/ TSendDel \/ TSendSync \/ TSendAfterEnd
         \/ TSubEnd \/ TQuiesce \/ TBacklog \/ TStall \/ TResume \/ TClientEnd \/ TEnd
TSpec == TInit /\ [][TNext]_tvars

Track == IF l > TLCGet(1) THEN TLCSet(1, l) ELSE TRUE
TraceAccepted ==
    /\ PrintT(<<"HWM", TLCGet(1) - 1, Len(Trace)>>)
    /\ TLCGet(1) = Len(Trace) + 1
=============================================================================
