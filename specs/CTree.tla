-------------------------------- MODULE CTree --------------------------------
(***************************************************************************)
(* Sequential specification of ctree.Tree (property C09): a map from paths *)
(* to values in which no stored path is a prefix of another one.           *)
(*                                                                         *)
(* tree is a set of records [p |-> path, v |-> value] so that it           *)
(* serialises to / from JSON without conversion.                           *)
(*                                                                         *)
(* Every public operation of the Go type is an operator giving its result  *)
(* and its successor state; the actions below and the trace specification  *)
(* CTreeTrace both use them, so there is one source of truth.              *)
(***************************************************************************)
EXTENDS Common, TLC

CONSTANTS Names,      \* element alphabet for the bounded model (includes "*")
          Values,     \* value alphabet for the bounded model
          MaxStored,  \* longest stored path in the bounded model
          MaxQuery    \* longest query / delete path in the bounded model

VARIABLES tree,       \* the abstract map
          out         \* result of the last operation (output only, hidden by VIEW)

vars == <<tree, out>>

---------------------------------------------------------------------------
(* State predicates and result operators                                   *)

Paths(t)           == {l.p : l \in t}
IsLeafPath(t, p)   == p \in Paths(t)
IsBranchPath(t, p) == \E l \in t : IsProperPrefixOf(p, l.p)
CrossesLeaf(t, p)  == \E l \in t : IsProperPrefixOf(l.p, p)

PrefixFree(t) == \A x, y \in t : x # y => ~IsPrefixOf(x.p, y.p)

LeafAt(t, p) == CHOOSE l \in t : l.p = p

(* Add: refused when the position is a branch or lies beyond a leaf.        *)
AddOK(t, p)      == ~IsBranchPath(t, p) /\ ~CrossesLeaf(t, p)
AddRes(t, p)     == IF AddOK(t, p) THEN "ok" ELSE "err"
AddPost(t, p, v) == IF AddOK(t, p)
                    THEN {l \in t : l.p # p} \cup {[p |-> p, v |-> v]}
                    ELSE t

(* Literal lookups.                                                         *)
GetKind(t, p) == IF IsLeafPath(t, p) THEN "leaf"
                 ELSE IF IsBranchPath(t, p) THEN "branch" ELSE "none"
GetVal(t, p)  == IF IsLeafPath(t, p) THEN LeafAt(t, p).v ELSE "-"

ChildrenOf(t, p) == {l.p[Len(p) + 1] : l \in {x \in t : IsProperPrefixOf(p, x.p)}}

(* Wildcard query / walk.                                                   *)
QueryRes(t, q) == {l \in t : QueryMatch(q, l.p)}

(* Deletes: exactly what the query for the same path reports, restricted   *)
(* by the condition (a set of accepted values).                             *)
DelSet(t, q, cond)  == {l \in QueryRes(t, q) : l.v \in cond}
DelPost(t, q, cond) == t \ DelSet(t, q, cond)

---------------------------------------------------------------------------
(* Bounded model                                                           *)

StoredPaths == PathsUpTo(Names, MaxStored)
QueryPaths  == PathsUpTo(Names, MaxQuery)
Conds       == {Values} \cup {{v} : v \in Values}

Init == tree = {} /\ out = [op |-> "init"]

Add(p, v) ==
    /\ tree' = AddPost(tree, p, v)
    /\ out'  = [op |-> "Add", p |-> p, v |-> v, res |-> AddRes(tree, p)]

Get(p) ==
    /\ UNCHANGED tree
    /\ out' = [op |-> "Get", kind |-> GetKind(tree, p), val |-> GetVal(tree, p)]

Children(p) ==
    /\ UNCHANGED tree
    /\ out' = [op |-> "Children", names |-> ChildrenOf(tree, p)]

Query(q) ==
    /\ UNCHANGED tree
    /\ out' = [op |-> "Query", leaves |-> QueryRes(tree, q)]

Delete(q, cond) ==
    /\ tree' = DelPost(tree, q, cond)
    /\ out'  = [op |-> "Delete", q |-> q, cond |-> cond, leaves |-> DelSet(tree, q, cond)]

Next ==
    \/ \E p \in StoredPaths, v \in Values : Add(p, v)
    \/ \E p \in QueryPaths : Get(p) \/ Children(p) \/ Query(p)
    \/ \E q \in QueryPaths, c \in Conds : Delete(q, c)

Spec == Init /\ [][Next]_vars

View == tree

---------------------------------------------------------------------------
(* Properties of the design                                                *)

TypeOK == \A l \in tree : l.p \in StoredPaths /\ l.v \in Values

InvPrefixFree == PrefixFree(tree)

(* A failed add leaves the tree unchanged; a successful one stores exactly *)
(* the value at the path and touches nothing else.                          *)
AddEffect ==
    [][out'.op = "Add" =>
         IF out'.res = "err" THEN tree' = tree
         ELSE /\ [p |-> out'.p, v |-> out'.v] \in tree'
              /\ \A l \in tree' : l.p # out'.p => l \in tree
              /\ \A l \in tree  : l.p # out'.p => l \in tree']_vars

(* A delete removes and reports exactly what the query for the same path   *)
(* reports (restricted by the condition).                                   *)
DeleteEqualsQuery ==
    [][out'.op = "Delete" =>
         /\ out'.leaves = {l \in QueryRes(tree, out'.q) : l.v \in out'.cond}
         /\ tree' = tree \ out'.leaves]_vars

(* After a delete the positions it emptied accept an add again (pruning):  *)
(* whenever nothing stored conflicts with p, Add(p) is enabled.             *)
AddAfterPrune ==
    \A p \in StoredPaths :
        (~\E l \in tree : IsProperPrefixOf(p, l.p) \/ IsProperPrefixOf(l.p, p))
            => AddOK(tree, p)

(* Everything a query reports agrees with the streaming filter (C06 link). *)
QueryImpliesAgree ==
    \A q \in QueryPaths : \A l \in tree : QueryMatch(q, l.p) => Agree(q, l.p)

(* Universe dump for the conformance driver: one line per distinct tree.   *)
EmitState == PrintT(<<"STATE", tree>>)
=============================================================================
