---------------------------- MODULE CacheConcTrace ----------------------------
(***************************************************************************)
(* C15, concurrent-refresh clause: after one update stream per target has   *)
(* run concurrently with the periodic refreshers and readers (the execution *)
(* the race detector monitors), the counters read back at rest are still    *)
(* truthful: leaf count = non-metadata leaves stored = added - deleted.     *)
(***************************************************************************)
EXTENDS Integers, Sequences, TLC, Json, IOUtils
VARIABLE l
Trace == ndJsonDeserialize(IOEnv.TRACE)
Ev == Trace[l]
TInit == l = 1 /\ TLCSet(1, 1)
TFinal ==
    /\ l <= Len(Trace) /\ Ev.ev = "concfinal" /\ l' = l + 1
    /\ (\A i \in 1..Len(Ev.targets) :
          LET x == Ev.targets[i] IN x.leaves = x.nonmeta /\ x.leaves = x.added - x.deleted) = TRUE
TSpec == TInit /\ [][TFinal]_l
Track == IF l > TLCGet(1) THEN TLCSet(1, l) ELSE TRUE
TraceAccepted ==
    /\ PrintT(<<"HWM", TLCGet(1) - 1, Len(Trace)>>)
    /\ TLCGet(1) = Len(Trace) + 1
=============================================================================
