SPECIFICATION TSpec
CONSTANTS
  Names = {"a"}
  MaxLen = 1
  Clients = {"c1"}
  MaxOps = 0
CONSTRAINT Track
POSTCONDITION TraceAccepted
CHECK_DEADLOCK FALSE
