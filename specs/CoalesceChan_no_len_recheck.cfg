SPECIFICATION SpecClose
CONSTANTS
  Producers = {"p1", "p2"}
  Mutant = "no_len_recheck"
INVARIANTS TypeOK Conservation NoLostWakeup ClosedAfterDrain
PROPERTIES ConsumerReturns WakeOnInsert
CHECK_DEADLOCK FALSE
