SPECIFICATION Spec
CONSTANTS
  Ids = {"v1", "v2"}
  MaxTs = 6
  MaxEmit = 8
INVARIANTS Ordered BucketsSorted BucketsNonEmpty
CHECK_DEADLOCK FALSE
