SPECIFICATION Spec
CONSTANTS
  Paths = {"p1", "p2"}
  Vals = {1, 2}
  MaxOps = 4
  UpdatesOnly = TRUE
  Mutant = "uo_sync_after_register"
INVARIANTS UOSyncFirst Backlog Converge NoLostUpdate SyncAfterSnapshot
CHECK_DEADLOCK FALSE
PROPERTIES EventuallySynced EventuallyConverged
