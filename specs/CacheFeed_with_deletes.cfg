SPECIFICATION Spec
CONSTANTS
  Writers = {1, 2, 3}
  Paths = {"p", "q"}
  MaxTs = 3
  WithDeletes = TRUE
  WithSuppression = FALSE
  Mutant = "none"
INVARIANTS FeedFaithful NothingSilent
PROPERTIES AllReturn
CHECK_DEADLOCK FALSE
